//! Miri shard: the parser, its two `transmute`s from raw rowan kinds, rowan's green/red trees and the shared
//! `NodeCache` interpreted under Miri (undefined behaviour, invalid enum discriminants, out-of-bounds,
//! use-after-free, leaks) while the C01 (lossless) and C04 (cache-independent) oracles run on the same trees.
//!
//! argv: <seed> <shard> <n>        (plain argv: the shell environment does not reach a Miri process)
//! stdout: one line per case class and a final `MIRI-SUMMARY {json-ish}` line read by scripts/miri_shard.py;
//! a violated oracle prints `MIRI-VIOLATION property=<id> sig=<sig> detail=<...>` and the run goes on.
//! UB found by Miri itself aborts the interpreter with its own report (non-zero exit, "Undefined Behavior").

#![allow(dead_code)]

#[path = "../../harness/src/rng.rs"]
mod rng;
#[path = "../../harness/src/gens/soup.rs"]
mod soup;

use emmylua_parser::{LuaAstNode, LuaChunk, LuaKind, LuaLanguageLevel, LuaParser, LuaSyntaxKind, LuaSyntaxNode, LuaSyntaxTree, LuaTokenKind, ParserConfig};
use rng::Rng;
use rowan::NodeCache;
use std::collections::HashMap;

const LEVELS: [LuaLanguageLevel; 8] = [
    LuaLanguageLevel::Lua51,
    LuaLanguageLevel::LuaJIT2,
    LuaLanguageLevel::LuaJIT,
    LuaLanguageLevel::LuaJIT3,
    LuaLanguageLevel::Lua52,
    LuaLanguageLevel::Lua53,
    LuaLanguageLevel::Lua54,
    LuaLanguageLevel::Lua55,
];

const SEEDS: &[&str] = &[
    "",
    "\0",
    "\u{feff}local a = 1",
    "local a <const>, b <close> = 1, 2",
    "---@class A<T>: B\n---@field x fun(a: T): T[]\nlocal A = {}\n",
    "---@type { [string]: integer, a?: (string|nil)[] }\nlocal t = { [1] = 2; x = 3, 'y' }\n",
    "goto l ::l:: for i = 1, 2 do break end repeat until x",
    "x = [==[ long\n]] ]==] --[[ c ]] .. 'a\\z\n  b' .. \"\\u{10FFFF}\"",
    "---@param a? integer @ desc\n---@return string ... -- more\nfunction m.f:g(a, ...) return ... end",
    "---@alias X 'a' | \"b\" | `T` | fun(): (integer, string)\n---@cast a +string, -nil\n",
    "if a then elseif b then else end while 1 do end",
    "local function f() return function() end end f{1}(2)'s'[[l]]:m()",
    "---@diagnostic disable-next-line: undefined-global\nprint(x // 2 >> 1 ~ 3 & 4 | 5)\n",
    "a.b['c'].d:e().f = #t, -x, not y, ~z",
    "---@generic T: table, K\n---@overload fun(a: T, k: K): T[K]\n---@operator add(A): A\n",
    "--- plain **doc** `code`\n---   indented\n---\n---@see a.b#c\n---@deprecated use x\n---@async\n---@nodiscard\n",
    "return",
    ")))](]]{{{ end end until",
    "local \u{e9} = '\u{540d}' -- \u{1F600}\r\nx\r=\r1\r",
    "---@enum (key) E\n---@field [integer] string\n---@type A.B.C<D, E>?\n---@module 'x'\n---@source a.lua:1\n",
];

fn parse_with(text: &str, level: usize, doc: bool, cache: Option<&mut NodeCache>) -> LuaSyntaxTree {
    let cfg = ParserConfig::new(LEVELS[level % 8], cache, HashMap::new(), Default::default(), doc);
    LuaParser::parse(text, cfg)
}

/// C01 oracle (same clauses as harness/src/props/c01.rs) + every raw kind read back through the transmutes.
fn check_lossless(text: &str, tree: &LuaSyntaxTree) -> Result<(usize, usize), String> {
    let root = tree.get_red_root();
    if root.kind() != LuaSyntaxKind::Chunk.into() {
        return Err(format!("root-not-chunk:{:?}", root.kind()));
    }
    let mut pos = 0usize;
    let mut ntok = 0usize;
    let mut nnode = 0usize;
    for el in root.descendants_with_tokens() {
        match el {
            rowan::NodeOrToken::Token(t) => {
                let r = t.text_range();
                let (s, e) = (usize::from(r.start()), usize::from(r.end()));
                if s != pos {
                    return Err(format!("{}:at={s}", if s > pos { "gap" } else { "overlap" }));
                }
                if e > text.len() || !text.is_char_boundary(s) || !text.is_char_boundary(e) {
                    return Err(format!("range-out-of-input:{s}..{e}"));
                }
                if t.text() != &text[s..e] {
                    return Err(format!("token-text-mismatch:{:?}", t.kind()));
                }
                if s == e {
                    return Err(format!("zero-length-token:{:?}", t.kind()));
                }
                // kind round trip: LuaKind -> rowan raw -> LuaKind (the transmute)
                let k: LuaKind = t.kind();
                let tk: LuaTokenKind = k.into();
                if LuaKind::from(tk) != k {
                    return Err(format!("token-kind-roundtrip:{k:?}"));
                }
                pos = e;
                ntok += 1;
            }
            rowan::NodeOrToken::Node(n) => {
                if usize::from(n.text_range().end()) > text.len() {
                    return Err(format!("node-range-out-of-input:{:?}", n.kind()));
                }
                let k: LuaKind = n.kind();
                let sk: LuaSyntaxKind = k.into();
                if LuaKind::from(sk) != k {
                    return Err(format!("node-kind-roundtrip:{k:?}"));
                }
                nnode += 1;
            }
        }
    }
    if pos != text.len() {
        return Err(format!("suffix-dropped:covered={pos}:len={}", text.len()));
    }
    if root.text().to_string() != text {
        return Err("root-text-mismatch".into());
    }
    Ok((ntok, nnode))
}

/// Structural dump for the C04 comparison: kinds, ranges and token texts in document order.
fn dump(root: &LuaSyntaxNode) -> String {
    let mut s = String::new();
    for el in root.descendants_with_tokens() {
        match el {
            rowan::NodeOrToken::Node(n) => s.push_str(&format!("N{:?}@{:?};", n.kind(), n.text_range())),
            rowan::NodeOrToken::Token(t) => s.push_str(&format!("T{:?}@{:?}={:?};", t.kind(), t.text_range(), t.text())),
        }
    }
    s
}

fn errors_of(tree: &LuaSyntaxTree) -> String {
    tree.get_errors().iter().map(|e| format!("{:?}@{:?}:{};", e.kind, e.range, e.message)).collect()
}

fn clip(s: &str, n: usize) -> String {
    let mut o: String = s.chars().take(n).collect();
    if o.len() < s.len() {
        o.push('…');
    }
    o.replace('\n', "\\n").replace('\r', "\\r")
}

fn gen_text(rng: &mut Rng, i: usize) -> (String, &'static str) {
    match i % 5 {
        0 => (soup::soup(rng, 14), "soup"),
        1 => {
            let k = rng.below(SEEDS.len());
            (soup::mutate(rng, SEEDS[k]), "seed-mutant")
        }
        2 => (SEEDS[(i / 5) % SEEDS.len()].to_string(), "seed"),
        3 => (soup::lossy_bytes(rng, 48), "lossy-bytes"),
        _ => (soup::soup(rng, 6), "soup-short"),
    }
}

fn main() {
    let args: Vec<String> = std::env::args().collect();
    let seed: u64 = args.get(1).and_then(|s| s.parse().ok()).unwrap_or(1);
    let shard: u64 = args.get(2).and_then(|s| s.parse().ok()).unwrap_or(0);
    let n: usize = args.get(3).and_then(|s| s.parse().ok()).unwrap_or(40);
    let mut cache = NodeCache::default();
    let mut history: Vec<(String, usize, bool, String, String)> = Vec::new();
    let (mut cases, mut tokens, mut nodes, mut violations) = (0usize, 0usize, 0usize, 0usize);
    let (mut c04_compared, mut ast_walked) = (0usize, 0usize);
    let mut fams: HashMap<&'static str, usize> = HashMap::new();
    for i in 0..n {
        let mut rng = Rng::new(rng::mix(rng::mix(seed, 0x4d495249), shard * 1_000_003 + i as u64));
        let (text, fam) = gen_text(&mut rng, i);
        let text = if text.len() > 400 { text.chars().take(200).collect() } else { text };
        let level = rng.below(8);
        let doc = !rng.chance(1, 4);
        *fams.entry(fam).or_default() += 1;
        // fresh parse
        let fresh = parse_with(&text, level, doc, None);
        match check_lossless(&text, &fresh) {
            Ok((t, k)) => {
                tokens += t;
                nodes += k;
            }
            Err(sig) => {
                violations += 1;
                println!("MIRI-VIOLATION property=C01 sig=C01:miri:{sig} detail=level={level} doc={doc} text={:?}", clip(&text, 200));
            }
        }
        // typed AST walk over the same tree (casts read the kinds again)
        if let Some(chunk) = LuaChunk::cast(fresh.get_red_root()) {
            ast_walked += chunk.syntax().descendants().filter_map(emmylua_parser::LuaAst::cast).count();
        }
        // the same text through the shared cache, after everything parsed before it
        let cached = parse_with(&text, level, doc, Some(&mut cache));
        if let Err(sig) = check_lossless(&text, &cached) {
            violations += 1;
            println!("MIRI-VIOLATION property=C01 sig=C01:miri:cached:{sig} detail=level={level} doc={doc} text={:?}", clip(&text, 200));
        }
        let (d_fresh, d_cached) = (dump(&fresh.get_red_root()), dump(&cached.get_red_root()));
        let (e_fresh, e_cached) = (errors_of(&fresh), errors_of(&cached));
        c04_compared += 1;
        if d_fresh != d_cached || e_fresh != e_cached {
            violations += 1;
            println!(
                "MIRI-VIOLATION property=C04 sig=C04:miri:cached-parse-differs:{} detail=after {} earlier parses; level={level} doc={doc} text={:?}",
                if d_fresh != d_cached { "tree" } else { "errors" },
                history.len(),
                clip(&text, 200)
            );
        }
        // a near-duplicate of an earlier text (maximal green-node sharing), re-checked against its recorded dump
        if !history.is_empty() && rng.chance(1, 3) {
            let (t0, l0, d0, dump0, err0) = history[rng.below(history.len())].clone();
            let again = parse_with(&t0, l0, d0, Some(&mut cache));
            c04_compared += 1;
            if dump(&again.get_red_root()) != dump0 || errors_of(&again) != err0 {
                violations += 1;
                println!("MIRI-VIOLATION property=C04 sig=C04:miri:reparse-differs detail=level={l0} doc={d0} text={:?}", clip(&t0, 200));
            }
        }
        if history.len() < 24 {
            history.push((text, level, doc, d_fresh, e_fresh));
        }
        cases += 1;
    }
    let fam_s: Vec<String> = {
        let mut v: Vec<_> = fams.iter().collect();
        v.sort();
        v.iter().map(|(k, c)| format!("\"{k}\":{c}")).collect()
    };
    println!(
        "MIRI-SUMMARY {{\"seed\":{seed},\"shard\":{shard},\"cases\":{cases},\"tokens\":{tokens},\"nodes\":{nodes},\"ast_nodes_cast\":{ast_walked},\"c04_comparisons\":{c04_compared},\"violations\":{violations},\"families\":{{{}}}}}",
        fam_s.join(",")
    );
}
