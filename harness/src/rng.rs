//! Deterministic PRNG (SplitMix64 seeding + xoshiro256**). No wall-clock, no addresses.

#[derive(Clone, Debug)]
pub struct Rng {
    s: [u64; 4],
}

pub fn splitmix(x: &mut u64) -> u64 {
    *x = x.wrapping_add(0x9E3779B97F4A7C15);
    let mut z = *x;
    z = (z ^ (z >> 30)).wrapping_mul(0xBF58476D1CE4E5B9);
    z = (z ^ (z >> 27)).wrapping_mul(0x94D049BB133111EB);
    z ^ (z >> 31)
}

pub fn mix(a: u64, b: u64) -> u64 {
    let mut x = a ^ b.wrapping_mul(0xD6E8FEB86659FD93).rotate_left(23);
    splitmix(&mut x)
}

/// FNV-1a 64 — stable fingerprint hash (std's DefaultHasher is seeded per process on purpose).
pub fn fnv(bytes: &[u8]) -> u64 {
    let mut h: u64 = 0xcbf29ce484222325;
    for b in bytes {
        h ^= *b as u64;
        h = h.wrapping_mul(0x100000001b3);
    }
    h
}

impl Rng {
    pub fn new(seed: u64) -> Self {
        let mut x = seed;
        let s = [splitmix(&mut x), splitmix(&mut x), splitmix(&mut x), splitmix(&mut x)];
        Rng { s }
    }
    pub fn next_u64(&mut self) -> u64 {
        let result = self.s[1].wrapping_mul(5).rotate_left(7).wrapping_mul(9);
        let t = self.s[1] << 17;
        self.s[2] ^= self.s[0];
        self.s[3] ^= self.s[1];
        self.s[1] ^= self.s[2];
        self.s[0] ^= self.s[3];
        self.s[2] ^= t;
        self.s[3] = self.s[3].rotate_left(45);
        result
    }
    /// uniform in [0, n)
    pub fn below(&mut self, n: usize) -> usize {
        if n == 0 {
            return 0;
        }
        (self.next_u64() % n as u64) as usize
    }
    /// uniform in [lo, hi] inclusive
    pub fn range(&mut self, lo: usize, hi: usize) -> usize {
        if hi <= lo {
            return lo;
        }
        lo + self.below(hi - lo + 1)
    }
    pub fn chance(&mut self, num: u32, den: u32) -> bool {
        (self.next_u64() % den as u64) < num as u64
    }
    pub fn bool(&mut self) -> bool {
        self.next_u64() & 1 == 1
    }
    pub fn pick<T: Copy>(&mut self, xs: &[T]) -> T {
        xs[self.below(xs.len())]
    }
    pub fn shuffle<T>(&mut self, xs: &mut [T]) {
        for i in (1..xs.len()).rev() {
            let j = self.below(i + 1);
            xs.swap(i, j);
        }
    }
    pub fn fork(&mut self) -> Rng {
        Rng::new(self.next_u64())
    }
}
