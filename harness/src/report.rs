//! Worker-side result collection. One JSON summary per shard, written at the end
//! (and a line-per-announcement side file for abort attribution).

use serde_json::{Map, Value, json};
use std::collections::{BTreeMap, BTreeSet};
use std::io::Write;
use std::time::Instant;

#[derive(Clone, Copy, Debug, PartialEq, Eq)]
pub enum Tier {
    Quick,
    Thorough,
}

pub struct Violation {
    pub sig: String,
    pub detail: String,
    pub replay: Value,
}

pub struct Ctx {
    pub property: String,
    pub seed: u64,
    pub shard: u32,
    pub nshards: u32,
    pub tier: Tier,
    pub out: Option<String>,
    pub replay: Option<Value>,
    pub repo: String,
    pub work: String,
    pub start: Instant,
    pub max_secs: f64,
    pub scale: f64,

    pub evaluations: u64,
    pub fps: BTreeSet<u64>,
    pub clauses: BTreeMap<String, u64>,
    pub violations: Vec<Violation>,
    pub sig_counts: BTreeMap<String, u64>,
    pub inconclusive: BTreeMap<String, u64>,
    pub samples: Vec<Value>,
    pub extra: Map<String, Value>,
    announce: Option<std::fs::File>,
}

pub const MAX_VIOLATIONS_PER_SIG: u64 = 3;
pub const MAX_SAMPLES: usize = 8;

impl Ctx {
    pub fn new(property: &str) -> Self {
        Ctx {
            property: property.to_string(),
            seed: 0,
            shard: 0,
            nshards: 1,
            tier: Tier::Quick,
            out: None,
            replay: None,
            repo: std::env::var("VERIF_REPO").unwrap_or_else(|_| "/repo".into()),
            work: std::env::var("VERIF_WORK").unwrap_or_else(|_| "/verif/target/work".into()),
            start: Instant::now(),
            max_secs: 1e9,
            scale: 1.0,
            evaluations: 0,
            fps: BTreeSet::new(),
            clauses: BTreeMap::new(),
            violations: Vec::new(),
            sig_counts: BTreeMap::new(),
            inconclusive: BTreeMap::new(),
            samples: Vec::new(),
            extra: Map::new(),
            announce: None,
        }
    }

    pub fn shard_seed(&self) -> u64 {
        crate::rng::mix(self.seed, self.shard as u64 + 1)
    }

    /// Seed of one case: a pure function of (VERIF_SEED, shard, case index).
    pub fn case_seed(&self, case: u64) -> u64 {
        crate::rng::mix(self.shard_seed(), case)
    }

    /// number of cases for this shard given quick / thorough totals (per shard).
    pub fn budget(&self, quick: u64, thorough: u64) -> u64 {
        let n = match self.tier {
            Tier::Quick => quick,
            Tier::Thorough => thorough,
        };
        ((n as f64) * self.scale).max(1.0) as u64
    }

    /// Wall clock only bounds the *volume* of work, never a verdict.
    pub fn out_of_time(&self) -> bool {
        self.start.elapsed().as_secs_f64() > self.max_secs
    }

    pub fn is_quick(&self) -> bool {
        self.tier == Tier::Quick
    }

    /// Announce the case about to be run (abort attribution: the driver reads the last line).
    pub fn announce(&mut self, case: &Value) {
        if self.announce.is_none() {
            if let Some(out) = &self.out {
                self.announce = std::fs::File::create(format!("{out}.cases")).ok();
            }
        }
        if let Some(f) = &mut self.announce {
            let _ = writeln!(f, "{}", case);
        }
    }

    pub fn clause(&mut self, name: &str) {
        *self.clauses.entry(name.to_string()).or_insert(0) += 1;
    }
    pub fn clause_n(&mut self, name: &str, n: u64) {
        *self.clauses.entry(name.to_string()).or_insert(0) += n;
    }

    /// One conclusive case that held. `fp` = structural fingerprint, counted only if non-trivial.
    pub fn held(&mut self, fp: u64, nontrivial: bool) {
        self.evaluations += 1;
        if nontrivial {
            self.fps.insert(fp);
        }
    }

    pub fn violated(&mut self, sig: &str, detail: &str, replay: Value) {
        self.evaluations += 1;
        self.add_violation(sig, detail, replay);
    }

    /// Adds a violation without counting an evaluation (several clauses of one case).
    pub fn add_violation(&mut self, sig: &str, detail: &str, replay: Value) {
        let c = self.sig_counts.entry(sig.to_string()).or_insert(0);
        *c += 1;
        if *c <= MAX_VIOLATIONS_PER_SIG {
            let mut d = detail.to_string();
            if d.len() > 4000 {
                let mut cut = 4000;
                while !d.is_char_boundary(cut) {
                    cut -= 1;
                }
                d.truncate(cut);
                d.push_str("…");
            }
            self.violations.push(Violation { sig: sig.to_string(), detail: d, replay });
        }
    }

    pub fn inconclusive(&mut self, reason: &str) {
        *self.inconclusive.entry(reason.to_string()).or_insert(0) += 1;
    }

    pub fn sample(&mut self, v: Value) {
        if self.samples.len() < MAX_SAMPLES {
            self.samples.push(v);
        }
    }
    pub fn want_sample(&self) -> bool {
        self.samples.len() < MAX_SAMPLES
    }

    pub fn extra_add(&mut self, key: &str, n: u64) {
        let cur = self.extra.get(key).and_then(|v| v.as_u64()).unwrap_or(0);
        self.extra.insert(key.to_string(), json!(cur + n));
    }
    pub fn extra_set(&mut self, key: &str, v: Value) {
        self.extra.insert(key.to_string(), v);
    }

    pub fn to_json(&self) -> Value {
        let fps: Vec<String> = self.fps.iter().take(400_000).map(|f| format!("{f:016x}")).collect();
        json!({
            "property": self.property,
            "seed": self.seed,
            "shard": self.shard,
            "nshards": self.nshards,
            "tier": if self.tier == Tier::Quick { "quick" } else { "thorough" },
            "evaluations": self.evaluations,
            "distinct_nontrivial_local": self.fps.len(),
            "fps": fps,
            "clauses": self.clauses,
            "violations": self.violations.iter().map(|v| json!({"sig": v.sig, "detail": v.detail, "replay": v.replay})).collect::<Vec<_>>(),
            "sig_counts": self.sig_counts,
            "inconclusive": self.inconclusive,
            "samples": self.samples,
            "extra": self.extra,
            "wall_s": self.start.elapsed().as_secs_f64(),
            "complete": true,
        })
    }

    pub fn finish(&self) {
        let v = self.to_json();
        match &self.out {
            Some(p) => {
                let tmp = format!("{p}.tmp");
                std::fs::write(&tmp, serde_json::to_vec(&v).unwrap()).expect("write result");
                std::fs::rename(&tmp, p).expect("rename result");
            }
            None => {
                // human-readable summary for manual runs / replays
                let mut v = v;
                v.as_object_mut().unwrap().remove("fps");
                println!("{}", serde_json::to_string_pretty(&v).unwrap());
            }
        }
    }
}

/// Truncate long text for evidence samples.
pub fn clip(s: &str, n: usize) -> String {
    if s.len() <= n {
        return s.to_string();
    }
    let mut cut = n;
    while !s.is_char_boundary(cut) {
        cut -= 1;
    }
    format!("{}…(+{} bytes)", &s[..cut], s.len() - cut)
}
