//! Thin wrapper over the `luars` crate (pure-Rust Lua 5.5): compile-only acceptor and bounded
//! execution with a registered Rust probe callback. Owned by the C13/C15/C41 family; other
//! families may call `compile_only`.
//!
//! * `compile_only(src)`   – Ok(()) when luars compiles the chunk (nothing is executed).
//! * `run_probed(src, n)`  – executes the chunk in a fresh VM inside a sandbox environment with
//!   an *instruction* budget `n` (deterministic; no wall clock). The global `__probe(k, x)` is a
//!   Rust callback that records `(k, type(x), integer value, truthiness)` and returns `x`, so it
//!   can be used both as a statement and as an expression wrapper.
//!
//! No stdout/stderr is produced by executed programs: `print` and `warn` are replaced by no-ops.

use luars::{Lua, LuaApi, LuaSandboxApi, LuaStackApi, SafeOption, SandboxConfig, Stdlib};
use std::cell::RefCell;
use std::rc::Rc;

#[derive(Clone, Debug, PartialEq)]
pub struct ProbeEvent {
    /// first argument of `__probe` (probe / use identifier)
    pub k: i64,
    /// Lua `type(x)` of the second argument: nil boolean number string table function userdata thread
    pub ty: &'static str,
    /// the integer value when `x` is an integer (math.type(x) == "integer")
    pub int: Option<i64>,
    /// Lua truthiness of `x`
    pub truthy: bool,
}

#[derive(Clone, Debug, PartialEq)]
pub enum Outcome {
    /// chunk ran to completion
    Finished,
    /// luars rejected the chunk; nothing was executed
    CompileError(String),
    /// a Lua runtime error stopped the chunk (events recorded before it are valid)
    RuntimeError(String),
    /// the instruction budget was exhausted (events recorded before it are valid)
    StepLimit,
}

#[derive(Clone, Debug)]
pub struct RunResult {
    pub outcome: Outcome,
    pub events: Vec<ProbeEvent>,
}

fn static_type_name(s: &str) -> &'static str {
    match s {
        "nil" => "nil",
        "boolean" => "boolean",
        "number" => "number",
        "string" => "string",
        "table" => "table",
        "function" => "function",
        "userdata" => "userdata",
        "thread" => "thread",
        _ => "other",
    }
}

/// Compile `src` with luars (Lua 5.5 grammar). Nothing is executed.
pub fn compile_only(src: &str) -> Result<(), String> {
    let mut vm = Lua::new(SafeOption::default());
    match vm.global_state_mut().compile(src) {
        Ok(_) => Ok(()),
        Err(msg) => Err(msg.to_string()),
    }
}

/// Default instruction budget: generated programs need a few hundred instructions.
pub const DEFAULT_STEPS: u64 = 200_000;

/// Execute `src` with `__probe` registered. `max_steps` bounds VM instructions (deterministic).
/// At most `max_events` probe events are kept (later ones are dropped, the count is not a verdict).
pub fn run_probed(src: &str, max_steps: u64) -> RunResult {
    let sink: Rc<RefCell<Vec<ProbeEvent>>> = Rc::new(RefCell::new(Vec::new()));
    let mut vm = Lua::new(SafeOption::default());
    if let Err(e) = vm.open_stdlib(Stdlib::All) {
        return RunResult { outcome: Outcome::RuntimeError(format!("open_stdlib: {e:?}")), events: vec![] };
    }
    let s2 = sink.clone();
    let reg = vm.global_state_mut().register_function("__probe", move |state| {
        let k = state.lua_tointegerx(1).unwrap_or(-1);
        let ty = static_type_name(state.lua_typename(2).unwrap_or("nil"));
        let int = if ty == "number" && state.lua_isinteger(2) { state.lua_tointegerx(2) } else { None };
        let truthy = state.lua_toboolean(2);
        let mut v = s2.borrow_mut();
        if v.len() < 100_000 {
            v.push(ProbeEvent { k, ty, int, truthy });
        }
        drop(v);
        // return x
        if state.lua_gettop() >= 2 {
            state.lua_pushvalue(2)?;
        } else {
            state.lua_pushnil()?;
        }
        Ok(1)
    });
    if let Err(e) = reg {
        return RunResult { outcome: Outcome::RuntimeError(format!("register: {e:?}")), events: vec![] };
    }
    let _ = vm.global_state_mut().register_function("__noop", |_state| Ok(0));
    let mut config = SandboxConfig::default().with_instruction_limit(max_steps);
    for (as_name, from) in [("__probe", "__probe"), ("print", "__noop"), ("warn", "__noop")] {
        if let Ok(Some(v)) = vm.global_state_mut().get_global(from) {
            config.insert_global(as_name, v);
        }
    }
    // compile first so that compile errors are reported as such
    if let Err(msg) = vm.global_state_mut().compile(src) {
        return RunResult { outcome: Outcome::CompileError(msg.to_string()), events: vec![] };
    }
    let res = vm.execute_sandboxed(src, &config);
    let outcome = match res {
        Ok(_) => Outcome::Finished,
        Err(e) => {
            let full = vm.get_error_message(e);
            if full.message.contains("sandbox instruction limit exceeded") {
                Outcome::StepLimit
            } else {
                Outcome::RuntimeError(first_line(&full.message))
            }
        }
    };
    drop(vm);
    let events = std::mem::take(&mut *sink.borrow_mut());
    RunResult { outcome, events }
}

fn first_line(s: &str) -> String {
    s.lines().next().unwrap_or("").to_string()
}
