//! C13 — names resolve to the declaration Lua's scoping rules select.
//!
//! G-scope program → scoping oracle (own AST) → validated against luars by executing the
//! "xcheck" print of the same AST (declarations bound to distinct integers, uses recorded) →
//! compared with `SemanticModel::find_decl` (NoTrace: the raw binding, no alias following) on
//! every name token of the ordinary print.

use crate::gens::scope::{self, DeclKind, Mode, Program, Resolution};
use crate::luavm::{self, Outcome};
use crate::report::{Ctx, clip};
use crate::rng::{Rng, fnv};
use crate::util::guarded;
use emmylua_code_analysis::{LuaSemanticDeclId, SemanticDeclLevel, VirtualWorkspace};
use emmylua_parser::{LuaAstNode, LuaTokenKind};
use rowan::{NodeOrToken, TextSize};
use serde_json::{Value, json};
use std::collections::{BTreeMap, BTreeSet};

/// What the code under test answered for one name token.
#[derive(Clone, Debug, PartialEq)]
pub enum Obs {
    /// a local declaration (local / parameter / loop variable) at this byte offset
    Local(usize),
    /// no declaration, or a global one
    Global,
    /// something a name must never resolve to
    Other(String),
}

/// `find_decl` for the name tokens at the given byte offsets. Err = could not observe.
pub fn observe(text: &str, offsets: &[usize]) -> Result<Vec<Obs>, String> {
    let r = guarded(|| -> Result<Vec<Obs>, String> {
        let mut ws = VirtualWorkspace::new();
        let file_id = ws.def(text);
        let model = ws.analysis.compilation.get_semantic_model(file_id).ok_or("no semantic model")?;
        if let Some(errs) = model.get_file_parse_error() {
            if !errs.is_empty() {
                return Err(format!("parse-error:{}", errs.len()));
            }
        }
        let root = model.get_root().syntax().clone();
        let db = model.get_db();
        let mut out = Vec::with_capacity(offsets.len());
        for &off in offsets {
            let tok = match root.token_at_offset(TextSize::new(off as u32)).right_biased() {
                Some(t) => t,
                None => return Err(format!("no token at {off}")),
            };
            if usize::from(tok.text_range().start()) != off || tok.kind() != LuaTokenKind::TkName.into() {
                return Err(format!("token at {off} is {:?} {:?}", tok.kind(), tok.text()));
            }
            let d = model.find_decl(NodeOrToken::Token(tok), SemanticDeclLevel::NoTrace);
            out.push(match d {
                None => Obs::Global,
                Some(LuaSemanticDeclId::LuaDecl(id)) => match db.get_decl_index().get_decl(&id) {
                    Some(decl) if decl.is_local() => Obs::Local(usize::from(decl.get_position())),
                    Some(decl) if decl.is_global() => Obs::Global,
                    Some(_) => Obs::Other("implicit-self".into()),
                    None => Obs::Other("dangling-decl-id".into()),
                },
                Some(LuaSemanticDeclId::Member(_)) => Obs::Other("member".into()),
                Some(LuaSemanticDeclId::TypeDecl(_)) => Obs::Other("type-decl".into()),
                Some(LuaSemanticDeclId::Signature(_)) => Obs::Other("signature".into()),
            });
        }
        Ok(out)
    });
    match r {
        Ok(x) => x,
        Err(p) => Err(format!("panic:{}", p.sig())),
    }
}

/// Cross-check of the scoping oracle against luars. Ok(covered use ids) or Err(why they disagree
/// / why luars could not run it).
pub fn xcheck(p: &Program, res: &Resolution) -> Result<BTreeSet<u32>, String> {
    let mut covered = BTreeSet::new();
    for run in 0..4u32 {
        let pr = scope::print(p, Mode::XCheck, run);
        let r = luavm::run_probed(&pr.text, luavm::DEFAULT_STEPS);
        match &r.outcome {
            Outcome::Finished => {}
            Outcome::CompileError(m) => return Err(format!("xcheck-compile-error: {m}")),
            Outcome::RuntimeError(m) => return Err(format!("xcheck-runtime-error: {m}")),
            Outcome::StepLimit => return Err("xcheck-step-limit".into()),
        }
        for ev in &r.events {
            let Some(u) = res.uses.get(&(ev.k as u32)) else {
                return Err(format!("xcheck: event for unknown use {}", ev.k));
            };
            let lua_binding: Option<u32> = match ev.int {
                Some(v) if v > 0 => Some(v as u32),
                Some(v) if v < 0 && (-v - 1) as u8 == u.name => None,
                other => return Err(format!("xcheck: use {} recorded unexpected value {:?} ({})", ev.k, other, ev.ty)),
            };
            if lua_binding != u.binding {
                return Err(format!(
                    "oracle-vs-luars: use #{} of '{}' in {}: oracle {:?}, luars {:?}",
                    u.id,
                    scope::NAMES[u.name as usize],
                    u.ctx,
                    u.binding,
                    lua_binding
                ));
            }
            covered.insert(u.id);
        }
    }
    Ok(covered)
}

#[derive(Clone, Debug)]
pub struct Failure {
    pub use_id: u32,
    pub sig: String,
    pub detail: String,
}

fn header_ctx(ctx: &str) -> &str {
    match ctx {
        "numeric-for-start" | "numeric-for-limit" | "numeric-for-step" => "numeric-for-header",
        other => other,
    }
}

/// Classify one wrong answer into a structural signature.
fn classify(res: &Resolution, use_id: u32, obs: &Obs, off2decl: &BTreeMap<usize, u32>, use_off: usize) -> (String, String) {
    let u = &res.uses[&use_id];
    let exp_kind = |id: u32| res.decls[&id].kind;
    let expected = match u.binding {
        None => "global".to_string(),
        Some(b) => {
            let mut s = exp_kind(b).tag().to_string();
            if u.in_own_local_function {
                s.push_str("(own-body)");
            }
            if u.repeat_body_local {
                s.push_str("(repeat-body)");
            }
            s
        }
    };
    let ctx = header_ctx(u.ctx);
    let (rel, with_ctx, with_expected) = match obs {
        Obs::Global => ("global".to_string(), true, true),
        Obs::Other(k) => (format!("non-decl({k})"), true, false),
        Obs::Local(off) => match off2decl.get(off) {
            None => ("unknown-decl".to_string(), true, false),
            Some(a) => {
                let ad = &res.decls[a];
                // "declared by the statement in whose header the use sits": loop variables and
                // the names of a local statement (parameters of closures inside a header are not)
                let header = u
                    .in_headers
                    .iter()
                    .find(|(sid, k)| *sid == ad.sid && *k != "repeat-until-cond" && matches!(ad.kind, DeclKind::NumForVar | DeclKind::GenForVar | DeclKind::Local));
                if let Some((_, hkind)) = header {
                    let what = match ad.kind {
                        DeclKind::NumForVar | DeclKind::GenForVar => "own-loop-var",
                        _ => "own-local",
                    };
                    // the use sits in the header of the very statement that declares `ad`
                    let nested = if u.sid == ad.sid { "" } else { "(inside-closure)" };
                    return (
                        format!("C13:wrong-binding:use-in={hkind}{nested}:resolved={what}"),
                        format!("use of '{}' at byte {} in {} — Lua binds it to {}, find_decl answered {:?} (declared by the same statement)", scope::NAMES[u.name as usize], use_off, u.ctx, expected, obs),
                    );
                } else if u.shadowed.contains(a) {
                    let same_list = u.binding.is_some_and(|b| res.decls[&b].list == ad.list && res.decls[&b].kind == ad.kind);
                    if same_list {
                        (format!("earlier-duplicate-in-list({})", ad.kind.tag()), false, false)
                    } else {
                        ("shadowed-outer-decl".to_string(), true, true)
                    }
                } else if *off > use_off {
                    (format!("later-decl({})", ad.kind.tag()), true, false)
                } else {
                    // a declaration that is not on the scope chain of the use at all
                    let _ = ad;
                    if let Some((_, hkind)) = u.in_headers.last() {
                        // name the enclosing header / until-condition rather than the innermost statement
                        let nested = if u.ctx == *hkind || header_ctx(u.ctx) == *hkind { "" } else { "(inside-closure)" };
                        return (
                            format!("C13:wrong-binding:use-in={hkind}{nested}:resolved=out-of-scope-decl"),
                            format!("use of '{}' at byte {} in {} — Lua binds it to {}, find_decl answered {:?} (a declaration that is not in scope there)", scope::NAMES[u.name as usize], use_off, u.ctx, expected, obs),
                        );
                    }
                    ("out-of-scope-decl".to_string(), true, false)
                }
            }
        },
    };
    let mut sig = String::from("C13:wrong-binding");
    sig.push_str(&format!(":use-in={}", if with_ctx { ctx } else { "*" }));
    sig.push_str(&format!(":resolved={rel}"));
    if with_expected {
        sig.push_str(&format!(":expected={expected}"));
    }
    let detail = format!("use of '{}' at byte {} in {} — Lua binds it to {}, find_decl answered {:?}", scope::NAMES[u.name as usize], use_off, u.ctx, expected, obs);
    (sig, detail)
}

pub enum Eval {
    Held { uses: usize, interesting: bool, fp: u64 },
    Failed(Vec<Failure>),
    Inconclusive(String),
}

/// Compare the code under test with the oracle on the ordinary print of `p`.
pub fn evaluate(p: &Program) -> Eval {
    let res = scope::resolve(p);
    let pr = scope::print(p, Mode::Normal, 0);
    if let Err(e) = luavm::compile_only(&pr.text) {
        return Eval::Inconclusive(format!("gen-invalid: {}", clip(&e, 120)));
    }
    let ids: Vec<u32> = pr.use_off.keys().copied().collect();
    let offs: Vec<usize> = ids.iter().map(|i| pr.use_off[i]).collect();
    let obs = match observe(&pr.text, &offs) {
        Ok(o) => o,
        Err(e) => return Eval::Inconclusive(format!("observe: {}", clip(&e, 80))),
    };
    let off2decl: BTreeMap<usize, u32> = pr.decl_off.iter().map(|(id, off)| (*off, *id)).collect();
    let mut fails = Vec::new();
    let mut shape: Vec<String> = Vec::new();
    let mut interesting = false;
    for (i, id) in ids.iter().enumerate() {
        let u = &res.uses[id];
        let want = match u.binding {
            None => Obs::Global,
            Some(b) => Obs::Local(pr.decl_off[&b]),
        };
        if !u.shadowed.is_empty() || matches!(header_ctx(u.ctx), "numeric-for-header" | "generic-for-explist" | "repeat-until-cond" | "local-rhs") || u.in_own_local_function {
            interesting = true;
        }
        shape.push(format!("{}>{}", u.ctx, u.binding.map(|b| res.decls[&b].kind.tag()).unwrap_or("global")));
        if obs[i] != want {
            let (sig, detail) = classify(&res, *id, &obs[i], &off2decl, offs[i]);
            fails.push(Failure { use_id: *id, sig, detail });
        }
    }
    if fails.is_empty() {
        shape.sort();
        Eval::Held { uses: ids.len(), interesting, fp: fnv(shape.join(",").as_bytes()) }
    } else {
        Eval::Failed(fails)
    }
}

fn fails_with(p: &Program, sig: &str) -> bool {
    matches!(evaluate(p), Eval::Failed(f) if f.iter().any(|x| x.sig == sig))
}

/// ddmin over statements, then structural one-step reductions, preserving the signature.
pub fn shrink(p: &Program, sig: &str) -> Program {
    let ids = scope::stmt_ids(p);
    let kept = crate::util::ddmin(ids, |keep| fails_with(&scope::retain(p, &keep.iter().copied().collect()), sig), 300);
    let mut cur = scope::retain(p, &kept.into_iter().collect());
    let mut tests = 0;
    let mut n = 0;
    while tests < 400 {
        match scope::reduce_nth(&cur, n) {
            None => break,
            Some(cand) => {
                tests += 1;
                if cand != cur && fails_with(&cand, sig) {
                    cur = cand;
                    n = 0;
                } else {
                    n += 1;
                }
            }
        }
    }
    cur
}

/// Replay record of a (shrunk) failing program: text + per-use expectations + luars evidence.
fn replay_json(p: &Program, sig: &str, original_stmts: usize) -> Value {
    let res = scope::resolve(p);
    let pr = scope::print(p, Mode::Normal, 0);
    let uses: Vec<Value> = pr
        .use_off
        .iter()
        .map(|(id, off)| {
            let u = &res.uses[id];
            json!({"use": id, "name": scope::NAMES[u.name as usize], "offset": off, "ctx": u.ctx,
                   "lua_binding_offset": u.binding.map(|b| pr.decl_off[&b])})
        })
        .collect();
    let xtexts: Vec<String> = (0..4).map(|r| scope::print(p, Mode::XCheck, r).text).collect();
    let xexpect: Vec<Value> = res.uses.values().map(|u| json!({"use": u.id, "decl": u.binding})).collect();
    json!({"text": pr.text, "uses": uses, "sig": sig, "xcheck_texts": xtexts, "xcheck_expect": xexpect, "original_stmts": original_stmts})
}

fn run_replay(ctx: &mut Ctx, rep: Value) {
    let text = rep["text"].as_str().unwrap_or("").to_string();
    let sig = rep["sig"].as_str().unwrap_or("C13:wrong-binding").to_string();
    println!("replay program:\n{text}");
    // (1) luars agrees with the recorded expectation
    let mut want: BTreeMap<i64, Option<i64>> = BTreeMap::new();
    for e in rep["xcheck_expect"].as_array().cloned().unwrap_or_default() {
        want.insert(e["use"].as_i64().unwrap_or(-1), e["decl"].as_i64());
    }
    let mut lua_ok = true;
    let mut lua_seen = 0;
    for t in rep["xcheck_texts"].as_array().cloned().unwrap_or_default() {
        let r = luavm::run_probed(t.as_str().unwrap_or(""), luavm::DEFAULT_STEPS);
        if r.outcome != Outcome::Finished {
            println!("replay: luars run did not finish: {:?}", r.outcome);
            lua_ok = false;
        }
        for ev in r.events {
            let got = ev.int.filter(|v| *v > 0);
            lua_seen += 1;
            if want.get(&ev.k) != Some(&got) {
                println!("replay: luars disagrees with the oracle on use {}: {:?} vs {:?}", ev.k, got, want.get(&ev.k));
                lua_ok = false;
            }
        }
    }
    println!("replay: luars executed {lua_seen} recorded uses; agrees with oracle: {lua_ok}");
    if !lua_ok {
        ctx.inconclusive("replay:oracle-vs-luars");
        return;
    }
    // (2) the code under test
    let uses = rep["uses"].as_array().cloned().unwrap_or_default();
    let offs: Vec<usize> = uses.iter().map(|u| u["offset"].as_u64().unwrap_or(0) as usize).collect();
    match observe(&text, &offs) {
        Err(e) => {
            println!("replay: cannot observe: {e}");
            ctx.inconclusive("replay:observe-failed");
        }
        Ok(obs) => {
            let mut bad = Vec::new();
            for (i, u) in uses.iter().enumerate() {
                let want = match u["lua_binding_offset"].as_u64() {
                    Some(o) => Obs::Local(o as usize),
                    None => Obs::Global,
                };
                let mark = if obs[i] == want { "ok " } else { "BAD" };
                println!("  {mark} use '{}' @{} ({}) expected {:?} observed {:?}", u["name"].as_str().unwrap_or("?"), offs[i], u["ctx"].as_str().unwrap_or("?"), want, obs[i]);
                if obs[i] != want {
                    bad.push(format!("'{}'@{} expected {:?} observed {:?}", u["name"].as_str().unwrap_or("?"), offs[i], want, obs[i]));
                }
            }
            if bad.is_empty() {
                println!("replay: held");
                ctx.held(fnv(text.as_bytes()), true);
            } else {
                println!("replay: VIOLATED {sig}");
                ctx.violated(&sig, &bad.join("; "), rep);
            }
        }
    }
}

pub fn run(ctx: &mut Ctx) {
    if let Some(rep) = ctx.replay.clone() {
        run_replay(ctx, rep);
        return;
    }
    let n = ctx.budget(2500, 100_000);
    let mut covered_total = 0u64;
    let mut uses_total = 0u64;
    for i in 0..n {
        if ctx.out_of_time() {
            break;
        }
        let mut rng = Rng::new(ctx.case_seed(i));
        let size = rng.range(12, 45);
        let prog = scope::gen_program(&mut rng, size);
        let res = scope::resolve(&prog);
        // reference model cross-check first: a disagreement is never a verdict about /repo
        let covered = match xcheck(&prog, &res) {
            Ok(c) => c,
            Err(e) => {
                let class = e.split(':').next().unwrap_or("xcheck").to_string();
                ctx.inconclusive(&class);
                if ctx.want_sample() && class != "xcheck-runtime-error" {
                    ctx.sample(json!({"inconclusive": clip(&e, 300), "text": clip(&scope::print(&prog, Mode::Normal, 0).text, 600)}));
                }
                ctx.extra_set("last_xcheck_problem", json!(clip(&e, 300)));
                continue;
            }
        };
        ctx.clause_n("xcheck:uses-confirmed-by-luars", covered.len() as u64);
        covered_total += covered.len() as u64;
        uses_total += res.uses.len() as u64;
        match evaluate(&prog) {
            Eval::Inconclusive(r) => {
                let class = r.split(':').next().unwrap_or("eval").to_string();
                ctx.inconclusive(&class);
                ctx.extra_set("last_inconclusive", json!(clip(&r, 300)));
            }
            Eval::Held { uses, interesting, fp } => {
                ctx.clause_n("binding:uses-compared", uses as u64);
                ctx.held(fp, uses >= 10 && interesting);
                if ctx.want_sample() && i % 97 == 5 {
                    ctx.sample(json!({"uses": uses, "luars_confirmed": covered.len(), "text": clip(&scope::print(&prog, Mode::Normal, 0).text, 900)}));
                }
            }
            Eval::Failed(fails) => {
                ctx.clause_n("binding:uses-compared", res.uses.len() as u64);
                // one report per distinct signature in this program
                let sigs: BTreeSet<String> = fails.iter().map(|f| f.sig.clone()).collect();
                let mut first = true;
                for sig in sigs {
                    if ctx.sig_counts.get(&sig).copied().unwrap_or(0) >= crate::report::MAX_VIOLATIONS_PER_SIG {
                        // enough shrunk witnesses of this signature in this shard: count only
                        // (the signature is a function of the failing use, not of the shrinking)
                        if first {
                            ctx.violated(&sig, "", Value::Null);
                            first = false;
                        } else {
                            ctx.add_violation(&sig, "", Value::Null);
                        }
                        continue;
                    }
                    let small = shrink(&prog, &sig);
                    let sres = scope::resolve(&small);
                    // the shrunk program must again be confirmed by luars
                    if let Err(e) = xcheck(&small, &sres) {
                        ctx.inconclusive("shrunk-xcheck-failed");
                        ctx.extra_set("last_xcheck_problem", json!(clip(&e, 300)));
                        continue;
                    }
                    let detail = match evaluate(&small) {
                        Eval::Failed(f) => f.iter().filter(|x| x.sig == sig).map(|x| x.detail.clone()).collect::<Vec<_>>().join("; "),
                        _ => "shrunk program no longer fails".to_string(),
                    };
                    let text = scope::print(&small, Mode::Normal, 0).text;
                    let rep = replay_json(&small, &sig, scope::stmt_ids(&prog).len());
                    let d = format!("{detail}; shrunk program: {}", clip(&text, 400));
                    if first {
                        ctx.violated(&sig, &d, rep);
                        first = false;
                    } else {
                        ctx.add_violation(&sig, &d, rep);
                    }
                }
                if first {
                    // nothing reportable survived shrinking
                    ctx.inconclusive("violation-not-confirmed-after-shrink");
                }
            }
        }
    }
    ctx.extra_set("luars_confirmed_share", json!(if uses_total > 0 { covered_total as f64 / uses_total as f64 } else { 0.0 }));
}
