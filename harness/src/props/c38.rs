//! C38 — concurrent read-only queries are race-free.
//!
//! Differential clause (this file): N threads query ONE shared `EmmyLuaAnalysis` (diagnose every
//! file, per-token semantic info / declarations / types through the observable dump) and every
//! concurrent answer must equal the answer computed sequentially before. The same workload is
//! run under ThreadSanitizer by the driver (thorough tier) and a compile-time probe checks that
//! the components are `Send + Sync` on their own (see scripts/props.d/C38.py).

use crate::gens::workspace::{self as gw, GenOpts, Load};
use crate::observe;
use crate::report::{Ctx, clip};
use crate::rng::Rng;
use emmylua_code_analysis::{EmmyLuaAnalysis, FileId};
use serde_json::json;
use std::sync::Arc;
use std::sync::atomic::{AtomicU64, Ordering};
use tokio_util::sync::CancellationToken;

fn answer(a: &EmmyLuaAnalysis, fid: FileId, kind: usize) -> String {
    match kind % 3 {
        0 => observe::observe_file(a, fid).to_string(),
        1 => {
            let mut d: Vec<String> = a.diagnose_file(fid, CancellationToken::new()).unwrap_or_default().iter().map(|x| serde_json::to_string(x).unwrap_or_default()).collect();
            d.sort();
            d.join("\n")
        }
        _ => {
            // module resolution + semantic model construction
            let db = a.compilation.get_db();
            let m = db.get_module_index().get_module(fid).map(|m| m.full_module_name.clone()).unwrap_or_default();
            let found = db.get_module_index().find_module(&m).map(|x| x.file_id == fid);
            format!("{m}:{found:?}:{}", a.compilation.get_semantic_model(fid).is_some())
        }
    }
}

fn extra_files() -> Vec<(&'static str, String)> {
    let mut deep = String::from("---@alias C38Loop<T> C38Loop<T> extends string and T or never\n---@param a C38Loop<string>\nlocal function take_loop(a) end\n");
    for i in 0..30 {
        deep.push_str(&format!("take_loop(\"v{i}\")\n"));
    }
    let mut plain = String::from(
        "---@alias C38Maybe<T> T | nil\n---@alias C38Pair<K, V> { key: K, value: V }\n---@param a C38Maybe<string>\nlocal function take_maybe(a) end\n---@param p C38Pair<string, integer>\nlocal function take_pair(p) end\n",
    );
    for i in 0..40 {
        plain.push_str(&format!("take_maybe(\"s{i}\")\ntake_maybe(nil)\ntake_pair({{ key = \"k{i}\", value = {i} }})\n"));
    }
    plain.push_str("take_maybe(1)\ntake_pair({ key = 1, value = \"x\" })\n");
    vec![("c38_deep.lua", deep), ("c38_plain.lua", plain)]
}

pub fn run(ctx: &mut Ctx) {
    let threads: usize = std::env::var("VERIF_C38_THREADS").ok().and_then(|s| s.parse().ok()).unwrap_or(16);
    let n = ctx.budget(6, 150);
    let reps = if ctx.is_quick() { 6 } else { 12 };
    if ctx.replay.is_some() {
        // a race is not replayable from a file: re-run the first workspaces of this seed instead
        println!("replay: C38 re-runs its workload (a data race has no deterministic replay)");
    }
    for i in 0..n {
        if ctx.out_of_time() {
            break;
        }
        let mut rng = Rng::new(ctx.case_seed(i));
        let ws = gw::gen_workspace(&mut rng, &GenOpts::default());
        let mut built = ws.build(Load::Sorted);
        // two fixed files on top of the generated workspace: per-thread state of the type checker must stay
        // per thread. `c38_deep` keeps the checker deep inside a self-referential generic alias (bounded by a
        // depth counter), `c38_plain` checks ordinary generic aliases whose result must not depend on what
        // another thread is expanding at that moment.
        for (name, text) in extra_files() {
            let p = std::path::PathBuf::from(format!("/vw/main/{name}"));
            if let Some(u) = emmylua_code_analysis::file_path_to_uri(&p) {
                built.update_file_by_uri(&u, Some(text));
            }
        }
        let analysis = Arc::new(built);
        let fids = observe::file_ids(&analysis);
        if fids.is_empty() {
            ctx.inconclusive("empty-workspace");
            continue;
        }
        // sequential reference answers
        let mut reference: Vec<Vec<String>> = Vec::new();
        for fid in &fids {
            reference.push((0..3).map(|k| answer(&analysis, *fid, k)).collect());
        }
        let reference = Arc::new(reference);
        let queries = Arc::new(AtomicU64::new(0));
        let mut handles = Vec::new();
        let _ = crate::util::take_global_panics();
        for t in 0..threads {
            let a = analysis.clone();
            let fids = fids.clone();
            let reference = reference.clone();
            let queries = queries.clone();
            let seed = rng.next_u64() ^ t as u64;
            handles.push(std::thread::Builder::new().stack_size(8 << 20).spawn(move || {
                let mut r = Rng::new(seed);
                let mut mism: Vec<(usize, usize, String)> = Vec::new();
                for _ in 0..reps {
                    let mut order: Vec<(usize, usize)> = (0..fids.len()).flat_map(|f| (0..3).map(move |k| (f, k))).collect();
                    r.shuffle(&mut order);
                    for (f, k) in order {
                        let got = answer(&a, fids[f], k);
                        queries.fetch_add(1, Ordering::Relaxed);
                        if got != reference[f][k] && mism.len() < 3 {
                            mism.push((f, k, got));
                        }
                    }
                }
                mism
            }).expect("spawn"));
        }
        let mut mismatches = Vec::new();
        let mut thread_panics = 0;
        for h in handles {
            match h.join() {
                Ok(m) => mismatches.extend(m),
                Err(_) => thread_panics += 1,
            }
        }
        let q = queries.load(Ordering::Relaxed);
        ctx.clause_n("concurrent-queries", q);
        let kinds = ["semantic-dump", "diagnostics", "module+model"];
        if thread_panics > 0 {
            let p = crate::util::take_global_panics();
            let sig = p.first().map(|x| x.sig()).unwrap_or_default();
            ctx.violated(&format!("C38:panic-under-concurrency:{sig}"), &format!("{thread_panics} query threads panicked; first: {:?}", p.first().map(|x| (&x.message, &x.location))), json!({"case": i, "seed": ctx.seed}));
        } else if let Some((f, k, got)) = mismatches.first() {
            ctx.violated(
                &format!("C38:concurrent-result-differs:query={}", kinds[*k]),
                &format!("file #{f}: concurrent answer {:?} vs sequential {:?}", clip(got, 300), clip(&reference[*f][*k], 300)),
                json!({"case": i, "seed": ctx.seed}),
            );
        } else {
            ctx.clause("differential-checked");
            ctx.held(ws.fingerprint(), q >= 100);
            if ctx.want_sample() {
                ctx.sample(json!({"files": fids.len(), "threads": threads, "concurrent_queries": q, "chunk_kinds": ws.kinds()}));
            }
        }
    }
}
