//! C18 — generic functions return their instantiated argument types.
//!
//! Template family (declared with `---@generic`, `---@param`, `---@return` on a local function):
//!   id        T            -> T
//!   array-of  T            -> T[]
//!   elem      T[]          -> T
//!   mk-table  (K, V)       -> table<K, V>
//!   value-of  table<K, V>  -> V
//!   key-of    table<K, V>  -> K
//!   optional  T            -> T?
//!   pair      (T, U)       -> [T, U]
//!   dup       T            -> [T, T]
//!   call      fun(): T     -> T
//!   elem-of-tuple  T[] called with a tuple `[A, B]` -> must cover A and B
//!   ret-fun   T            -> fun(): T
//!   param-fun fun(x: T)    -> T
//!   elem2     T[][]        -> T[]
//!
//! Arguments are typed locals (`---@type τ` / `local a`), so the argument type is exactly τ (this is
//! verified on the real argument expression; otherwise the case is inconclusive). The expected
//! type is the harness's own substitution of the *real* argument types into the return pattern.
//! Admissible answers: the exact instantiation, or anything equal to it after replacing literals
//! by their base types and alias references by their definitions on both sides (the statement
//! fixes neither literal widening nor alias transparency).

use crate::gens::types::{Canon, FunTy, GenOpts, Hier, Ty, TypeWs, canon, gen_type, mk_union, shrink_h};
use crate::report::{Ctx, clip};
use crate::rng::{Rng, fnv};
use crate::util::guarded;
use emmylua_code_analysis::LuaType;
use emmylua_parser::{LuaAstNode, LuaCallExpr, LuaLocalStat};
use serde_json::{Value, json};
use std::collections::{BTreeMap, BTreeSet};

pub const TEMPLATES: &[&str] = &["id", "array-of", "elem", "mk-table", "value-of", "key-of", "optional", "pair", "dup", "call", "elem-of-tuple", "ret-fun", "param-fun", "elem2", "value-of-record", "key-of-record", "value-of-indexsig", "key-of-indexsig"];

fn arity(tpl: &str) -> usize {
    match tpl {
        "mk-table" | "value-of" | "key-of" | "pair" | "elem-of-tuple" | "value-of-record" | "key-of-record" | "value-of-indexsig" | "key-of-indexsig" => 2,
        _ => 1,
    }
}

/// (generic names, parameter annotations, return annotation, number of call arguments)
fn decl(tpl: &str) -> (&'static str, Vec<&'static str>, &'static str) {
    match tpl {
        "id" => ("T", vec!["T"], "T"),
        "array-of" => ("T", vec!["T"], "T[]"),
        "elem" | "elem-of-tuple" => ("T", vec!["T[]"], "T"),
        "mk-table" => ("K, V", vec!["K", "V"], "table<K, V>"),
        "value-of" | "value-of-record" | "value-of-indexsig" => ("K, V", vec!["table<K, V>"], "V"),
        "key-of" | "key-of-record" | "key-of-indexsig" => ("K, V", vec!["table<K, V>"], "K"),
        "optional" => ("T", vec!["T"], "T?"),
        "pair" => ("T, U", vec!["T", "U"], "[T, U]"),
        "dup" => ("T", vec!["T"], "[T, T]"),
        "call" => ("T", vec!["fun(): T"], "T"),
        "ret-fun" => ("T", vec!["T"], "fun(): T"),
        "param-fun" => ("T", vec!["fun(x: T)"], "T"),
        "elem2" => ("T", vec!["T[][]"], "T[]"),
        _ => ("T", vec!["T"], "T"),
    }
}

/// The annotation(s) of the typed local(s) passed to the call.
fn arg_annotations(tpl: &str, taus: &[Ty]) -> Vec<String> {
    let t0 = taus[0].clone();
    let t1 = taus.get(1).cloned().unwrap_or(Ty::Prim("integer"));
    match tpl {
        "elem" => vec![Ty::Array(Box::new(t0)).print()],
        "elem2" => vec![Ty::Array(Box::new(Ty::Array(Box::new(t0)))).print()],
        "param-fun" => vec![Ty::Fun(Box::new(FunTy { is_async: false, generic: None, params: vec![crate::gens::types::Param { name: "x".into(), optional: false, ty: Some(t0) }], vararg: None, rets: vec![] })).print()],
        "elem-of-tuple" => vec![Ty::Tuple(vec![t0, t1]).print()],
        "value-of" | "key-of" => vec![Ty::Map(Box::new(t0), Box::new(t1)).print()],
        // a record passed where table<K, V> is expected: K covers the field names, V the field types
        "value-of-record" | "key-of-record" => vec![Ty::Record(vec![
            crate::gens::types::Field { key: crate::gens::types::FieldKey::Name("fa".into()), optional: false, ty: t0 },
            crate::gens::types::Field { key: crate::gens::types::FieldKey::Name("fb".into()), optional: false, ty: t1 },
        ])
        .print()],
        // an object type with one index signature `{ [K0]: V0 }` passed where table<K, V> is expected
        "value-of-indexsig" | "key-of-indexsig" => vec![Ty::Record(vec![crate::gens::types::Field { key: crate::gens::types::FieldKey::Index(t0), optional: false, ty: t1 }]).print()],
        "mk-table" | "pair" => vec![t0.print(), t1.print()],
        "call" => vec![Ty::Fun(Box::new(FunTy { is_async: false, generic: None, params: vec![], vararg: None, rets: vec![t0] })).print()],
        _ => vec![t0.print()],
    }
}

fn case_text(tpl: &str, ix: usize, args: &[String]) -> String {
    let (generics, params, ret) = decl(tpl);
    let mut s = format!("---@generic {generics}\n");
    let names: Vec<String> = (0..params.len()).map(|k| format!("p{k}")).collect();
    for (k, p) in params.iter().enumerate() {
        s.push_str(&format!("---@param p{k} {p}\n"));
    }
    s.push_str(&format!("---@return {ret}\nlocal function f{ix}({}) end\n", names.join(", ")));
    let mut locals = Vec::new();
    for (k, a) in args.iter().enumerate() {
        s.push_str(&format!("---@type {a}\nlocal a{ix}_{k}\n"));
        locals.push(format!("a{ix}_{k}"));
    }
    s.push_str(&format!("local r{ix} = f{ix}({})\n", locals.join(", ")));
    s
}

#[derive(Debug)]
pub enum Outcome {
    HeldExact,
    HeldModulo,
    Violated { expected: String, observed: String, kind: &'static str },
    Inconclusive(String),
}

fn norm(c: &Canon, aliases: &BTreeMap<String, Canon>) -> Canon {
    c.expand(aliases).widen()
}

/// Expected instantiation computed from the real argument types; None = argument shape degenerate.
fn expected(tpl: &str, args: &[Canon]) -> Option<Canon> {
    let a0 = args.first()?;
    Some(match tpl {
        "id" => a0.clone(),
        "array-of" => Canon::Arr(Box::new(a0.clone())),
        "elem" => match a0 {
            Canon::Arr(x) => (**x).clone(),
            _ => return None,
        },
        "elem2" => match a0 {
            Canon::Arr(x) => match &**x {
                Canon::Arr(y) => Canon::Arr(y.clone()),
                _ => return None,
            },
            _ => return None,
        },
        "ret-fun" => {
            if matches!(a0, Canon::Var(_) | Canon::VarMulti(_)) {
                return None;
            }
            Canon::Fun { is_async: false, colon: false, variadic: false, params: vec![], ret: Box::new(a0.clone()) }
        }
        "param-fun" => match a0 {
            Canon::Fun { params, .. } if params.len() == 1 => params[0].1.clone()?,
            _ => return None,
        },
        "mk-table" => Canon::Map(vec![a0.clone(), args.get(1)?.clone()]),
        "value-of" => match a0 {
            Canon::Map(v) if v.len() == 2 => v[1].clone(),
            _ => return None,
        },
        "key-of" => match a0 {
            Canon::Map(v) if v.len() == 2 => v[0].clone(),
            _ => return None,
        },
        "value-of-record" => match a0 {
            Canon::Obj(fields, idx) if fields.len() == 2 && idx.is_empty() => mk_union(fields.iter().map(|(_, t)| t.clone()).collect()),
            _ => return None,
        },
        "key-of-record" => match a0 {
            Canon::Obj(fields, idx) if fields.len() == 2 && idx.is_empty() => mk_union(fields.iter().map(|(k, _)| Canon::Str(k.clone(), true)).collect()),
            _ => return None,
        },
        "value-of-indexsig" => match a0 {
            Canon::Obj(fields, idx) if fields.is_empty() && idx.len() == 1 => idx[0].1.clone(),
            _ => return None,
        },
        "key-of-indexsig" => match a0 {
            Canon::Obj(fields, idx) if fields.is_empty() && idx.len() == 1 => idx[0].0.clone(),
            _ => return None,
        },
        "optional" => mk_union(vec![a0.clone(), Canon::Prim("nil")]),
        "pair" => Canon::Tup(vec![a0.clone(), args.get(1)?.clone()]),
        "dup" => Canon::Tup(vec![a0.clone(), a0.clone()]),
        "call" => match a0 {
            Canon::Fun { ret, params, .. } if params.is_empty() && !matches!(**ret, Canon::Var(_) | Canon::VarMulti(_)) => (**ret).clone(),
            _ => return None,
        },
        "elem-of-tuple" => match a0 {
            Canon::Tup(v) if !v.is_empty() => mk_union(v.clone()),
            _ => return None,
        },
        _ => return None,
    })
}

/// basic, uncontroversial absorption between already widened canonical members
fn covers(m: &Canon, e: &Canon) -> bool {
    if m == e {
        return true;
    }
    match (m, e) {
        (Canon::Prim("any"), _) => true,
        (Canon::Prim("number"), Canon::Prim("integer")) => true,
        (Canon::Prim("function"), Canon::Fun { .. }) => true,
        (Canon::Prim("table"), Canon::Arr(_) | Canon::Tup(_) | Canon::Map(_) | Canon::Obj(..)) => true,
        _ => false,
    }
}

fn judge(tpl: &str, exp: &Canon, obs: &Canon, aliases: &BTreeMap<String, Canon>) -> Outcome {
    if obs == exp {
        return Outcome::HeldExact;
    }
    let (ne, no) = (norm(exp, aliases), norm(obs, aliases));
    if ne == no {
        return Outcome::HeldModulo;
    }
    if tpl == "elem-of-tuple" {
        // The statement only demands that the element type covers every element of the tuple;
        // how the analyzer merges them (e.g. `integer|number` -> `number`, `fun()|function` ->
        // `function`) is its own business.
        let om = no.members();
        let uncovered: Vec<Canon> = ne.members().into_iter().filter(|e| !om.iter().any(|m| covers(m, e))).collect();
        if uncovered.is_empty() {
            return Outcome::Inconclusive("tuple-argument:result-covers-elements-but-is-not-their-plain-union".into());
        }
    }
    let em: BTreeSet<Canon> = ne.members().into_iter().collect();
    let om: BTreeSet<Canon> = no.members().into_iter().collect();
    let kind = if matches!(no, Canon::Prim("unknown") | Canon::Prim("any")) || matches!(obs, Canon::Opaque(_)) {
        "not-instantiated"
    } else if om.is_subset(&em) && om.len() < em.len() {
        if em.contains(&Canon::Prim("nil")) && !om.contains(&Canon::Prim("nil")) { "lost-nil" } else { "lost-member" }
    } else {
        "mismatch"
    };
    Outcome::Violated { expected: exp.show(), observed: obs.show(), kind }
}

struct CaseObs {
    result: Option<LuaType>,
    declared_args: Vec<Option<LuaType>>,
    call_args: Vec<Option<LuaType>>,
}

/// Run a file with several cases; observe per case the local `r`, the declared argument locals
/// and the real types of the argument expressions at the call.
fn observe(ws: &mut TypeWs, cases: &[(String, Vec<String>)]) -> Vec<CaseObs> {
    let mut text = String::new();
    for (ix, (tpl, args)) in cases.iter().enumerate() {
        text.push_str(&case_text(tpl, ix, args));
    }
    let fid = ws.def(&text);
    let locals = ws.local_types(fid);
    let find = |n: &str| locals.iter().find(|(k, _)| k == n).map(|(_, t)| t.clone());
    let mut out: Vec<CaseObs> = cases
        .iter()
        .enumerate()
        .map(|(ix, (_, args))| CaseObs { result: find(&format!("r{ix}")), declared_args: (0..args.len()).map(|k| find(&format!("a{ix}_{k}"))).collect(), call_args: vec![None; args.len()] })
        .collect();
    if let Some(model) = ws.ws.analysis.compilation.get_semantic_model(fid) {
        for st in model.get_root().descendants::<LuaLocalStat>() {
            let Some(name) = st.get_local_name_list().next().and_then(|n| n.get_name_token()).map(|t| t.get_name_text().to_string()) else { continue };
            let Some(ix) = name.strip_prefix('r').and_then(|x| x.parse::<usize>().ok()) else { continue };
            if ix >= out.len() {
                continue;
            }
            let Some(expr) = st.get_value_exprs().next() else { continue };
            let Some(call) = LuaCallExpr::cast(expr.syntax().clone()) else { continue };
            let Some(list) = call.get_args_list() else { continue };
            for (k, a) in list.get_args().enumerate() {
                if k < out[ix].call_args.len() {
                    out[ix].call_args[k] = model.infer_expr(a).ok();
                }
            }
        }
    }
    out
}

fn judge_obs(tpl: &str, o: &CaseObs, aliases: &BTreeMap<String, Canon>) -> Outcome {
    let Some(r) = &o.result else { return Outcome::Inconclusive("no-semantic-info-for-result".into()) };
    let mut args: Vec<Canon> = Vec::new();
    for (d, c) in o.declared_args.iter().zip(o.call_args.iter()) {
        let (Some(d), Some(c)) = (d, c) else { return Outcome::Inconclusive("no-semantic-info-for-argument".into()) };
        let (cd, cc) = (canon(d, false), canon(c, false));
        if cd != cc {
            return Outcome::Inconclusive("argument-expression-type-is-not-tau".into());
        }
        if cd.has_opaque() || cd.has_prim("unknown") || cd.has_prim("any") || cd.has_prim("never") {
            return Outcome::Inconclusive("degenerate-argument-type".into());
        }
        args.push(cd);
    }
    let Some(exp) = expected(tpl, &args) else { return Outcome::Inconclusive("degenerate-argument-shape".into()) };
    judge(tpl, &exp, &canon(r, false), aliases)
}

pub fn eval_case(ws: &mut TypeWs, tpl: &str, args: &[String], aliases: &BTreeMap<String, Canon>) -> Outcome {
    let obs = observe(ws, &[(tpl.to_string(), args.to_vec())]);
    judge_obs(tpl, &obs[0], aliases)
}

fn alias_map(ws: &mut TypeWs, hier: &Hier) -> BTreeMap<String, Canon> {
    ws.alias_map(hier)
}

fn gen_tau(rng: &mut Rng, hier: &Hier, depth: usize) -> Ty {
    let d = rng.range(1, depth);
    let t = gen_type(rng, hier, &GenOpts { depth: d, c17_subset: false, exotic: false, allow_any: false, allow_unknown: false, generic_alias: false });
    // a bare `nil` argument says nothing about substitution
    if t == Ty::Prim("nil") { Ty::Prim("integer") } else { t }
}

fn report(ctx: &mut Ctx, hier: &Hier, ws: &mut TypeWs, aliases: &BTreeMap<String, Canon>, tpl: &str, taus: &[Ty]) {
    let mut cur: Vec<Ty> = taus.to_vec();
    for k in 0..cur.len() {
        let s = shrink_h(
            &cur[k].clone(),
            hier,
            |c| {
                if *c == Ty::Prim("nil") {
                    return false;
                }
                let mut v = cur.clone();
                v[k] = c.clone();
                matches!(eval_case(ws, tpl, &arg_annotations(tpl, &v), aliases), Outcome::Violated { .. })
            },
            200,
        );
        cur[k] = s;
    }
    let mut names = BTreeSet::new();
    for t in &cur {
        t.names(&mut names);
    }
    let defs = hier.to_lua(Some(&names));
    let mut fresh = TypeWs::new(&defs);
    let fresh_aliases = alias_map(&mut fresh, &Hier { inst_args: vec![], classes: vec![], enums: vec![], aliases: hier.aliases.iter().filter(|a| defs.contains(&format!("---@alias {}", a.name))).cloned().collect() });
    let args = arg_annotations(tpl, &cur);
    match eval_case(&mut fresh, tpl, &args, &fresh_aliases) {
        Outcome::Violated { expected, observed, kind } => {
            let sk: Vec<String> = cur.iter().map(|t| t.skeleton()).collect();
            let sig = format!("C18:{kind}:{tpl}:args=[{}]", sk.join(";"));
            let alias_json: BTreeMap<String, String> = fresh_aliases.iter().map(|(k, v)| (k.clone(), v.show())).collect();
            ctx.violated(
                &sig,
                &format!(
                    "template {tpl} called with typed local(s) [{}]: inferred `{observed}`, expected `{expected}` (or its literal-widened / alias-expanded form); original arguments [{}]",
                    args.join(" ; "),
                    clip(&taus.iter().map(|t| t.print()).collect::<Vec<_>>().join(" ; "), 300)
                ),
                json!({"sig": sig, "defs": defs, "template": tpl, "args": args, "aliases": hier.aliases.iter().filter(|a| alias_json.contains_key(&a.name)).map(|a| json!({"name": a.name, "type": a.ty.print()})).collect::<Vec<_>>(), "program": case_text(tpl, 0, &args)}),
            );
        }
        _ => ctx.inconclusive("shrunk-case-not-reproduced-in-fresh-workspace"),
    }
}

fn run_batch(ctx: &mut Ctx, rng: &mut Rng, depth: usize, per_batch: usize) {
    let hier = Hier::generate(rng);
    let defs = hier.to_lua(None);
    let mut ws = TypeWs::new(&defs);
    let aliases = alias_map(&mut ws, &hier);
    ctx.clause("batch");
    let mut cases: Vec<(String, Vec<Ty>)> = Vec::new();
    for _ in 0..per_batch {
        let tpl = rng.pick(TEMPLATES).to_string();
        let taus: Vec<Ty> = (0..arity(&tpl)).map(|_| gen_tau(rng, &hier, depth)).collect();
        cases.push((tpl, taus));
    }
    let flat: Vec<(String, Vec<String>)> = cases.iter().map(|(t, taus)| (t.clone(), arg_annotations(t, taus))).collect();
    let obs = observe(&mut ws, &flat);
    for (i, (tpl, taus)) in cases.iter().enumerate() {
        ctx.clause(&format!("template:{tpl}"));
        let fp = fnv(format!("{tpl}|{:?}", flat[i].1).as_bytes());
        let nontrivial = taus.iter().map(|t| t.nodes()).sum::<usize>() >= 2;
        match judge_obs(tpl, &obs[i], &aliases) {
            Outcome::HeldExact => {
                ctx.clause("held:exact");
                ctx.held(fp, nontrivial);
            }
            Outcome::HeldModulo => {
                ctx.clause("held:modulo-widening-or-alias");
                ctx.held(fp, nontrivial);
            }
            Outcome::Inconclusive(r) => ctx.inconclusive(&r),
            Outcome::Violated { .. } => {
                // confirm in an own file before shrinking
                match eval_case(&mut ws, tpl, &flat[i].1, &aliases) {
                    Outcome::Violated { .. } => report(ctx, &hier, &mut ws, &aliases, tpl, taus),
                    _ => ctx.inconclusive("batch-and-single-evaluation-disagree"),
                }
            }
        }
        if ctx.want_sample() && nontrivial && i % 9 == 4 {
            if let Some(r) = &obs[i].result {
                ctx.sample(json!({"template": tpl, "args": flat[i].1, "inferred": canon(r, false).show()}));
            }
        }
    }
}

fn replay(ctx: &mut Ctx, rep: Value) {
    let defs = rep["defs"].as_str().unwrap_or("").to_string();
    let tpl = rep["template"].as_str().unwrap_or("id").to_string();
    let args: Vec<String> = rep["args"].as_array().cloned().unwrap_or_default().iter().filter_map(|x| x.as_str().map(|s| s.to_string())).collect();
    let mut ws = TypeWs::new(&defs);
    let mut aliases = BTreeMap::new();
    for a in rep["aliases"].as_array().cloned().unwrap_or_default() {
        if let (Some(n), Some(t)) = (a["name"].as_str(), a["type"].as_str()) {
            if let Some(lt) = ws.ty(t) {
                let c = canon(&lt, false).expand(&aliases);
                aliases.insert(n.to_string(), c);
            }
        }
    }
    println!("replay: template {tpl}, args {:?}\nprogram:\n{defs}{}", args, case_text(&tpl, 0, &args));
    match eval_case(&mut ws, &tpl, &args, &aliases) {
        Outcome::HeldExact | Outcome::HeldModulo => {
            println!("replay: held");
            ctx.held(fnv(rep.to_string().as_bytes()), true);
        }
        Outcome::Inconclusive(r) => {
            println!("replay: inconclusive ({r})");
            ctx.inconclusive(&r);
        }
        Outcome::Violated { expected, observed, kind } => {
            println!("replay: VIOLATED ({kind}) — expected `{expected}` (modulo literal widening / alias expansion), observed `{observed}`");
            let sig = rep["sig"].as_str().map(|s| s.to_string()).unwrap_or_else(|| format!("C18:{kind}:{tpl}:replay"));
            ctx.violated(&sig, &format!("inferred `{observed}`, expected `{expected}`"), rep);
        }
    }
}

pub fn run(ctx: &mut Ctx) {
    if let Some(rep) = ctx.replay.clone() {
        if let Err(p) = guarded(|| replay(ctx, rep.clone())) {
            println!("replay: PANIC {}", p.sig());
            ctx.violated(&format!("C18:panic:{}", p.sig()), &p.message, rep);
        }
        return;
    }
    let per_batch = 40usize;
    let n = ctx.budget(400, 3750);
    for i in 0..n {
        if ctx.out_of_time() {
            break;
        }
        let mut rng = Rng::new(ctx.case_seed(i));
        let depth = if ctx.is_quick() || i % 3 != 0 { 3 } else { 4 };
        if let Err(p) = guarded(|| run_batch(ctx, &mut rng, depth, per_batch)) {
            ctx.inconclusive(&format!("panic:{}", p.sig()));
        }
    }
}
