//! C09 — reindexing equals analysing the current files from scratch.
//!
//! Case = G-workspace + any start + a full G-history (updates, re-submits, edit/restore,
//! removals, re-adds, config changes, reindex). Then `A.reindex()`; B = new analysis with the
//! configuration the history ended with, the same roots, the surviving files registered in the
//! order of A's file ids, analysed in id order. Oracle: `observe(A) == observe(B)`.

use super::c08::{census_cmp, classify};
use crate::gens::workspace::{self as gw, Case, GenOpts, HistoryKind, Load, Model, Setup, Step};
use crate::observe::{self, Diff};
use crate::report::{Ctx, clip};
use crate::rng::Rng;
use crate::util::guarded;
use serde_json::json;
use std::collections::BTreeMap;

#[derive(Clone, Debug)]
pub enum Outcome {
    Held { survivors: usize, effective: usize, census_delta: Vec<(String, usize, usize)> },
    Unstable,
    DumpDiff { section: String, disc: String, diffs: Vec<Diff> },
    /// the dumps agree but the reindexed analysis holds more index entries than the fresh one
    /// (index, fresh, reindexed, fields)
    CensusSurplus { indexes: Vec<(String, usize, usize, Vec<String>)> },
    Panic(String),
}

/// (abs path, text) of the surviving files in the order of A's file ids.
pub fn survivors_in_id_order(a: &emmylua_code_analysis::EmmyLuaAnalysis, case: &Case, m: &Model) -> Vec<(String, String)> {
    let by_path: BTreeMap<String, usize> = case.ws.files.iter().enumerate().map(|(i, f)| (f.abs_path(), i)).collect();
    let db = a.compilation.get_db();
    let mut out = Vec::new();
    for fid in observe::file_ids(a) {
        let p = observe::path_of(db, fid);
        if let Some(i) = by_path.get(&p) {
            if let Some(t) = m.text(*i) {
                out.push((p, t));
            }
        }
    }
    out
}

pub fn eval(case: &Case) -> Outcome {
    let r = guarded(|| {
        let mut a = case.start();
        let mut m = Model::new(&case.ws);
        let mut effective = 0usize;
        let mut by_none = false;
        for st in &case.steps {
            if let Step::Remove { by_none: true, .. } = st {
                by_none = true;
            }
            if gw::apply_step(&mut a, &case.ws, &mut m, st) && matches!(st, Step::Update { .. } | Step::Remove { .. } | Step::ReAdd { .. } | Step::Config { .. } | Step::ConfigReload { .. } | Step::EditRestore { .. }) {
                effective += 1;
            }
        }
        a.reindex();
        let list = survivors_in_id_order(&a, case, &m);
        let (lib, cfg) = (case.ws.library, m.config);
        let build_b = || {
            let mut b = gw::new_analysis(lib, cfg);
            gw::load_files(&mut b, &list, Load::Sorted);
            b
        };
        let Some(db) = gw::stable_dump(&build_b, 2) else { return Outcome::Unstable };
        let da = observe::observe(&a);
        if da != db {
            let diffs = observe::diff(&db, &da);
            let (section, disc) = classify(&db, &da, &diffs, case);
            return Outcome::DumpDiff { section, disc, diffs };
        }
        let b = build_b();
        let (g, _) = census_cmp(&observe::census(&b), &observe::census(&a));
        // update(u, None) keeps the uri <-> id mapping of the Vfs by design
        let g: Vec<(String, usize, usize)> = g.into_iter().filter(|x| !(by_none && (x.0 == "vfs.file_id_map" || x.0 == "vfs.file_path_map"))).collect();
        if !g.is_empty() {
            let (fa, fb) = (observe::census_fields(&a), observe::census_fields(&b));
            let indexes = g
                .into_iter()
                .map(|(k, x, y)| {
                    let prefix = format!("{k}.");
                    let fields: Vec<String> = fa.iter().filter(|(f, n)| f.starts_with(&prefix) && **n > fb.get(*f).copied().unwrap_or(0)).map(|(f, _)| f[prefix.len()..].to_string()).collect();
                    (k, x, y, fields)
                })
                .collect();
            return Outcome::CensusSurplus { indexes };
        }
        Outcome::Held { survivors: list.len(), effective, census_delta: vec![] }
    });
    match r {
        Ok(o) => o,
        Err(p) => Outcome::Panic(p.sig()),
    }
}

pub fn clauses_of(o: &Outcome) -> Vec<String> {
    match o {
        Outcome::DumpDiff { section, disc, .. } => vec![format!("reindex-vs-fresh:section={section}:{disc}")],
        Outcome::CensusSurplus { indexes } => indexes.iter().map(|x| format!("census-surplus:index={}", x.0)).collect(),
        Outcome::Panic(s) => vec![format!("panic:{s}")],
        _ => vec![],
    }
}

fn detail(o: &Outcome, case: &Case) -> String {
    let head = match o {
        Outcome::CensusSurplus { indexes } => format!("the dumps agree, but the reindexed analysis holds more index entries than a fresh analysis of the same files (index, fresh, reindexed, fields): {indexes:?}\n"),
        Outcome::DumpDiff { diffs, .. } => format!("dump of the reindexed analysis differs from a fresh analysis of the same files (fresh => reindexed):\n{}", observe::diff_text(diffs, 6)),
        other => format!("{other:?}"),
    };
    format!("{head}--- shrunk case (line shapes: {}) ---\n{}", case.shapes().join(","), clip(&case.describe(), 2500))
}

fn gen_case(rng: &mut Rng, quick: bool) -> Case {
    let ws = gw::gen_workspace(rng, &GenOpts { max_files: if quick { 6 } else { 8 }, ..GenOpts::default() });
    let setup = match rng.below(4) {
        0 => Setup::Sorted,
        1 => Setup::OneByOneReindex,
        2 => Setup::ProductionReindex,
        _ => Setup::OneByOne,
    };
    let steps = gw::gen_history(rng, &ws, HistoryKind::Full, if quick { 12 } else { 40 });
    Case { ws, setup, steps }
}

fn judge(ctx: &mut Ctx, case: &Case, shrink: bool) {
    let o = eval(case);
    match &o {
        Outcome::Held { survivors, effective, census_delta } => {
            ctx.clause("a:reindexed-equals-fresh");
            ctx.clause("b:census-not-larger-than-fresh");
            for s in &case.steps {
                ctx.clause(&format!("step:{}", s.kind()));
            }
            for (k, _, _) in census_delta {
                ctx.extra_add(&format!("census_reindexed_gt_fresh:{k}"), 1);
            }
            let nontrivial = *survivors >= 2 && *effective >= 1;
            ctx.held(case.fingerprint(), nontrivial);
            if ctx.want_sample() && nontrivial && case.steps.len() >= 4 {
                ctx.sample(json!({"files": case.ws.files.len(), "survivors": survivors, "setup": case.setup.name(), "steps": case.steps.iter().map(|s| s.kind()).collect::<Vec<_>>(), "first_file": clip(&case.ws.files[0].text(), 400)}));
            }
        }
        Outcome::Unstable => ctx.inconclusive("fresh-analysis-nondeterministic(C11)"),
        _ => {
            let Some(clause) = clauses_of(&o).into_iter().next() else { return };
            let small = if shrink {
                let want = clause.clone();
                gw::shrink_case(case, 1500, &mut |c: &Case| clauses_of(&eval(c)).contains(&want))
            } else {
                case.clone()
            };
            let o2 = eval(&small);
            let again = eval(&small);
            if !clauses_of(&o2).contains(&clause) || !clauses_of(&again).contains(&clause) {
                ctx.inconclusive("violation-not-reproducible-in-process");
                return;
            }
            let sig = super::c08::signature_steps("C09", &clause, &small);
            ctx.violated(&sig, &detail(&o2, &small), small.to_json());
        }
    }
}

pub fn run(ctx: &mut Ctx) {
    if let Some(rep) = ctx.replay.clone() {
        let Some(case) = Case::from_json(&rep) else {
            println!("replay: cannot parse case");
            ctx.inconclusive("bad-replay");
            return;
        };
        let o = eval(&case);
        println!("replay: expected observe(reindexed A) == observe(fresh B)\nobserved: {}", clip(&format!("{o:?}"), 3000));
        judge(ctx, &case, false);
        return;
    }
    let n = ctx.budget(40, 1500);
    for i in 0..n {
        if ctx.out_of_time() {
            break;
        }
        let mut rng = Rng::new(ctx.case_seed(i));
        let case = gen_case(&mut rng, ctx.is_quick());
        judge(ctx, &case, true);
    }
}
