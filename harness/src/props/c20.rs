//! C20 — configuration controls which diagnostics are reported and how.
//!
//! A generated workspace (main files, a main file with `---@diagnostic enable: …`, a `---@meta`
//! file, a file under a library root) is diagnosed three times: with every code enabled (D0),
//! with the default configuration (Ddef) and with a generated `diagnostics` configuration c (Dc).
//! Clauses (each taken from the property statement):
//!   (a) a code in `disable` is not reported unless the file carries `---@diagnostic enable: code`;
//!   (b) a code that is switched on (file-level enable, `enables`, or seen firing by default) reports at
//!       least every diagnostic it has in the all-codes baseline D0 (D0 has the largest enabled set, so
//!       anything one code hides of another is already hidden there; *additional* items are accepted);
//!   (c) every reported diagnostic has severity `severity[code]`, else the code's default as seen in D0;
//!   (d) no undefined-global for a name in `globals` / matching `globalsRegex` (search semantics);
//!   (e) `---@meta` files, files under a library root and std files report nothing;
//!   (f) `enable = false` reports nothing;
//!   (g) a code that is neither enabled nor firing by default but exists in D0 must stay silent unless an
//!       isolated probe (all other codes disabled) shows that it is on by default.
//! Default enabledness and default severities are *observed* (Ddef / D0 / probe), never tabulated.

use super::c19::{Diag, code_names, diagnose, emmyrc_all_enabled, set_file, stmt, to_diag};
use crate::corpus::Corpus;
use crate::report::{Ctx, clip};
use crate::rng::{Rng, fnv};
use crate::util::{ddmin, guarded};
use emmylua_code_analysis::{EmmyLuaAnalysis, Emmyrc, WorkspaceFolder};
use serde::{Deserialize, Serialize};
use serde_json::{Map, Value, json};
use std::collections::BTreeMap;
use std::path::PathBuf;
use std::sync::Arc;

// ─────────────────────────────────── tiny regex subset ───────────────────────────────────
// enough to evaluate the patterns this generator emits, with the usual *search* semantics

#[derive(Clone, Debug)]
enum Atom {
    Ch(char),
    Any,
    Digit,
    Class(Vec<(char, char)>),
}
#[derive(Clone, Debug)]
struct Piece {
    atom: Atom,
    /// 0 = exactly one, 1 = '*', 2 = '+'
    q: u8,
}
#[derive(Clone, Debug)]
struct MiniRe {
    start: bool,
    end: bool,
    pieces: Vec<Piece>,
}

fn parse_re(p: &str) -> Option<MiniRe> {
    let cs: Vec<char> = p.chars().collect();
    let mut i = 0;
    let mut re = MiniRe { start: false, end: false, pieces: vec![] };
    if cs.first() == Some(&'^') {
        re.start = true;
        i = 1;
    }
    while i < cs.len() {
        let c = cs[i];
        let atom = match c {
            '$' if i + 1 == cs.len() => {
                re.end = true;
                i += 1;
                continue;
            }
            '.' => Atom::Any,
            '\\' => {
                i += 1;
                match cs.get(i)? {
                    'd' => Atom::Digit,
                    x => Atom::Ch(*x),
                }
            }
            '[' => {
                let mut rs = Vec::new();
                i += 1;
                while i < cs.len() && cs[i] != ']' {
                    if i + 2 < cs.len() && cs[i + 1] == '-' && cs[i + 2] != ']' {
                        rs.push((cs[i], cs[i + 2]));
                        i += 3;
                    } else {
                        rs.push((cs[i], cs[i]));
                        i += 1;
                    }
                }
                if i >= cs.len() {
                    return None;
                }
                Atom::Class(rs)
            }
            '(' | ')' | '*' | '+' | '?' | '{' | '}' | '|' | '^' | '$' | ']' => return None,
            x => Atom::Ch(x),
        };
        i += 1;
        let q = match cs.get(i) {
            Some('*') => {
                i += 1;
                1
            }
            Some('+') => {
                i += 1;
                2
            }
            _ => 0,
        };
        re.pieces.push(Piece { atom, q });
    }
    Some(re)
}

fn atom_match(a: &Atom, c: char) -> bool {
    match a {
        Atom::Ch(x) => *x == c,
        Atom::Any => c != '\n',
        Atom::Digit => c.is_ascii_digit(),
        Atom::Class(rs) => rs.iter().any(|(lo, hi)| *lo <= c && c <= *hi),
    }
}

fn match_here(ps: &[Piece], s: &[char], end: bool) -> bool {
    match ps.first() {
        None => !end || s.is_empty(),
        Some(p) => match p.q {
            0 => !s.is_empty() && atom_match(&p.atom, s[0]) && match_here(&ps[1..], &s[1..], end),
            q => {
                let mut n = 0;
                while n < s.len() && atom_match(&p.atom, s[n]) {
                    n += 1;
                }
                let min = if q == 2 { 1 } else { 0 };
                let mut k = n as isize;
                while k >= min {
                    if match_here(&ps[1..], &s[k as usize..], end) {
                        return true;
                    }
                    k -= 1;
                }
                false
            }
        },
    }
}

fn re_search(re: &MiniRe, name: &str) -> bool {
    let s: Vec<char> = name.chars().collect();
    if re.start {
        return match_here(&re.pieces, &s, re.end);
    }
    (0..=s.len()).any(|i| match_here(&re.pieces, &s[i..], re.end))
}

// ───────────────────────────────────── case model ─────────────────────────────────────

#[derive(Clone, Debug, PartialEq, Serialize, Deserialize)]
enum Atomc {
    Disable(String),
    Enables(String),
    Severity(String, String),
    Global(String),
    Regex(String),
    EnableFalse,
}

impl Atomc {
    fn key(&self) -> &'static str {
        match self {
            Atomc::Disable(_) => "disable",
            Atomc::Enables(_) => "enables",
            Atomc::Severity(..) => "severity",
            Atomc::Global(_) => "globals",
            Atomc::Regex(_) => "globalsRegex",
            Atomc::EnableFalse => "enable",
        }
    }
}

#[derive(Clone, Debug, Serialize, Deserialize)]
struct WFile {
    /// "main" | "main-enable" | "meta" | "lib"
    role: String,
    path: String,
    /// units of the program (joined by newlines); the first unit of a meta file is `---@meta`
    units: Vec<String>,
    /// codes switched on by `---@diagnostic enable:` inside this file
    file_enabled: Vec<String>,
}

#[derive(Clone, Debug, Serialize, Deserialize)]
struct Ws {
    files: Vec<WFile>,
    lib_root: String,
    /// register the library root before the main root
    #[serde(default)]
    lib_first: bool,
}

fn cfg_json(atoms: &[Atomc]) -> Value {
    let mut d = Map::new();
    let mut disable = vec![];
    let mut enables = vec![];
    let mut sev = Map::new();
    let mut globals = vec![];
    let mut regex = vec![];
    for a in atoms {
        match a {
            Atomc::Disable(c) => disable.push(json!(c)),
            Atomc::Enables(c) => enables.push(json!(c)),
            Atomc::Severity(c, s) => {
                sev.insert(c.clone(), json!(s));
            }
            Atomc::Global(n) => globals.push(json!(n)),
            Atomc::Regex(r) => regex.push(json!(r)),
            Atomc::EnableFalse => {
                d.insert("enable".into(), json!(false));
            }
        }
    }
    if !disable.is_empty() {
        d.insert("disable".into(), Value::Array(disable));
    }
    if !enables.is_empty() {
        d.insert("enables".into(), Value::Array(enables));
    }
    if !sev.is_empty() {
        d.insert("severity".into(), Value::Object(sev));
    }
    if !globals.is_empty() {
        d.insert("globals".into(), Value::Array(globals));
    }
    if !regex.is_empty() {
        d.insert("globalsRegex".into(), Value::Array(regex));
    }
    json!({ "diagnostics": Value::Object(d) })
}

fn emmyrc_of(atoms: &[Atomc]) -> Option<Emmyrc> {
    serde_json::from_value::<Emmyrc>(cfg_json(atoms)).ok()
}

fn text_of(f: &WFile) -> String {
    let mut s = f.units.join("\n");
    s.push('\n');
    s
}

/// diagnostics per file (None = diagnose_file returned None)
type PerFile = Vec<Option<Vec<Diag>>>;

fn build(ws: &Ws, emmyrc: Emmyrc) -> (EmmyLuaAnalysis, Vec<Option<emmylua_code_analysis::FileId>>) {
    let mut a = EmmyLuaAnalysis::new();
    a.update_config(Arc::new(emmyrc));
    if ws.lib_first {
        a.add_library_workspace(&WorkspaceFolder::new(PathBuf::from(&ws.lib_root), true));
        a.add_main_workspace(PathBuf::from("/vws/main"));
    } else {
        a.add_main_workspace(PathBuf::from("/vws/main"));
        a.add_library_workspace(&WorkspaceFolder::new(PathBuf::from(&ws.lib_root), true));
    }
    let mut ids = Vec::new();
    for f in &ws.files {
        ids.push(set_file(&mut a, &f.path, &text_of(f)));
    }
    (a, ids)
}

fn diag_all(a: &EmmyLuaAnalysis, ids: &[Option<emmylua_code_analysis::FileId>]) -> PerFile {
    ids.iter()
        .map(|id| {
            id.and_then(|fid| diagnose(a, fid)).map(|v| {
                let mut v: Vec<Diag> = v.iter().map(to_diag).collect();
                v.sort();
                v
            })
        })
        .collect()
}

/// `late`: build under the all-codes configuration, then switch to c with update_config
fn run_ws(ws: &Ws, emmyrc: Emmyrc, late: bool) -> PerFile {
    if late {
        let (mut a, ids) = build(ws, emmyrc_all_enabled());
        a.update_config(Arc::new(emmyrc));
        diag_all(&a, &ids)
    } else {
        let (a, ids) = build(ws, emmyrc);
        diag_all(&a, &ids)
    }
}

// ───────────────────────────────────────── oracle ─────────────────────────────────────────

#[derive(Clone, Debug)]
struct Viol {
    clause: &'static str,
    role: String,
    code: String,
    detail: String,
}

/// name covered by an undefined-global diagnostic (columns are Unicode scalars on LF lines)
fn slice_name(text: &str, d: &Diag) -> Option<String> {
    if d.sl != d.el {
        return None;
    }
    let line = text.split('\n').nth(d.sl as usize)?;
    let s: String = line.chars().skip(d.sc as usize).take((d.ec - d.sc) as usize).collect();
    if s.is_empty() || !s.chars().all(|c| c.is_alphanumeric() || c == '_') {
        return None;
    }
    Some(s)
}

struct Cfg<'a> {
    atoms: &'a [Atomc],
    res: Vec<MiniRe>,
}

impl<'a> Cfg<'a> {
    fn new(atoms: &'a [Atomc]) -> Self {
        let res = atoms.iter().filter_map(|a| if let Atomc::Regex(r) = a { parse_re(r) } else { None }).collect();
        Cfg { atoms, res }
    }
    fn disabled(&self, c: &str) -> bool {
        self.atoms.iter().any(|a| matches!(a, Atomc::Disable(x) if x == c))
    }
    fn enabled(&self, c: &str) -> bool {
        self.atoms.iter().any(|a| matches!(a, Atomc::Enables(x) if x == c))
    }
    fn off(&self) -> bool {
        self.atoms.iter().any(|a| matches!(a, Atomc::EnableFalse))
    }
    fn sev(&self, c: &str) -> Option<u8> {
        // a JSON object keeps the last value of a repeated key
        self.atoms.iter().rev().find_map(|a| match a {
            Atomc::Severity(x, s) if x == c => Some(match s.as_str() {
                "error" => 1,
                "warning" => 2,
                "information" => 3,
                _ => 4,
            }),
            _ => None,
        })
    }
    fn global_ok(&self, name: &str) -> bool {
        self.atoms.iter().any(|a| matches!(a, Atomc::Global(x) if x == name)) || self.res.iter().any(|r| re_search(r, name))
    }
}

type Key = (u32, u32, u32, u32, String, String);
fn key(d: &Diag) -> Key {
    (d.sl, d.sc, d.el, d.ec, d.code.clone(), d.msg.clone())
}

fn compare(ws: &Ws, atoms: &[Atomc], d0: &PerFile, ddef: &PerFile, dc: &PerFile, codes: &[String], unstable: &[String], probe: &mut dyn FnMut(&str, usize) -> Option<bool>) -> Result<Vec<Viol>, String> {
    let cfg = Cfg::new(atoms);
    let mut out = Vec::new();
    for (i, f) in ws.files.iter().enumerate() {
        let obs: Vec<Diag> = dc[i].clone().unwrap_or_default().into_iter().filter(|d| !unstable.contains(&d.code)).collect();
        let silent_role = f.role == "meta" || f.role == "lib";
        if cfg.off() || silent_role {
            if let Some(d) = obs.first() {
                if f.role == "meta" && f.file_enabled.iter().any(|c| *c == d.code) && obs.iter().all(|d| f.file_enabled.iter().any(|c| *c == d.code)) && !cfg.off() {
                    // statement: "meta files report nothing" vs "unless the file enables it" — not decidable from the text
                    return Err("meta-file-with-file-level-enable-reports".into());
                }
                let clause = if cfg.off() {
                    "enable-false-reports"
                } else if f.role == "meta" {
                    "meta-file-reports"
                } else {
                    "library-file-reports"
                };
                out.push(Viol { clause, role: f.role.clone(), code: d.code.clone(), detail: format!("{}: {} diagnostics, first {}", f.path, obs.len(), d.show()) });
            }
            continue;
        }
        let (Some(b0), Some(bdef)) = (&d0[i], &ddef[i]) else {
            return Err("baseline-none".into());
        };
        let Some(_) = &dc[i] else {
            out.push(Viol { clause: "main-file-not-diagnosed", role: f.role.clone(), code: String::new(), detail: format!("{}: diagnose_file returned None", f.path) });
            continue;
        };
        let text = text_of(f);
        let mut codes: Vec<String> = codes.to_vec();
        for d in b0.iter().chain(bdef.iter()).chain(obs.iter()) {
            if !codes.contains(&d.code) {
                codes.push(d.code.clone());
            }
        }
        let name_of = |d: &Diag| -> Result<Option<String>, String> {
            if d.code != "undefined-global" {
                return Ok(None);
            }
            slice_name(&text, d).map(Some).ok_or_else(|| "cannot-extract-global-name".to_string())
        };
        for code in &codes {
            if unstable.contains(code) {
                continue;
            }
            let fe = f.file_enabled.iter().any(|c| c == code);
            let got: Vec<&Diag> = obs.iter().filter(|d| d.code == *code).collect();
            let ref0: Vec<&Diag> = b0.iter().filter(|d| d.code == *code).collect();
            let fires_by_default = bdef.iter().any(|d| d.code == *code);
            // (a) workspace disable, unless the file force-enables the code
            if cfg.disabled(code) && !fe {
                if let Some(d) = got.first() {
                    out.push(Viol { clause: "disabled-code-reported", role: f.role.clone(), code: code.clone(), detail: format!("{}: {} is in diagnostics.disable but reported: {}", f.path, code, d.show()) });
                }
                continue;
            }
            // (c) severity of everything that is reported
            let want_sev = cfg.sev(code).or_else(|| d0.iter().flatten().flatten().find(|d| d.code == *code).map(|d| d.sev));
            if let Some(ws_) = want_sev {
                if let Some(d) = got.iter().find(|d| d.sev != ws_) {
                    out.push(Viol { clause: "severity-mismatch", role: f.role.clone(), code: code.clone(), detail: format!("{}: expected severity {} ({}), reported {}", f.path, ws_, if cfg.sev(code).is_some() { "diagnostics.severity" } else { "default as seen in the all-codes baseline" }, d.show()) });
                }
            }
            // (d) configured globals
            for d in &got {
                if let Some(n) = name_of(d)? {
                    if cfg.global_ok(&n) {
                        out.push(Viol { clause: "configured-global-reported", role: f.role.clone(), code: code.clone(), detail: format!("{}: `{}` is covered by globals/globalsRegex but reported: {}", f.path, n, d.show()) });
                        break;
                    }
                }
            }
            let must_on = fe || cfg.enabled(code) || fires_by_default;
            if must_on {
                // (b) lower bound. The all-codes baseline has the largest enabled set, so whatever one code
                // suppresses of another is already missing there; each of its items must be reported now.
                let mut have: BTreeMap<Key, usize> = BTreeMap::new();
                for d in &got {
                    *have.entry(key(d)).or_insert(0) += 1;
                }
                for d in &ref0 {
                    if let Some(n) = name_of(d)? {
                        if cfg.global_ok(&n) {
                            continue;
                        }
                    }
                    match have.get_mut(&key(d)) {
                        Some(c) if *c > 0 => *c -= 1,
                        _ => {
                            let clause = if fe {
                                "file-enabled-code-missing"
                            } else if cfg.enabled(code) {
                                "enabled-code-missing"
                            } else {
                                "default-code-missing"
                            };
                            out.push(Viol { clause, role: f.role.clone(), code: code.clone(), detail: format!("{}: {} is switched on but this diagnostic of the all-codes baseline is missing: {}", f.path, code, d.show()) });
                            break;
                        }
                    }
                }
                // additional items (another code that used to cover them is off now) are accepted
            } else if !got.is_empty() && !ref0.is_empty() {
                // neither enabled nor seen by default, but it exists when enabled: off by default, or on by
                // default and merely covered by another code in the default baseline? probe it in isolation.
                match probe(code, i) {
                    Some(true) => {}
                    Some(false) => out.push(Viol { clause: "default-off-code-reported", role: f.role.clone(), code: code.clone(), detail: format!("{}: {} is off by default (silent when it is the only untouched code) and not enabled, but reported: {}", f.path, code, got[0].show()) }),
                    None => return Err("probe-failed".into()),
                }
            }
        }
    }
    Ok(out)
}

// ─────────────────────────────────────── generator ───────────────────────────────────────

const TRIGGERS: &[&str] = &[
    "local function nodoc(a, b) return a end\nnodoc(1, 2)",
    "function GlobalNoDoc(a) return a end",
    "---@unknowntag xx\nlocal ut = 1\nprint(ut)",
    "assert(cfgv, \"msg\" .. tostring(cfgv))",
    "for i = 1, 3 do i = 2 end",
    "---@class C20A\n---@field x integer\nlocal ca = {}\nca.y = 1\nprint(ca.zz)",
    "---@class C20A",
    "---@param p integer\nlocal function takes(p) return p end\ntakes(\"s\")\ntakes()\ntakes(1, 2)",
    "---@return integer\nlocal function ret() return \"s\" end\nret()",
    "---@return integer\nlocal function ret2() end\nprint(ret2)",
    "---@deprecated\nlocal function old() end\nold()",
    "---@type string?\nlocal maybe\nprint(maybe.x)",
    "local t = { a = 1, a = 2, [1] = 1, [1] = 2 }\nprint(t)",
    "local a1, a2 = 1\nprint(a1, a2)",
    "local r1 = 1\nlocal r1 = 2\nprint(r1)",
    "local c1 <const> = 1\nc1 = 2",
    "---@type integer\nlocal ti = \"s\"\nprint(ti)",
    "do return end\nprint(1)",
    "---@nodiscard\nlocal function nd() return 1 end\nnd()",
    "---@class C20B\n---@field a integer\n---@field b string\n---@type C20B\nlocal mf = {}\nprint(mf)",
    "local s = \"abc\nprint(s)",
    "local n = 0x\nprint(n)",
    "---@type\nlocal dt",
    "if true then end\nlocal u = nil\nassert(u)",
    "---@param nope integer\nlocal function wp(a) return a end\nwp(1)",
    "---@type UnknownTypeC20\nlocal utt\nprint(utt)",
    "---@async\nlocal function as() end\nlocal function sy() as() end\nsy()",
    "---@enum C20E\nlocal E = { A = 1, B = 2 }\n---@param e C20E\nlocal function fe(e) end\nfe(3)",
    "---@generic T: string\n---@param x T\nlocal function gen(x) end\ngen(1)",
    "local x1 = 1\n---@cast x1 string\nprint(x1)",
    "local nc = 1\nnc()",
    "require(\"does.not.exist\")",
    "goto l1\n::l1::\n::l1::",
];

fn gen_units(rng: &mut Rng, corpus: &[&str], glob_pool: &[String]) -> Vec<String> {
    let n = rng.range(3, 9);
    let mut v = Vec::new();
    for _ in 0..n {
        match rng.below(10) {
            0..=2 => v.push(stmt(rng).join("\n")),
            3..=4 => {
                // undefined globals from the case's own name pool (targets for globals / globalsRegex)
                let g = &glob_pool[rng.below(glob_pool.len())];
                v.push(match rng.below(3) {
                    0 => format!("{g}()"),
                    1 => format!("local _ = {g}.field"),
                    _ => format!("print({g})"),
                });
            }
            5..=7 => v.push(rng.pick(TRIGGERS).to_string()),
            _ => {
                if !corpus.is_empty() {
                    v.push(corpus[rng.below(corpus.len())].trim_end().to_string());
                }
            }
        }
    }
    v
}

fn gen_name(rng: &mut Rng) -> String {
    const PRE: &[&str] = &["GL", "ui", "Game", "cfg", "x", "名"];
    const MID: &[&str] = &["_", "Mgr", "obj", "", "A"];
    const SUF: &[&str] = &["1", "_42", "End", "z", "", "é"];
    format!("{}{}{}", rng.pick(PRE), rng.pick(MID), rng.pick(SUF))
}

/// codes that fire often in the generated programs (file-level enables are drawn mostly from these)
const COMMON: &[&str] = &[
    "undefined-global", "unused", "undefined-field", "param-type-mismatch", "missing-parameter", "syntax-error", "need-check-nil",
    "assign-type-mismatch", "redefined-local", "duplicate-index", "unbalanced-assignments", "missing-global-doc", "incomplete-signature-doc",
    "unknown-doc-tag", "global-in-non-module", "type-not-found", "unreachable-code", "local-const-reassign", "redundant-parameter", "inject-field",
];

fn pick_fe(rng: &mut Rng, codes: &[String]) -> String {
    if rng.chance(3, 4) { rng.pick(COMMON).to_string() } else { codes[rng.below(codes.len())].clone() }
}

fn gen_ws(rng: &mut Rng, corpus: &[&str], codes: &[String]) -> Ws {
    let mut pool: Vec<String> = (0..rng.range(3, 6)).map(|_| gen_name(rng)).collect();
    pool.sort();
    pool.dedup();
    let lib_root = if rng.chance(1, 5) { "/vws/main/lib".to_string() } else { "/vws/lib".to_string() };
    let mut files = Vec::new();
    files.push(WFile { role: "main".into(), path: "/vws/main/a.lua".into(), units: gen_units(rng, corpus, &pool), file_enabled: vec![] });
    // a main file that force-enables some codes
    {
        let mut units = gen_units(rng, corpus, &pool);
        let mut fe = Vec::new();
        for _ in 0..rng.range(1, 3) {
            let c = pick_fe(rng, codes);
            if !fe.contains(&c) {
                fe.push(c);
            }
        }
        let line = format!("---@diagnostic enable: {}", fe.join(", "));
        // a line of its own followed by an empty statement separator so that it never merges with a doc comment
        let at = if rng.bool() { 0 } else { rng.below(units.len() + 1) };
        units.insert(at, format!("{line}\n;"));
        files.push(WFile { role: "main-enable".into(), path: "/vws/main/sub/b.lua".into(), units, file_enabled: fe });
    }
    {
        let mut units = gen_units(rng, corpus, &pool);
        let mut fe = vec![];
        units.insert(0, if rng.bool() { "---@meta".into() } else { "---@meta c20meta".into() });
        if rng.chance(1, 8) {
            let c = pick_fe(rng, codes);
            units.insert(1, format!("---@diagnostic enable: {c}\n;"));
            fe.push(c);
        }
        files.push(WFile { role: "meta".into(), path: "/vws/main/m.lua".into(), units, file_enabled: fe });
    }
    files.push(WFile { role: "lib".into(), path: format!("{lib_root}/l.lua"), units: gen_units(rng, corpus, &pool), file_enabled: vec![] });
    Ws { files, lib_root, lib_first: rng.chance(1, 3) }
}

/// generator sanity: the `---@diagnostic enable` lines this generator wrote are really parsed as
/// diagnostic tags (a preceding unit could have swallowed them into a string / long comment)
fn enable_lines_parsed(ws: &Ws) -> bool {
    use emmylua_parser::{LuaAstNode, LuaAstToken, LuaDocTagDiagnostic, LuaParser, ParserConfig};
    for f in &ws.files {
        let text = text_of(f);
        let tree = LuaParser::parse(&text, ParserConfig::default());
        let n = tree
            .get_chunk_node()
            .descendants::<LuaDocTagDiagnostic>()
            .filter(|t| t.get_action_token().map(|a| a.get_text() == "enable").unwrap_or(false) && t.get_code_list().is_some())
            .count();
        let want = if f.file_enabled.is_empty() { 0 } else { 1 };
        if n != want {
            return false;
        }
        if f.role == "meta" && tree.get_chunk_node().descendants::<emmylua_parser::LuaDocTagMeta>().count() != 1 {
            return false;
        }
        if f.role != "meta" && tree.get_chunk_node().descendants::<emmylua_parser::LuaDocTagMeta>().count() != 0 {
            return false;
        }
    }
    true
}

fn gen_regex(rng: &mut Rng, names: &[String]) -> String {
    let n: Vec<char> = if names.is_empty() { "foo".chars().collect() } else { names[rng.below(names.len())].chars().collect() };
    let pre: String = n.iter().take(rng.range(1, n.len().min(3))).collect();
    let suf: String = n.iter().skip(n.len().saturating_sub(rng.range(1, 2))).collect();
    let esc = |s: &str| s.to_string();
    match rng.below(11) {
        0 => format!("^{}$", esc(&n.iter().collect::<String>())),
        1 => format!("^{}", esc(&pre)),
        2 => format!("{}$", esc(&suf)),
        3 => esc(&n.iter().skip(1).take(2).collect::<String>()),
        4 => format!("^{}.*{}$", esc(&pre), esc(&suf)),
        5 => "^[A-Z]".into(),
        6 => "_\\d+$".into(),
        7 => "^...$".into(),
        8 => "^[a-c].*[0-9]$".into(),
        9 => "(".into(),
        _ => format!("^{}.+", esc(&pre)),
    }
}

fn gen_atoms(rng: &mut Rng, codes: &[String], present: &[String], names: &[String], fe: &[String]) -> Vec<Atomc> {
    let pick_code = |rng: &mut Rng| -> String {
        if !present.is_empty() && rng.chance(3, 4) { present[rng.below(present.len())].clone() } else { codes[rng.below(codes.len())].clone() }
    };
    let mut v = Vec::new();
    for _ in 0..rng.below(5) {
        v.push(Atomc::Disable(pick_code(rng)));
    }
    if !fe.is_empty() && rng.chance(1, 3) {
        v.push(Atomc::Disable(fe[rng.below(fe.len())].clone()));
    }
    for _ in 0..rng.below(5) {
        v.push(Atomc::Enables(pick_code(rng)));
    }
    for _ in 0..rng.below(4) {
        v.push(Atomc::Severity(pick_code(rng), rng.pick(&["error", "warning", "information", "hint"]).to_string()));
    }
    for _ in 0..rng.below(4) {
        let n = if !names.is_empty() && rng.chance(4, 5) { names[rng.below(names.len())].clone() } else { gen_name(rng) };
        v.push(Atomc::Global(n));
    }
    for _ in 0..rng.below(3) {
        v.push(Atomc::Regex(gen_regex(rng, names)));
    }
    if rng.chance(1, 20) {
        v.push(Atomc::EnableFalse);
    }
    rng.shuffle(&mut v);
    // a severity key may appear once in a JSON object: keep the first per code
    let mut seen = Vec::new();
    v.retain(|a| match a {
        Atomc::Severity(c, _) => {
            if seen.contains(c) {
                false
            } else {
                seen.push(c.clone());
                true
            }
        }
        _ => true,
    });
    v
}

// ────────────────────────────────────────── run ──────────────────────────────────────────

struct Base {
    d0: PerFile,
    ddef: PerFile,
    /// codes whose diagnostics differ between identical runs of the same workspace and configuration
    /// (hash-order dependent analysis results are C11's subject): left out of the comparison
    unstable: Vec<String>,
}

fn baselines(ws: &Ws) -> Option<Base> {
    let mut unstable: Vec<String> = Vec::new();
    let mut first: Vec<PerFile> = Vec::new();
    for all in [true, false] {
        let mut runs: Vec<PerFile> = Vec::new();
        for _ in 0..3 {
            let rc = if all { emmyrc_all_enabled() } else { Emmyrc::default() };
            runs.push(guarded(|| run_ws(ws, rc, false)).ok()?);
        }
        for r in &runs[1..] {
            for (a, b) in runs[0].iter().zip(r.iter()) {
                let (a, b) = (a.clone().unwrap_or_default(), b.clone().unwrap_or_default());
                let mut cs: Vec<&String> = a.iter().chain(b.iter()).map(|d| &d.code).collect();
                cs.sort();
                cs.dedup();
                for c in cs {
                    let fa: Vec<&Diag> = a.iter().filter(|d| d.code == *c).collect();
                    let fb: Vec<&Diag> = b.iter().filter(|d| d.code == *c).collect();
                    if fa != fb && !unstable.contains(c) {
                        unstable.push(c.clone());
                    }
                }
            }
        }
        first.push(runs.swap_remove(0));
    }
    let ddef = first.pop()?;
    let d0 = first.pop()?;
    Some(Base { d0, ddef, unstable })
}

fn eval(ws: &Ws, atoms: &[Atomc], late: bool, base: &Base, codes: &[String]) -> Result<Vec<Viol>, String> {
    let Some(rc) = emmyrc_of(atoms) else {
        return Err("config-rejected-by-serde".into());
    };
    let dc = match guarded(|| run_ws(ws, rc, late)) {
        Ok(d) => d,
        Err(p) => return Err(format!("panic:{}", p.sig())),
    };
    // does `code` fire in file i when every other code is disabled and `code` itself is left to its default?
    let mut probe = |code: &str, i: usize| -> Option<bool> {
        let others: Vec<Atomc> = codes.iter().filter(|c| c.as_str() != code).map(|c| Atomc::Disable(c.clone())).collect();
        let rc = emmyrc_of(&others)?;
        let d = guarded(|| run_ws(ws, rc, false)).ok()?;
        Some(d.get(i)?.as_ref().map(|v| v.iter().any(|x| x.code == code)).unwrap_or(false))
    };
    compare(ws, atoms, &base.d0, &base.ddef, &dc, codes, &base.unstable, &mut probe)
}

fn sig_of(v: &Viol, atoms: &[Atomc], generic: bool) -> String {
    let mut keys: Vec<&str> = atoms.iter().map(|a| a.key()).collect();
    keys.sort();
    keys.dedup();
    format!("C20:{}:file={}:keys={}:code={}", v.clause, v.role, if keys.is_empty() { "none".to_string() } else { keys.join("+") }, if generic { "any" } else { v.code.as_str() })
}

fn std_files_silent(ctx: &mut Ctx) {
    let r = guarded(|| {
        let mut a = EmmyLuaAnalysis::new();
        a.update_config(Arc::new(emmyrc_all_enabled()));
        a.init_std_lib(None);
        a.add_main_workspace(PathBuf::from("/vws/main"));
        let db = a.compilation.get_db();
        let mut n = 0;
        let mut bad = Vec::new();
        for fid in db.get_vfs().get_all_file_ids() {
            if db.get_module_index().is_std(&fid) {
                n += 1;
                if let Some(d) = diagnose(&a, fid) {
                    if let Some(first) = d.first() {
                        bad.push(format!("{:?}: {} diagnostics, first {}", db.get_vfs().get_file_path(&fid), d.len(), to_diag(first).show()));
                    }
                }
            }
        }
        (n, bad)
    });
    match r {
        Ok((n, bad)) => {
            ctx.clause_n("std-files-silent", n as u64);
            if n == 0 {
                ctx.inconclusive("no-std-files");
            } else if let Some(b) = bad.first() {
                ctx.violated("C20:std-file-reports", b, json!({"std": true}));
            } else {
                ctx.held(fnv(b"std-files"), true);
            }
        }
        Err(p) => ctx.inconclusive(&format!("panic-std:{}", p.sig())),
    }
}

/// (b) anchor. The baselines themselves are produced through `diagnostics.enables`, so a tree in which
/// `enables` had no effect at all would look consistent. Two snippets taken from the repository's own
/// diagnostic tests pin it down: the code must appear with `enables = [code]` and not without.
const ANCHORS: &[(&str, &str)] = &[
    ("unknown-doc-tag", "---@unknowntag xx\nlocal ut = 1\nprint(ut)\n"),
    ("missing-global-doc", "function GlobalNoDoc(a)\n  return a\nend\n"),
    ("incomplete-signature-doc", "---@param a integer\nlocal function nodoc(a, b)\n  return a, b\nend\nnodoc(1, 2)\n"),
];

fn enables_anchor(ctx: &mut Ctx) {
    for (code, text) in ANCHORS {
        let ws = Ws { files: vec![WFile { role: "main".into(), path: "/vws/main/anchor.lua".into(), units: vec![text.trim_end().to_string()], file_enabled: vec![] }], lib_root: "/vws/lib".into(), lib_first: false };
        let on = guarded(|| run_ws(&ws, emmyrc_of(&[Atomc::Enables(code.to_string())]).unwrap_or_default(), false));
        let off = guarded(|| run_ws(&ws, Emmyrc::default(), false));
        let has = |r: &Result<PerFile, crate::util::PanicInfo>| r.as_ref().ok().and_then(|p| p[0].clone()).map(|v| v.iter().any(|d| d.code == *code));
        match (has(&on), has(&off)) {
            (Some(true), Some(false)) => {
                ctx.clause("b:enables-anchor");
                ctx.held(fnv(code.as_bytes()), true);
            }
            (Some(false), Some(false)) => {
                ctx.violated("C20:enables-has-no-effect:file=main:keys=enables:code=any", &format!("`{code}` is off by default; with diagnostics.enables = [\"{code}\"] it is still not reported for {text:?}"), json!({"anchor": code}));
            }
            _ => ctx.inconclusive("enables-anchor-not-applicable"),
        }
    }
}

pub fn run(ctx: &mut Ctx) {
    let codes = code_names();
    if let Some(rep) = ctx.replay.clone() {
        if rep["std"].as_bool() == Some(true) {
            std_files_silent(ctx);
            return;
        }
        if rep.get("anchor").is_some() {
            enables_anchor(ctx);
            return;
        }
        let ws: Ws = match serde_json::from_value(rep["workspace"].clone()) {
            Ok(w) => w,
            Err(e) => {
                println!("replay: cannot decode workspace: {e}");
                ctx.inconclusive("bad-replay");
                return;
            }
        };
        let atoms: Vec<Atomc> = serde_json::from_value(rep["atoms"].clone()).unwrap_or_default();
        let late = rep["late"].as_bool().unwrap_or(false);
        let generic = rep["generic"].as_bool().unwrap_or(false);
        println!("config: {}", cfg_json(&atoms));
        for f in &ws.files {
            println!("--- {} ({}) ---\n{}", f.path, f.role, text_of(f));
        }
        let Some(base) = baselines(&ws) else {
            ctx.inconclusive("baseline-panic");
            return;
        };
        match eval(&ws, &atoms, late, &base, &codes) {
            Ok(v) if v.is_empty() => {
                println!("replay: held");
                ctx.held(0, true);
            }
            Ok(v) => {
                for x in &v {
                    println!("replay: VIOLATED {}: {}", sig_of(x, &atoms, generic), x.detail);
                }
                let want = rep["sig"].as_str().unwrap_or("");
                let x = v.iter().find(|x| sig_of(x, &atoms, generic) == want).unwrap_or(&v[0]);
                ctx.violated(&sig_of(x, &atoms, generic), &x.detail, rep);
            }
            Err(r) => {
                println!("replay: inconclusive {r}");
                ctx.inconclusive(&r);
            }
        }
        return;
    }
    let corpus = Corpus::load(&ctx.repo);
    let snippets: Vec<&str> = corpus.snippets.iter().map(|s| s.as_str()).filter(|s| !s.contains("diagnostic") && !s.contains("meta") && s.lines().count() <= 40 && s.is_ascii()).collect();
    ctx.extra_set("corpus_snippets_usable", json!(snippets.len()));
    if ctx.shard % 4 == 0 {
        std_files_silent(ctx);
    }
    if ctx.shard % 4 == 1 || ctx.nshards == 1 {
        enables_anchor(ctx);
    }
    let n_ws = ctx.budget(1_200, 40_000);
    let per_ws = 5;
    for i in 0..n_ws {
        if ctx.out_of_time() {
            break;
        }
        let mut rng = Rng::new(ctx.case_seed(i));
        let ws = gen_ws(&mut rng, &snippets, &codes);
        if !enable_lines_parsed(&ws) {
            ctx.extra_add("gen_skipped:tags-not-parsed-as-written", 1);
            continue;
        }
        let Some(base) = baselines(&ws) else {
            ctx.inconclusive("baseline-panic");
            continue;
        };
        if base.d0.iter().zip(&ws.files).any(|(d, f)| f.role.starts_with("main") && d.is_none()) {
            ctx.inconclusive("baseline-none");
            continue;
        }
        // what fires at all, and which undefined globals exist
        let mut present: Vec<String> = Vec::new();
        let mut names: Vec<String> = Vec::new();
        for (d, f) in base.d0.iter().zip(&ws.files) {
            if let Some(d) = d {
                let text = text_of(f);
                for x in d {
                    present.push(x.code.clone());
                    if x.code == "undefined-global" {
                        if let Some(n) = slice_name(&text, x) {
                            names.push(n);
                        }
                    }
                }
            }
        }
        present.sort();
        present.dedup();
        names.sort();
        names.dedup();
        let n0: usize = base.d0.iter().map(|d| d.as_ref().map(|v| v.len()).unwrap_or(0)).sum();
        for j in 0..per_ws {
            let fe_all: Vec<String> = ws.files.iter().flat_map(|f| f.file_enabled.iter().cloned()).collect();
            let atoms = gen_atoms(&mut rng, &codes, &present, &names, &fe_all);
            let late = rng.chance(1, 3);
            match eval(&ws, &atoms, late, &base, &codes) {
                Err(r) => {
                    ctx.inconclusive(&r);
                }
                Ok(v) if v.is_empty() => {
                    if !base.unstable.is_empty() {
                        ctx.extra_add("evaluations_with_unstable_codes_excluded", 1);
                    }
                    let cfg = Cfg::new(&atoms);
                    for a in &atoms {
                        match a {
                            Atomc::Disable(c) if present.contains(c) => ctx.clause("a:disable-of-firing-code"),
                            Atomc::Enables(c) if present.contains(c) => ctx.clause("b:enables-of-firing-code"),
                            Atomc::Severity(c, _) if present.contains(c) => ctx.clause("c:severity-of-firing-code"),
                            Atomc::Global(g) if names.contains(g) => ctx.clause("d:globals-hit"),
                            Atomc::EnableFalse => ctx.clause("f:enable-false"),
                            _ => {}
                        }
                    }
                    if names.iter().any(|n| cfg.res.iter().any(|r| re_search(r, n))) {
                        ctx.clause("d:globalsRegex-hit");
                    }
                    ctx.clause("e:meta-file-silent");
                    ctx.clause("e:library-file-silent");
                    if late {
                        ctx.clause("late-config-switch");
                    }
                    if ws.files[1].file_enabled.iter().any(|c| cfg.disabled(c) && present.contains(c)) {
                        ctx.clause("a:file-enable-beats-disable");
                    }
                    let fp = fnv(format!("{}{}", cfg_json(&atoms), ws.files.iter().map(text_of).collect::<String>()).as_bytes());
                    ctx.held(fp, n0 >= 8 && atoms.len() >= 2);
                    if ctx.want_sample() && n0 >= 8 && atoms.len() >= 4 && (i * per_ws + j) % 37 == 5 {
                        ctx.sample(json!({"config": cfg_json(&atoms), "late_switch": late, "baseline_diagnostics": n0, "codes_firing": present, "main_file": clip(&text_of(&ws.files[0]), 400)}));
                    }
                }
                Ok(v) => {
                    // a violation must show up in five independent evaluations (guards against
                    // run-to-run nondeterminism of the analysis, which is not what C20 is about)
                    let mut v = v;
                    for _ in 0..4 {
                        match eval(&ws, &atoms, late, &base, &codes) {
                            Ok(again) => v.retain(|x| again.iter().any(|y| y.clause == x.clause && y.role == x.role && y.code == x.code)),
                            Err(_) => v.clear(),
                        }
                    }
                    if v.is_empty() {
                        ctx.inconclusive("nondeterministic-diagnostics");
                        continue;
                    }
                    let clause = v[0].clause;
                    let role = v[0].role.clone();
                    let fails = |at: &[Atomc]| matches!(eval(&ws, at, late, &base, &codes), Ok(x) if x.iter().any(|y| y.clause == clause && y.role == role));
                    let small: Vec<Atomc> = if fails(&[]) { vec![] } else { ddmin(atoms.clone(), |a| fails(a), 120) };
                    // shrink the programs too (units of every file), baselines recomputed each time
                    let mut ws2 = ws.clone();
                    for fi in 0..ws2.files.len() {
                        let units = ws2.files[fi].units.clone();
                        let keep_first = if ws2.files[fi].role == "meta" { 1 } else { 0 };
                        let fixed: Vec<String> = units[..keep_first].to_vec();
                        let rest: Vec<String> = units[keep_first..].to_vec();
                        let test = |u: &[String]| -> bool {
                            let mut w = ws2.clone();
                            w.files[fi].units = fixed.iter().cloned().chain(u.iter().cloned()).collect();
                            // the enable line must stay in a file that claims file-level enables
                            if !w.files[fi].file_enabled.is_empty() && !w.files[fi].units.iter().any(|x| x.starts_with("---@diagnostic enable")) {
                                return false;
                            }
                            if !enable_lines_parsed(&w) {
                                return false;
                            }
                            match baselines(&w) {
                                Some(b) => matches!(eval(&w, &small, late, &b, &codes), Ok(x) if x.iter().any(|y| y.clause == clause && y.role == role)),
                                None => false,
                            }
                        };
                        let kept = if rest.is_empty() || test(&[]) { vec![] } else { ddmin(rest.clone(), |u| test(u), 40) };
                        ws2.files[fi].units = fixed.into_iter().chain(kept).collect();
                    }
                    let Some(b2) = baselines(&ws2) else {
                        ctx.inconclusive("shrink-baseline-panic");
                        continue;
                    };
                    match eval(&ws2, &small, late, &b2, &codes) {
                        Ok(x) if x.iter().any(|y| y.clause == clause && y.role == role) => {
                            let y = x.iter().find(|y| y.clause == clause && y.role == role).unwrap().clone();
                            // does the same clause fire for another code in the same role? then the code is not the discriminator
                            // clauses about a whole file (meta / library / enable=false) and about file-level
                            // enables are not tied to one code: the reported code is just the first one seen
                            let mut generic = matches!(clause, "meta-file-reports" | "library-file-reports" | "enable-false-reports" | "main-file-not-diagnosed" | "file-enabled-code-missing" | "configured-global-reported" | "default-off-code-reported");
                            for other in present.iter().filter(|c| **c != y.code).take(4) {
                                let swapped: Vec<Atomc> = small
                                    .iter()
                                    .map(|a| match a {
                                        Atomc::Disable(c) if *c == y.code => Atomc::Disable(other.clone()),
                                        Atomc::Enables(c) if *c == y.code => Atomc::Enables(other.clone()),
                                        Atomc::Severity(c, s) if *c == y.code => Atomc::Severity(other.clone(), s.clone()),
                                        a => a.clone(),
                                    })
                                    .collect();
                                if swapped != small {
                                    if let Ok(z) = eval(&ws, &swapped, late, &base, &codes) {
                                        if z.iter().any(|q| q.clause == clause && q.code == *other) {
                                            generic = true;
                                            break;
                                        }
                                    }
                                }
                            }
                            let sig = sig_of(&y, &small, generic);
                            ctx.violated(
                                &sig,
                                &format!("{} under config {}", y.detail, cfg_json(&small)),
                                json!({"workspace": serde_json::to_value(&ws2).unwrap_or(Value::Null), "atoms": serde_json::to_value(&small).unwrap_or(Value::Null), "config": cfg_json(&small), "late": late, "generic": generic, "sig": sig}),
                            );
                        }
                        _ => ctx.inconclusive("shrink-unstable"),
                    }
                }
            }
        }
    }
}
