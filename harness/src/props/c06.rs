//! C06 — formatting is idempotent.
//!
//! In-process: f1 = fmt(x); f2 = fmt(f1); f1 == f2 (and f3 = fmt(f2) to tell a 2-cycle from drift).
//! Process level: a directory of files, real `luafmt --write` then `luafmt --check` with the same
//! configuration file: exit status 0 and files untouched by `--check`.

use crate::corpus::Corpus;
use crate::fmt_oracle::{self as fo, FmtCase};
use crate::props::c05::format;
use crate::report::{Ctx, clip};
use crate::rng::{Rng, fnv};
use crate::util::PanicInfo;
use emmylua_formatter::LuaFormatConfig;
use serde_json::{Value, json};

#[derive(Clone, Debug)]
pub struct NonIdem {
    /// "2-cycle" | "converges-on-pass-2" | "drift"
    pub shape: &'static str,
    /// syntax kind enclosing the first difference (in f1)
    pub at: String,
    pub f1: String,
    pub f2: String,
    pub first_diff_line: (String, String),
}

pub enum Outcome {
    Held { changed: bool, len: usize },
    Bad(NonIdem),
    Panic(PanicInfo),
}

fn first_diff(a: &str, b: &str) -> usize {
    let (x, y) = (a.as_bytes(), b.as_bytes());
    let n = x.len().min(y.len());
    let mut i = 0;
    while i < n && x[i] == y[i] {
        i += 1;
    }
    i
}

fn line_at(s: &str, off: usize) -> String {
    let off = off.min(s.len());
    let start = s[..{
        let mut o = off;
        while !s.is_char_boundary(o) {
            o -= 1;
        }
        o
    }]
        .rfind('\n')
        .map(|p| p + 1)
        .unwrap_or(0);
    let end = s[start..].find('\n').map(|p| start + p).unwrap_or(s.len());
    s[start..end].to_string()
}

pub fn eval(text: &str, level_name: &str, cfg: &LuaFormatConfig) -> Outcome {
    let f1 = match format(text, level_name, cfg) {
        Ok(o) => o,
        Err(p) => return Outcome::Panic(p),
    };
    let f2 = match format(&f1, level_name, cfg) {
        Ok(o) => o,
        Err(p) => return Outcome::Panic(p),
    };
    if f1 == f2 {
        return Outcome::Held { changed: f1 != text, len: f1.len() };
    }
    let f3 = match format(&f2, level_name, cfg) {
        Ok(o) => o,
        Err(p) => return Outcome::Panic(p),
    };
    let shape = if f3 == f1 {
        "2-cycle"
    } else if f3 == f2 {
        "converges-on-pass-2"
    } else {
        "drift"
    };
    let off = first_diff(&f1, &f2);
    let level = fo::level_by_name(level_name).0;
    let tree = fo::parse(&f1, level);
    let at = fo::enclosing_kind(&tree.get_red_root(), off);
    let first_diff_line = (line_at(&f1, off), line_at(&f2, off));
    Outcome::Bad(NonIdem { shape, at, f1, f2, first_diff_line })
}

/// Signature: a 2-cycle is told apart from output that keeps changing / settles one pass late (the exact
/// shape is in the detail), plus the syntax kind enclosing the first differing byte.
fn sig_of(n: &NonIdem) -> String {
    let class = if n.shape == "2-cycle" { "2-cycle" } else { "unstable" };
    format!("C06:not-idempotent:{}:at={}", class, n.at)
}

pub fn shrink(text: &str, level_name: &str, cfg: &LuaFormatConfig, n: &NonIdem) -> (String, LuaFormatConfig, NonIdem) {
    let level = fo::level_by_name(level_name).0;
    let max_errors = fo::error_count(text, level);
    let same = |t: &str, c: &LuaFormatConfig| -> bool {
        if fo::error_count(t, level) > max_errors {
            return false;
        }
        match eval(t, level_name, c) {
            Outcome::Bad(m) => m.at == n.at && m.shape == n.shape,
            _ => false,
        }
    };
    let cfg1 = fo::shrink_config(cfg, |c| same(text, c));
    let small = fo::shrink_text(text, |t| same(t, &cfg1), 1200);
    let cfg2 = fo::shrink_config(&cfg1, |c| same(&small, c));
    let n2 = match eval(&small, level_name, &cfg2) {
        Outcome::Bad(x) => x,
        _ => n.clone(),
    };
    (small, cfg2, n2)
}

// ---- stable core ---------------------------------------------------------------------------
// The general case stream is not idempotent in ~25% of its cases on the pinned tree (open findings), which
// leaves no room to tell a new instability from the known ones by signature. The stable core is a restricted
// grammar (no comments, no semicolons, no tables, no long calls; nested blocks, simple statements and one-line
// `if c then s end` statements whose length is tuned to land within a few columns of max_line_width at the
// source *or* at the formatted indentation), written with an indentation that differs from the configured one,
// under the default configuration with only max_line_width / indent width varied. On the pinned tree every
// such program is stable after one pass, so any instability here is reported under its own signature, which
// no known finding covers.
const CORE_NAMES: &[&str] = &["ok", "n", "value", "items", "err", "count", "state", "self", "i", "result"];

fn core_expr(rng: &mut Rng, depth: u32) -> String {
    match rng.below(if depth >= 2 { 4 } else { 8 }) {
        0 | 1 => rng.pick(CORE_NAMES).to_string(),
        2 => format!("{}", rng.below(1000)),
        3 => format!("\"{}\"", rng.pick(&["a", "msg", "not found", "x y z"])),
        4 => format!("{} {} {}", core_expr(rng, depth + 1), rng.pick(&["+", "-", "*", "..", "==", "~=", "<", "and", "or"]), core_expr(rng, depth + 1)),
        5 => format!("{}({})", rng.pick(&["f", "check", "tostring", "m.get"]), core_expr(rng, depth + 1)),
        6 => format!("not {}", rng.pick(CORE_NAMES)),
        _ => format!("{}.{}", rng.pick(CORE_NAMES), rng.pick(&["x", "len", "name"])),
    }
}

fn core_simple(rng: &mut Rng, last: bool) -> String {
    match rng.below(if last { 4 } else { 3 }) {
        0 => format!("local {} = {}", rng.pick(CORE_NAMES), core_expr(rng, 1)),
        1 => format!("{} = {}", rng.pick(CORE_NAMES), core_expr(rng, 1)),
        2 => format!("{}({}, {})", rng.pick(&["f", "check", "print"]), core_expr(rng, 1), core_expr(rng, 1)),
        _ => format!("return {}", core_expr(rng, 1)),
    }
}

/// One-line `if` whose total length (without indentation) is `len`, padded through a string literal.
fn core_one_line_if(rng: &mut Rng, len: usize) -> String {
    let (head, tail) = match rng.below(3) {
        0 => ("if not ok then return \"", "\" end"),
        1 => ("if n > 0 then err = \"", "\" end"),
        _ => ("if state then print(\"", "\") end"),
    };
    let fill = len.saturating_sub(head.len() + tail.len()).max(1);
    format!("{head}{}{tail}", "x".repeat(fill))
}

fn core_block(rng: &mut Rng, depth: usize, width: usize, cfg_indent: usize, unit: &str, out: &mut String) {
    let n = rng.range(1, 4);
    let ind = unit.repeat(depth);
    for k in 0..n {
        let last = k + 1 == n;
        match rng.below(if depth >= 4 { 4 } else { 10 }) {
            0 | 1 => {
                out.push_str(&ind);
                out.push_str(&core_simple(rng, last));
                out.push('\n');
            }
            2 | 3 => {
                // tuned to the limit at the source indentation or at the formatted one
                let src_col = ind.chars().map(|c| if c == '\t' { 4 } else { 1 }).sum::<usize>();
                let base = if rng.bool() { src_col } else { depth * cfg_indent };
                let reserve = rng.below(14) as i64 - 7;
                let len = (width as i64 - base as i64 + reserve).max(30) as usize;
                out.push_str(&ind);
                out.push_str(&core_one_line_if(rng, len));
                out.push('\n');
            }
            4 => {
                out.push_str(&format!("{ind}if {} then\n", core_expr(rng, 1)));
                core_block(rng, depth + 1, width, cfg_indent, unit, out);
                if rng.chance(1, 3) {
                    out.push_str(&format!("{ind}else\n"));
                    core_block(rng, depth + 1, width, cfg_indent, unit, out);
                }
                out.push_str(&format!("{ind}end\n"));
            }
            5 => {
                out.push_str(&format!("{ind}while {} do\n", core_expr(rng, 1)));
                core_block(rng, depth + 1, width, cfg_indent, unit, out);
                out.push_str(&format!("{ind}end\n"));
            }
            6 => {
                out.push_str(&format!("{ind}do\n"));
                core_block(rng, depth + 1, width, cfg_indent, unit, out);
                out.push_str(&format!("{ind}end\n"));
            }
            7 => {
                out.push_str(&format!("{ind}for i = 1, {} do\n", rng.pick(CORE_NAMES)));
                core_block(rng, depth + 1, width, cfg_indent, unit, out);
                out.push_str(&format!("{ind}end\n"));
            }
            _ => {
                out.push_str(&format!("{ind}local function {}({})\n", rng.pick(&["check", "step", "run"]), rng.pick(&["", "ok", "ok, n"])));
                core_block(rng, depth + 1, width, cfg_indent, unit, out);
                out.push_str(&format!("{ind}end\n"));
            }
        }
        if last {
            break;
        }
    }
}

pub fn gen_core(rng: &mut Rng) -> (String, LuaFormatConfig) {
    let mut cfg = LuaFormatConfig::default();
    cfg.layout.max_line_width = rng.pick(&[80usize, 100, 120]);
    cfg.indent.width = rng.pick(&[2usize, 4, 4, 8]);
    let unit = rng.pick(&["", " ", "  ", "   ", "    ", "      ", "        ", "\t"]);
    let mut text = String::new();
    core_block(rng, 0, cfg.layout.max_line_width, cfg.indent.width, unit, &mut text);
    (text, cfg)
}

fn replay_json(text: &str, level_name: &str, cfg: &LuaFormatConfig, family: &str, original_len: usize) -> Value {
    json!({"text": text, "level": level_name, "cfg": fo::config_to_json(cfg), "cfg_delta": fo::config_delta(cfg), "family": family, "original_len": original_len})
}

fn luafmt_path() -> String {
    let t = std::env::var("VERIF_TARGET").unwrap_or_else(|_| "/verif/target".into());
    format!("{t}/repo-bins/release/luafmt")
}

/// One CLI round: returns Err(description) for harness problems, Ok(list of files that `--check`
/// still wants to change) otherwise.
fn cli_round(dir: &str, files: &[(String, String)], cfg: &LuaFormatConfig) -> Result<(i32, i32, Vec<String>, bool), String> {
    let _ = std::fs::remove_dir_all(dir);
    std::fs::create_dir_all(format!("{dir}/src/sub")).map_err(|e| format!("mkdir: {e}"))?;
    for (name, content) in files {
        std::fs::write(format!("{dir}/src/{name}"), content).map_err(|e| format!("write: {e}"))?;
    }
    let cfg_path = format!("{dir}/cfg.json");
    std::fs::write(&cfg_path, fo::config_to_json(cfg).to_string()).map_err(|e| format!("write cfg: {e}"))?;
    let bin = luafmt_path();
    let run = |mode: &str| -> Result<std::process::Output, String> {
        std::process::Command::new(&bin)
            .args(["--config", &cfg_path, mode, "--color", "never", &format!("{dir}/src")])
            .env("HOME", dir)
            .current_dir(dir)
            .output()
            .map_err(|e| format!("spawn {bin}: {e}"))
    };
    let w = run("--write")?;
    let wcode = w.status.code().unwrap_or(-1);
    let mut after_write = Vec::new();
    for (name, _) in files {
        after_write.push(std::fs::read_to_string(format!("{dir}/src/{name}")).map_err(|e| format!("read back: {e}"))?);
    }
    let c = run("--list-different")?;
    let ccode = c.status.code().unwrap_or(-1);
    let listed: Vec<String> = String::from_utf8_lossy(&c.stdout).lines().map(|l| l.rsplit("/src/").next().unwrap_or(l).to_string()).collect();
    let c2 = run("--check")?;
    let c2code = c2.status.code().unwrap_or(-1);
    let mut untouched = true;
    for ((name, _), aw) in files.iter().zip(after_write.iter()) {
        let now = std::fs::read_to_string(format!("{dir}/src/{name}")).map_err(|e| format!("read back 2: {e}"))?;
        if &now != aw {
            untouched = false;
        }
    }
    let _ = ccode;
    Ok((wcode, c2code, listed, untouched))
}

pub fn run(ctx: &mut Ctx) {
    if let Some(rep) = ctx.replay.clone() {
        let text = rep["text"].as_str().unwrap_or("").to_string();
        let level = rep["level"].as_str().unwrap_or("Lua55").to_string();
        let cfg = fo::config_from_json(&rep["cfg"]);
        if rep["cli"].as_bool().unwrap_or(false) {
            let dir = format!("{}/c06-replay-{}", ctx.work, std::process::id());
            let mut cfg2 = cfg.clone();
            cfg2.syntax.level = fo::level_by_name(&level).1;
            match cli_round(&dir, &[("a.lua".to_string(), text.clone())], &cfg2) {
                Ok((w, c, listed, untouched)) => {
                    println!("replay(cli): --write exit {w}, --check exit {c}, listed {listed:?}, untouched {untouched}");
                    if c != 0 || !untouched {
                        ctx.violated(rep["sig"].as_str().unwrap_or("C06:cli-check-after-write"), "luafmt --check fails right after luafmt --write", rep.clone());
                    } else {
                        ctx.held(fnv(text.as_bytes()), true);
                    }
                }
                Err(e) => {
                    println!("replay(cli): harness problem {e}");
                    ctx.inconclusive("cli-harness");
                }
            }
            let _ = std::fs::remove_dir_all(&dir);
            return;
        }
        println!("replay: input {:?}", clip(&text, 600));
        match eval(&text, &level, &cfg) {
            Outcome::Held { len, .. } => {
                println!("replay: held (second pass returns the first pass output unchanged)");
                ctx.held(fnv(text.as_bytes()), len >= 16);
            }
            Outcome::Bad(n) => {
                println!("replay: VIOLATED {}\n  pass 1 line: {:?}\n  pass 2 line: {:?}", sig_of(&n), n.first_diff_line.0, n.first_diff_line.1);
                ctx.violated(&sig_of(&n), &format!("pass1 {:?} pass2 {:?}", n.first_diff_line.0, n.first_diff_line.1), rep);
            }
            Outcome::Panic(p) => {
                println!("replay: PANIC {}", p.sig());
                ctx.violated(&format!("C06:panic:{}", p.sig()), &p.message, rep);
            }
        }
        return;
    }
    let corpus = Corpus::load(&ctx.repo);
    ctx.extra_set("corpus_items", json!(corpus.len()));
    if corpus.snippets.is_empty() || corpus.std_files.is_empty() {
        ctx.inconclusive("corpus-empty");
        return;
    }
    let n = ctx.budget(2_000, 80_000);
    let mut shrinks = 0u32;
    let mut shrink_cpu = 0f64;
    // inputs for the CLI clause: (text, level, cfg) of cases that were formatted in-process
    let mut cli_pool: Vec<(String, &'static str)> = Vec::new();
    for i in 0..n {
        if ctx.out_of_time() {
            break;
        }
        // same case stream as C05, different sub-seed
        let mut rng = Rng::new(ctx.case_seed(i) ^ 0x6c06);
        let big = !ctx.is_quick() && i % 10 == 0;
        let case: FmtCase = fo::gen_case(&mut rng, &corpus, big);
        ctx.clause(&format!("family:{}", case.family));
        let fp = fnv(case.text.as_bytes()) ^ fnv(fo::config_to_json(&case.cfg).to_string().as_bytes());
        if case.level_name == "Lua55" && case.text.len() < 20_000 && cli_pool.len() < 4000 {
            cli_pool.push((case.text.clone(), case.level_name));
        }
        match eval(&case.text, case.level_name, &case.cfg) {
            Outcome::Held { changed, len } => {
                ctx.clause("a:second-pass-equal");
                if changed {
                    ctx.clause("changed-by-formatting");
                }
                // non-trivial: the first pass actually formatted something of size
                ctx.held(fp, len >= 16 && changed);
                if ctx.want_sample() && changed && len >= 60 && i % 223 == 7 {
                    ctx.sample(json!({"family": case.family, "level": case.level_name, "cfg_delta": fo::config_delta(&case.cfg), "text": clip(&case.text, 400)}));
                }
            }
            Outcome::Bad(ni) => {
                let pre = sig_of(&ni);
                if ctx.sig_counts.get(&pre).copied().unwrap_or(0) >= 3 || shrinks >= 40 || shrink_cpu > if ctx.is_quick() { 6.0 } else { 120.0 } {
                    ctx.violated(&pre, &format!("pass1 {:?} pass2 {:?}", ni.first_diff_line.0, ni.first_diff_line.1), replay_json(&case.text, case.level_name, &case.cfg, case.family, case.text.len()));
                    continue;
                }
                shrinks += 1;
                let cpu0 = crate::util::thread_cpu();
                let (small, cfg, n2) = shrink(&case.text, case.level_name, &case.cfg, &ni);
                shrink_cpu += crate::util::thread_cpu() - cpu0;
                ctx.violated(
                    &sig_of(&n2),
                    &format!("{}; first differing line: pass 1 {:?}, pass 2 {:?}; shrunk input {:?}; cfg {:?}", n2.shape, n2.first_diff_line.0, n2.first_diff_line.1, clip(&small, 300), fo::config_delta(&cfg)),
                    replay_json(&small, case.level_name, &cfg, case.family, case.text.len()),
                );
            }
            Outcome::Panic(p) => {
                ctx.violated(&format!("C06:panic:{}", p.sig()), &format!("{} at {}", p.message, p.location), replay_json(&case.text, case.level_name, &case.cfg, case.family, case.text.len()));
            }
        }
    }

    // ---- stable core (see gen_core) ------------------------------------------------------
    let ncore = ctx.budget(1_500, 40_000);
    for i in 0..ncore {
        if ctx.out_of_time() {
            break;
        }
        let mut rng = Rng::new(ctx.case_seed(i) ^ 0xc06e);
        let (text, cfg) = gen_core(&mut rng);
        ctx.clause("family:stable-core");
        let fp = fnv(text.as_bytes()) ^ fnv(fo::config_to_json(&cfg).to_string().as_bytes());
        match eval(&text, "Lua54", &cfg) {
            Outcome::Held { changed, len } => {
                ctx.clause("c:stable-core-second-pass-equal");
                ctx.held(fp, len >= 16 && changed);
            }
            Outcome::Bad(ni) => {
                let sig = format!("C06:stable-core-not-idempotent:at={}", ni.at);
                let (small, cfg2, n2) = if ctx.sig_counts.get(&sig).copied().unwrap_or(0) < 2 { shrink(&text, "Lua54", &cfg, &ni) } else { (text.clone(), cfg.clone(), ni.clone()) };
                ctx.violated(
                    &format!("C06:stable-core-not-idempotent:at={}", n2.at),
                    &format!("{}; first differing line: pass 1 {:?}, pass 2 {:?}; input {:?}; cfg {:?}", n2.shape, n2.first_diff_line.0, n2.first_diff_line.1, clip(&small, 300), fo::config_delta(&cfg2)),
                    replay_json(&small, "Lua54", &cfg2, "stable-core", text.len()),
                );
            }
            Outcome::Panic(p) => {
                ctx.violated(&format!("C06:panic:{}", p.sig()), &format!("{} at {}", p.message, p.location), replay_json(&text, "Lua54", &cfg, "stable-core", text.len()));
            }
        }
    }

    // ---- CLI clause --------------------------------------------------------------------
    let bin = luafmt_path();
    if !std::path::Path::new(&bin).exists() {
        ctx.inconclusive("luafmt-binary-missing");
        return;
    }
    let rounds = ctx.budget(2, 13);
    let dir = format!("{}/c06-{}-{}", ctx.work, std::process::id(), ctx.shard);
    for r in 0..rounds {
        if cli_pool.is_empty() {
            break;
        }
        let mut rng = Rng::new(ctx.case_seed(1_000_000 + r));
        let mut cfg = fo::gen_config(&mut rng, "Lua55");
        cfg.syntax.level = fo::level_by_name("Lua55").1;
        let nfiles = rng.range(3, 12);
        let mut files: Vec<(String, String)> = Vec::new();
        for k in 0..nfiles {
            let (t, _) = &cli_pool[rng.below(cli_pool.len())];
            let name = if k % 4 == 3 { format!("sub/f{k}.lua") } else { format!("f{k}.lua") };
            files.push((name, t.clone()));
        }
        match cli_round(&dir, &files, &cfg) {
            Err(e) => {
                ctx.inconclusive(&format!("cli-harness:{}", fo::sanitize_msg(&e)));
            }
            Ok((wcode, ccode, listed, untouched)) => {
                ctx.clause("b:cli-check-after-write");
                ctx.extra_add("cli_files", files.len() as u64);
                if wcode != 0 {
                    // --write itself failed: not this property (exit 2 = could not format a file)
                    ctx.inconclusive(&format!("cli-write-exit-{wcode}"));
                    continue;
                }
                if !untouched {
                    ctx.violated("C06:cli-check-modified-files", "luafmt --check changed files on disk", json!({"cli": true, "text": "", "level": "Lua55", "cfg": fo::config_to_json(&cfg)}));
                    continue;
                }
                if ccode == 0 {
                    ctx.held(fnv(format!("cli{}{}", ctx.case_seed(1_000_000 + r), files.len()).as_bytes()), true);
                    continue;
                }
                // which file? re-derive in-process for the signature
                let mut reported = false;
                for (name, text) in &files {
                    if !listed.iter().any(|l| l.ends_with(name.as_str())) && !listed.is_empty() {
                        continue;
                    }
                    if let Outcome::Bad(ni) = eval(text, "Lua55", &cfg) {
                        let (small, scfg, n2) = shrink(text, "Lua55", &cfg, &ni);
                        // one signature: the root causes are the in-process ones (named in the detail)
                        let sig = "C06:cli-check-after-write".to_string();
                        let mut rj = replay_json(&small, "Lua55", &scfg, "cli", text.len());
                        rj["cli"] = json!(true);
                        rj["sig"] = json!(sig);
                        ctx.violated(&sig, &format!("luafmt --check exits {ccode} right after --write; file {name} ({}): pass 1 {:?} pass 2 {:?}", sig_of(&n2), n2.first_diff_line.0, n2.first_diff_line.1), rj);
                        reported = true;
                        break;
                    }
                }
                if !reported {
                    // the binary disagrees with the in-process result: report with the whole file set
                    ctx.violated("C06:cli-check-after-write", &format!("--check exit {ccode}, listed {listed:?}"), json!({"cli": true, "text": files[0].1, "level": "Lua55", "cfg": fo::config_to_json(&cfg)}));
                }
            }
        }
    }
    let _ = std::fs::remove_dir_all(&dir);
}
