//! C07 — range formatting only rewrites code around the selection.
//!
//! r = reformat_range(src, sel, cfg). Clauses:
//!   d no-result-on-errors : src has syntax errors ⇒ r is None
//!   r range-valid         : r.replace_range ⊆ [0, len], on char boundaries
//!   a covers-selection    : r.replace_range ⊇ hull of the code bytes inside the selection
//!   b splice-preserves    : C05 clauses 2–4 on (src, src[..s] + r.text + src[e..])
//! (c "text outside untouched" holds by construction of the splice; what is checked is that the
//! *reported* range makes the splice a faithful program.)

use crate::corpus::Corpus;
use crate::fmt_oracle::{self as fo, LK, Mismatch};
use crate::report::{Ctx, clip};
use crate::rng::{Rng, fnv};
use crate::util::{PanicInfo, guarded};
use emmylua_formatter::{LuaFormatConfig, SourceText, TextRange, reformat_range};
use emmylua_parser::{LuaSyntaxKind, LuaSyntaxNode};
use serde_json::{Value, json};

pub enum Outcome {
    /// source has syntax errors and no result was produced
    ErrNone,
    /// valid source, formatter declined
    Declined,
    Held { code_tokens: usize, changed: bool, target: String },
    Bad(Mismatch, String),
    Panic(PanicInfo),
}

fn target_kind(root: &LuaSyntaxNode, s: usize, e: usize) -> String {
    for n in root.descendants() {
        let r = n.text_range();
        if usize::from(r.start()) == s && usize::from(r.end()) == e {
            let k = n.kind().to_syntax();
            match k {
                LuaSyntaxKind::TableArrayExpr | LuaSyntaxKind::TableObjectExpr | LuaSyntaxKind::TableEmptyExpr => return "explicit:table".into(),
                LuaSyntaxKind::CallArgList => return "explicit:call-args".into(),
                LuaSyntaxKind::ParamList => return "explicit:params".into(),
                _ => {}
            }
        }
    }
    "lines".into()
}

pub fn eval(text: &str, sel: (usize, usize), level_name: &str, cfg: &LuaFormatConfig) -> Outcome {
    let level = fo::level_by_name(level_name).0;
    let src_tree = fo::parse(text, level);
    let range = TextRange::new((sel.0 as u32).into(), (sel.1.max(sel.0) as u32).into());
    let r = match guarded(|| reformat_range(&SourceText { text, level }, range, cfg)) {
        Ok(r) => r,
        Err(p) => return Outcome::Panic(p),
    };
    if src_tree.has_syntax_errors() {
        return match r {
            None => Outcome::ErrNone,
            Some(_) => Outcome::Bad(Mismatch { clause: "no-result-on-errors".into(), what: "some".into(), detail: "document has syntax errors but a range-format result was produced".into() }, "n/a".into()),
        };
    }
    let Some(r) = r else { return Outcome::Declined };
    let (s, e) = (usize::from(r.replace_range.start()), usize::from(r.replace_range.end()));
    if s > e || e > text.len() || !text.is_char_boundary(s) || !text.is_char_boundary(e) {
        return Outcome::Bad(Mismatch { clause: "range-valid".into(), what: if e > text.len() { "beyond-end".into() } else { "not-char-boundary".into() }, detail: format!("replace range {s}..{e} for a document of {} bytes", text.len()) }, "n/a".into());
    }
    let target = target_kind(&src_tree.get_red_root(), s, e);
    // a: hull of code bytes inside the (clamped) selection
    let (cs, ce) = (sel.0.min(text.len()), sel.1.min(text.len()));
    let mut hull: Option<(usize, usize)> = None;
    for t in fo::lex(text) {
        if t.kind == LK::Comment {
            continue;
        }
        let (ts, te) = (t.start, t.start + t.text.len());
        let (is, ie) = (ts.max(cs), te.min(ce));
        if is < ie {
            hull = Some(match hull {
                None => (is, ie),
                Some((a, b)) => (a.min(is), b.max(ie)),
            });
        }
    }
    if let Some((a, b)) = hull {
        if s > a || e < b {
            return Outcome::Bad(
                Mismatch { clause: "covers-selection".into(), what: if s > a { "starts-late".into() } else { "ends-early".into() }, detail: format!("selection {}..{} contains code at {a}..{b} but the replaced range is {s}..{e}", sel.0, sel.1) },
                target,
            );
        }
    }
    let mut spliced = String::with_capacity(text.len() + r.text.len());
    spliced.push_str(&text[..s]);
    spliced.push_str(&r.text);
    spliced.push_str(&text[e..]);
    match fo::judge_pair(text, &src_tree, &spliced, level, cfg) {
        Ok(ok) => Outcome::Held { code_tokens: ok.code_tokens, changed: spliced != text, target },
        Err(m) => {
            // Is this the whole-document formatter's own defect (a C05 finding) showing through, or specific to
            // range formatting? It is inherited if formatting the whole document, or the replaced fragment on its
            // own, with the same configuration shows the same clause and discriminator.
            let same = |o: crate::props::c05::Outcome| matches!(o, crate::props::c05::Outcome::Bad(m2) if m2.clause == m.clause && m2.what == m.what);
            let mut inherited = same(crate::props::c05::eval(text, level_name, cfg));
            if !inherited {
                // does the whole-document formatter preserve this fragment when it is formatted on its own?
                let frag = &text[s..e];
                let wrapped = match target.as_str() {
                    "explicit:table" => format!("local __t = {frag}"),
                    "explicit:call-args" => format!("__f{frag}"),
                    "explicit:params" => format!("local function __f{frag}\nend"),
                    _ => frag.to_string(),
                };
                inherited = matches!(crate::props::c05::eval(&wrapped, level_name, cfg), crate::props::c05::Outcome::Bad(_) | crate::props::c05::Outcome::Panic(_));
            }
            let detail = format!("{}; replaced {s}..{e} ({:?}) by {:?}", m.detail, clip(&text[s..e], 160), clip(&r.text, 160));
            if inherited {
                // one signature per C05 clause: the root causes are C05's findings
                Outcome::Bad(Mismatch { clause: "inherited-formatter-defect".into(), what: m.clause.clone(), detail: format!("[{}] {detail}", m.what) }, "any".into())
            } else if m.clause == "token-seq" && (m.what.starts_with("src=string:") || m.what.starts_with("src=long-string:")) && m.detail.contains('\n') {
                // a string token that spans lines was re-indented like code: one root cause whatever the context
                let class = if m.what.starts_with("src=string:") { "string" } else { "long-string" };
                Outcome::Bad(Mismatch { clause: "splice:token-seq".into(), what: format!("multi-line-token-reindented:{class}"), detail }, target)
            } else if m.clause == "comment-tokens" && m.what.contains("inner-whitespace") && m.detail.contains('\n') {
                // same root cause for a block comment that spans lines
                Outcome::Bad(Mismatch { clause: "splice:token-seq".into(), what: "multi-line-token-reindented:comment".into(), detail }, target)
            } else {
                Outcome::Bad(Mismatch { clause: format!("splice:{}", m.clause), what: m.what, detail }, target)
            }
        }
    }
}

fn sig_of(m: &Mismatch, target: &str) -> String {
    format!("C07:{}:{}:target={}", m.clause, m.what, target)
}

/// Selections for one document: offsets on char boundaries, start <= end, possibly beyond the end.
pub fn gen_selections(rng: &mut Rng, text: &str, root: &LuaSyntaxNode, max: usize) -> Vec<(usize, usize, &'static str)> {
    let len = text.len();
    let snap = |mut o: usize| -> usize {
        o = o.min(len);
        while !text.is_char_boundary(o) {
            o -= 1;
        }
        o
    };
    let nodes: Vec<LuaSyntaxNode> = root.descendants().collect();
    let stats: Vec<&LuaSyntaxNode> = nodes.iter().filter(|n| format!("{:?}", n.kind().to_syntax()).ends_with("Stat")).collect();
    let toks = fo::lex(text);
    let mut out = Vec::new();
    let n = rng.range(max.min(4), max);
    for _ in 0..n {
        let k = rng.below(14);
        let sel: (usize, usize, &'static str) = match k {
            0 => {
                let o = snap(rng.below(len + 1));
                (o, o, "empty")
            }
            1 | 2 if !toks.is_empty() => {
                // inside one token (possibly a comment or a long string)
                let t = &toks[rng.below(toks.len())];
                let l = t.text.len();
                let a = snap(t.start + rng.below(l));
                let b = snap(t.start + rng.range(0, l));
                (a.min(b), a.max(b), if t.kind == LK::Comment { "inside-comment" } else if t.kind == LK::LongStr { "inside-long-string" } else { "inside-token" })
            }
            3 | 4 if !stats.is_empty() => {
                let s = stats[rng.below(stats.len())].text_range();
                (usize::from(s.start()), usize::from(s.end()), "one-statement")
            }
            5 if stats.len() >= 2 => {
                let i = rng.below(stats.len() - 1);
                let a = stats[i].text_range();
                let b = stats[i + 1].text_range();
                let mid = snap((usize::from(b.start()) + usize::from(b.end())) / 2);
                let st = usize::from(a.start());
                (st.min(mid), st.max(mid), "statement-and-a-half")
            }
            6 | 7 if !nodes.is_empty() => {
                // some node: tables, argument lists, blocks, expressions
                let nd = nodes[rng.below(nodes.len())].text_range();
                let (a, b) = (usize::from(nd.start()), usize::from(nd.end()));
                if rng.bool() && b > a + 2 {
                    // strictly inside
                    (snap(a + 1), snap(b - 1).max(snap(a + 1)), "inside-node")
                } else {
                    (a, b, "node")
                }
            }
            8 => (0, len, "whole-file"),
            9 => {
                let a = snap(rng.below(len + 1));
                (a, len + rng.range(1, 100), "beyond-eof")
            }
            10 => (len + 3, len + 10, "all-beyond-eof"),
            11 => {
                // whole lines
                let a = snap(rng.below(len + 1));
                let ls = text[..a].rfind('\n').map(|p| p + 1).unwrap_or(0);
                let b = snap(rng.range(a, len));
                let le = text[b..].find('\n').map(|p| b + p + 1).unwrap_or(len);
                (ls, le, "whole-lines")
            }
            12 if toks.iter().any(|t| t.kind == LK::LongStr || (t.kind == LK::Comment && t.text.contains('\n'))) => {
                // inside a long string or a multi-line comment (the re-indentation hazard)
                let cands: Vec<&fo::LTok> = toks.iter().filter(|t| t.kind == LK::LongStr || (t.kind == LK::Comment && t.text.contains('\n'))).collect();
                let t = cands[rng.below(cands.len())];
                let l = t.text.len();
                let a = snap(t.start + rng.below(l));
                let b = snap(t.start + rng.range(0, l));
                (a.min(b), a.max(b), if t.kind == LK::LongStr { "inside-long-string" } else { "inside-comment" })
            }
            _ => {
                let a = snap(rng.below(len + 1));
                let b = snap(rng.below(len + 1));
                (a.min(b), a.max(b), "random")
            }
        };
        out.push(sel);
    }
    out
}

/// Shrink text and selection together: the selection is carried by two zero-length markers.
fn shrink(text: &str, sel: (usize, usize), level_name: &str, cfg: &LuaFormatConfig, m: &Mismatch, target: &str) -> (String, (usize, usize), LuaFormatConfig, Mismatch, String) {
    let level = fo::level_by_name(level_name).0;
    let max_errors = fo::error_count(text, level);
    let t0 = crate::util::thread_cpu();
    let cap = fo::shrink_cpu_cap();
    let same = |t: &str, s: (usize, usize), c: &LuaFormatConfig| -> bool {
        if crate::util::thread_cpu() - t0 > cap {
            return false;
        }
        if fo::error_count(t, level) > max_errors {
            return false;
        }
        match eval(t, s, level_name, c) {
            Outcome::Bad(m2, _) => m2.clause == m.clause && m2.what == m.what,
            _ => false,
        }
    };
    let cfg1 = fo::shrink_config(cfg, |c| same(text, sel, c));
    // the selection is carried through ddmin by two zero-length marker pieces (tag 1 = start, 2 = end)
    let beyond = (sel.0.saturating_sub(text.len()), sel.1.saturating_sub(text.len()));
    let realize = |p: &[(String, u8)]| -> Option<(String, (usize, usize))> {
        let mut t = String::new();
        let (mut sa, mut sb) = (None, None);
        for (s, tag) in p {
            match tag {
                1 => sa = Some(t.len()),
                2 => sb = Some(t.len()),
                _ => t.push_str(s),
            }
        }
        let (sa, sb) = (sa?, sb?);
        if sa > sb {
            return None;
        }
        // selections that reached beyond the end keep doing so
        let len = t.len();
        let sa = if beyond.0 > 0 { len + beyond.0 } else { sa };
        let sb = if beyond.1 > 0 { len + beyond.1 } else { sb };
        Some((t, (sa, sb)))
    };
    let mut cur_text = text.to_string();
    let mut cur_sel = sel;
    for pass in 0..3 {
        let units: Vec<String> = match pass {
            0 => cur_text.split_inclusive('\n').map(|s| s.to_string()).collect(),
            1 => crate::gens::soup::split_keep_ws(&cur_text),
            _ => {
                if cur_text.chars().count() > 300 {
                    break;
                }
                cur_text.chars().map(|c| c.to_string()).collect()
            }
        };
        // markers refer to the current text
        let (a2, b2) = (cur_sel.0.min(cur_text.len()), cur_sel.1.min(cur_text.len()));
        let pieces = {
            // rebuild with current offsets
            let mut out: Vec<(String, u8)> = Vec::new();
            let mut pos = 0usize;
            let mut pa = false;
            let mut pb = false;
            for u in units {
                let mut cuts: Vec<(usize, u8)> = Vec::new();
                if !pa && a2 >= pos && a2 < pos + u.len() {
                    cuts.push((a2 - pos, 1));
                    pa = true;
                }
                if !pb && b2 >= pos && b2 < pos + u.len() {
                    cuts.push((b2 - pos, 2));
                    pb = true;
                }
                cuts.sort();
                let mut last = 0;
                for (off, tag) in cuts {
                    if off > last {
                        out.push((u[last..off].to_string(), 0));
                    }
                    out.push((String::new(), tag));
                    last = off;
                }
                if last < u.len() {
                    out.push((u[last..].to_string(), 0));
                }
                pos += u.len();
            }
            if !pa {
                out.push((String::new(), 1));
            }
            if !pb {
                out.push((String::new(), 2));
            }
            out
        };
        let small = crate::util::ddmin(pieces, |p| realize(p).map(|(t, s)| same(&t, s, &cfg1)).unwrap_or(false), 1200);
        if let Some((t, s)) = realize(&small) {
            if same(&t, s, &cfg1) {
                cur_text = t;
                cur_sel = s;
            }
        }
    }
    let cfg2 = fo::shrink_config(&cfg1, |c| same(&cur_text, cur_sel, c));
    match eval(&cur_text, cur_sel, level_name, &cfg2) {
        Outcome::Bad(m2, t2) => (cur_text, cur_sel, cfg2, m2, t2),
        _ => (text.to_string(), sel, cfg.clone(), m.clone(), target.to_string()),
    }
}

fn replay_json(text: &str, sel: (usize, usize), level_name: &str, cfg: &LuaFormatConfig, family: &str, selkind: &str, original_len: usize) -> Value {
    json!({"text": text, "sel": [sel.0, sel.1], "level": level_name, "cfg": fo::config_to_json(cfg), "cfg_delta": fo::config_delta(cfg), "family": family, "selection_kind": selkind, "original_len": original_len})
}

pub fn run(ctx: &mut Ctx) {
    if let Some(rep) = ctx.replay.clone() {
        let text = rep["text"].as_str().unwrap_or("").to_string();
        let level = rep["level"].as_str().unwrap_or("Lua55").to_string();
        let cfg = fo::config_from_json(&rep["cfg"]);
        let sel = (rep["sel"][0].as_u64().unwrap_or(0) as usize, rep["sel"][1].as_u64().unwrap_or(0) as usize);
        println!("replay: document {:?} selection {}..{}", clip(&text, 600), sel.0, sel.1);
        match eval(&text, sel, &level, &cfg) {
            Outcome::ErrNone => {
                println!("replay: held (document has syntax errors, no result)");
                ctx.held(fnv(text.as_bytes()), false);
            }
            Outcome::Declined => {
                println!("replay: held (no result produced)");
                ctx.held(fnv(text.as_bytes()), false);
            }
            Outcome::Held { code_tokens, target, .. } => {
                println!("replay: held ({code_tokens} code tokens preserved after splicing, target {target})");
                ctx.held(fnv(text.as_bytes()), true);
            }
            Outcome::Bad(m, target) => {
                println!("replay: VIOLATED {}: {}", sig_of(&m, &target), m.detail);
                ctx.violated(&sig_of(&m, &target), &m.detail, rep);
            }
            Outcome::Panic(p) => {
                println!("replay: PANIC {}", p.sig());
                ctx.violated(&format!("C07:panic:{}", p.sig()), &p.message, rep);
            }
        }
        return;
    }
    let corpus = Corpus::load(&ctx.repo);
    ctx.extra_set("corpus_items", json!(corpus.len()));
    if corpus.snippets.is_empty() || corpus.std_files.is_empty() {
        ctx.inconclusive("corpus-empty");
        return;
    }
    let n = ctx.budget(1_000, 30_000);
    let mut shrinks = 0u32;
    let mut shrink_cpu = 0f64;
    for i in 0..n {
        if ctx.out_of_time() {
            break;
        }
        let mut rng = Rng::new(ctx.case_seed(i) ^ 0x7c07);
        let big = !ctx.is_quick() && i % 10 == 0;
        let case = fo::gen_case(&mut rng, &corpus, big);
        if case.text.len() > 30_000 {
            continue;
        }
        ctx.clause(&format!("family:{}", case.family));
        let level = fo::level_by_name(case.level_name).0;
        let tree = fo::parse(&case.text, level);
        let sels = gen_selections(&mut rng, &case.text, &tree.get_red_root(), if tree.has_syntax_errors() { 3 } else { 12 });
        for (a, b, selkind) in sels {
            let fp = fnv(case.text.as_bytes()) ^ fnv(fo::config_to_json(&case.cfg).to_string().as_bytes()) ^ crate::rng::mix(a as u64, b as u64);
            match eval(&case.text, (a, b), case.level_name, &case.cfg) {
                Outcome::ErrNone => {
                    ctx.clause("d:no-result-on-errors");
                    ctx.held(fp, false);
                }
                Outcome::Declined => {
                    ctx.clause("declined");
                    ctx.held(fp, false);
                }
                Outcome::Held { code_tokens, changed, target } => {
                    ctx.clause("r:range-valid");
                    ctx.clause("a:covers-selection");
                    ctx.clause("b:splice-preserves");
                    ctx.clause(&format!("target:{target}"));
                    ctx.clause(&format!("selection:{selkind}"));
                    if changed {
                        ctx.clause("changed-by-formatting");
                    }
                    ctx.held(fp, code_tokens >= 8);
                    if ctx.want_sample() && changed && code_tokens >= 8 && i % 97 == 3 {
                        ctx.sample(json!({"family": case.family, "selection": [a, b], "selection_kind": selkind, "target": target, "cfg_delta": fo::config_delta(&case.cfg), "text": clip(&case.text, 400)}));
                    }
                }
                Outcome::Bad(m, target) => {
                    let pre = sig_of(&m, &target);
                    if ctx.sig_counts.get(&pre).copied().unwrap_or(0) >= 3 || shrinks >= 40 || shrink_cpu > if ctx.is_quick() { 6.0 } else { 120.0 } {
                        ctx.violated(&pre, &m.detail, replay_json(&case.text, (a, b), case.level_name, &case.cfg, case.family, selkind, case.text.len()));
                        continue;
                    }
                    shrinks += 1;
                    let cpu0 = crate::util::thread_cpu();
                    let (st, ss, sc, m2, t2) = shrink(&case.text, (a, b), case.level_name, &case.cfg, &m, &target);
                    shrink_cpu += crate::util::thread_cpu() - cpu0;
                    ctx.violated(&sig_of(&m2, &t2), &format!("{}; shrunk document {:?} selection {}..{}; cfg {:?}", m2.detail, clip(&st, 300), ss.0, ss.1, fo::config_delta(&sc)), replay_json(&st, ss, case.level_name, &sc, case.family, selkind, case.text.len()));
                }
                Outcome::Panic(p) => {
                    ctx.violated(&format!("C07:panic:{}", p.sig()), &format!("{} at {}", p.message, p.location), replay_json(&case.text, (a, b), case.level_name, &case.cfg, case.family, selkind, case.text.len()));
                }
            }
        }
    }
}
