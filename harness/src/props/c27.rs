//! C27 — document notifications take effect in message order (SimServer, E2).

use crate::report::Ctx;
use crate::rng::Rng;
use crate::simscript::*;
use serde_json::json;

/// Drop operations that violate the client side of the protocol (after shrinking).
pub fn sanitize(script: &Script) -> Script {
    let mut open = vec![false; script.docs.len()];
    let mut ops = Vec::new();
    for op in &script.ops {
        let ok = match op {
            Op::Open(d) => {
                let ok = !open[*d];
                if ok {
                    open[*d] = true;
                }
                ok
            }
            Op::Change(d) | Op::Save(d) => open[*d],
            Op::Close(d) => {
                let ok = open[*d];
                if ok {
                    open[*d] = false;
                }
                ok
            }
            _ => true,
        };
        if ok {
            ops.push(op.clone());
        }
    }
    Script { ops, ..script.clone() }
}

fn last_doc_ops(script: &Script, d: usize) -> String {
    let v: Vec<&str> = script
        .ops
        .iter()
        .filter_map(|op| match op {
            Op::Open(x) if *x == d => Some("open"),
            Op::Change(x) if *x == d => Some("change"),
            Op::Close(x) if *x == d => Some("close"),
            _ => None,
        })
        .collect();
    let n = v.len();
    v[n.saturating_sub(2)..].join(",")
}

/// The C27 oracle over one outcome. Returns (signature, detail) of the first refuted clause.
pub fn oracle(script: &Script, o: &Outcome) -> Option<(String, String)> {
    for d in 0..script.docs.len() {
        let disk = if script.docs[d].on_disk { "on-disk" } else { "not-on-disk" };
        match &o.model.editor[d] {
            Some(t) => {
                if !o.final_open[d] {
                    return Some((format!("C27:open-document-treated-as-closed:last-ops={}:{disk}", last_doc_ops(script, d)), format!("doc{d} was opened/changed last but the server does not list it as open")));
                }
                if o.final_text[d].as_deref() != Some(t.as_str()) {
                    let obs = match &o.final_text[d] {
                        None => "absent".to_string(),
                        Some(x) if x.starts_with(&format!("local d{d}_v")) => "older-version".to_string(),
                        Some(x) if x.starts_with("local disk") => "disk-content".to_string(),
                        Some(_) => "other".to_string(),
                    };
                    return Some((
                        format!("C27:analysed-text-not-last-notification:observed={obs}:last-ops={}:{disk}", last_doc_ops(script, d)),
                        format!("doc{d}: last notification text {:?}, analysis holds {:?}", t, o.final_text[d]),
                    ));
                }
                // protocol-boundary view
                let marker = format!("d{d}_v{}", o.model.version[d]);
                match &o.symbols_view[d] {
                    Some(s) if s.contains(&marker) => {}
                    Some(s) => {
                        return Some((format!("C27:documentSymbol-shows-other-text:last-ops={}:{disk}", last_doc_ops(script, d)), format!("doc{d}: expected symbol {marker}, got {}", crate::report::clip(s, 200))));
                    }
                    None => {} // no response: C24's business
                }
            }
            None => {
                if o.final_open[d] {
                    return Some((format!("C27:closed-document-treated-as-open:last-ops={}:{disk}", last_doc_ops(script, d)), format!("doc{d} was closed last but the server still lists it as open")));
                }
                if !script.docs[d].on_disk && o.model.disk[d].is_none() && o.final_text[d].is_some() && o.model.version[d] > 0 {
                    return Some((format!("C27:closed-non-disk-document-still-analysed:last-ops={}", last_doc_ops(script, d)), format!("doc{d} (not on disk) was closed last but the analysis still holds {:?}", o.final_text[d])));
                }
            }
        }
    }
    None
}

pub const FLAVOR: Flavor = Flavor { reloads: false, requests: true, malformed: false, disk_events: false, saves: false };

pub fn judge(ctx: &mut Ctx, script: &Script, shrink: bool) {
    let o = run_script(script, &ctx.work.clone(), true);
    if o.wedged || !o.stalled_dispatch.is_empty() {
        ctx.inconclusive("server-wedged(reported-by-C28)");
        return;
    }
    if !o.settled {
        ctx.inconclusive("not-settled");
        return;
    }
    ctx.clause_n("lock-events-observed", o.lock_events.len() as u64);
    let ih = interleaving_hash(&o.lock_events);
    match oracle(script, &o) {
        None => {
            ctx.clause("final-state-checked");
            let docs_ops = script.ops.iter().filter(|op| matches!(op, Op::Open(_) | Op::Change(_) | Op::Close(_))).count();
            ctx.held(ih, docs_ops >= 3);
            if ctx.want_sample() && docs_ops >= 5 && ih % 13 == 0 {
                ctx.sample(json!({"script": script_to_json(script), "virtual_ms": o.virtual_ms, "lock_events": o.lock_events.len(), "final_text": o.final_text}));
            }
        }
        Some((sig, detail)) => {
            let mut best = script.clone();
            if shrink {
                let work = ctx.work.clone();
                let ops = crate::util::ddmin(script.ops.clone(), |ops| {
                    let s = sanitize(&Script { ops: ops.to_vec(), ..script.clone() });
                    let o2 = run_script(&s, &work, true);
                    o2.settled && oracle(&s, &o2).is_some()
                }, 120);
                best = sanitize(&Script { ops, ..script.clone() });
            }
            let o2 = run_script(&best, &ctx.work.clone(), true);
            let (sig2, detail2) = oracle(&best, &o2).unwrap_or((sig, detail));
            ctx.violated(&sig2, &format!("{detail2}; script {}", script_to_json(&best)["ops"]), script_to_json(&best));
        }
    }
}

pub fn run(ctx: &mut Ctx) {
    crate::util::private_home(&ctx.work.clone(), "c27");
    if let Some(rep) = ctx.replay.clone() {
        if rep["stdio"].as_bool().unwrap_or(false) {
            judge_stdio(ctx, &crate::lspstdio::case_from_json(&rep));
            println!("replay: signatures {:?}", ctx.sig_counts.keys().collect::<Vec<_>>());
            return;
        }
        let s = script_from_json(&rep);
        judge(ctx, &s, false);
        println!("replay: signatures {:?}", ctx.sig_counts.keys().collect::<Vec<_>>());
        return;
    }
    let n = ctx.budget(150, 6000);
    let mut distinct = std::collections::BTreeSet::new();
    for i in 0..n {
        if ctx.out_of_time() {
            break;
        }
        let mut rng = Rng::new(ctx.case_seed(i));
        let nops = rng.range(4, 24);
        let mut script = gen_script(&mut rng, FLAVOR, nops);
        // a share of scripts is the targeted family: rapid open+change pairs without any pause
        if i % 4 == 0 {
            script.ops.retain(|op| !matches!(op, Op::Advance(_) | Op::Pump));
        }
        // several schedule seeds per script
        for k in 0..3u64 {
            let mut s = script.clone();
            s.sched_seed = if k == 0 { 0 } else { rng.next_u64() | 1 };
            let before = ctx.fps.len();
            judge(ctx, &s, true);
            if ctx.fps.len() > before {
                distinct.insert(ctx.fps.len());
            }
        }
    }
    ctx.extra_add("distinct_interleavings", ctx.fps.len() as u64);
    // ---- the shipped binary over real stdio: document traffic sent right after `initialized`, i.e. queued in
    //      ServerMessageProcessor::pending_messages while the workspace is initialised, on the real
    //      multi-threaded runtime; the protocol-boundary view (documentSymbol) must show the last text ----
    let ns = ctx.budget(3, 40);
    for i in 0..ns {
        if ctx.out_of_time() {
            break;
        }
        let mut rng = Rng::new(ctx.case_seed(i) ^ 0xc27_57d10);
        let case = crate::lspstdio::gen_case_with_edits(&mut rng, i as usize);
        judge_stdio(ctx, &case);
    }
}

pub fn judge_stdio(ctx: &mut Ctx, case: &crate::lspstdio::StdioCase) {
    use crate::lspstdio as st;
    let o = match st::run_case(&ctx.work.clone(), ctx.shard, case) {
        Ok(o) => o,
        Err(e) => {
            ctx.inconclusive(&format!("stdio-harness:{}", e.split(':').next().unwrap_or("")));
            return;
        }
    };
    if let Some(r) = &o.inconclusive {
        ctx.inconclusive(r);
        return;
    }
    if o.died_early.is_some() || o.sentinel_overtook {
        // a C24 matter (reported there); nothing to judge here
        ctx.inconclusive("stdio-session-incomplete(reported-by-C24)");
        return;
    }
    ctx.clause("stdio:process-run");
    ctx.clause_n("stdio:document-notifications", case.edits.iter().map(|e| e.len() as u64 + 1).sum());
    ctx.clause_n("stdio:document-views-checked", o.doc_views.iter().filter(|v| v.4.is_some()).count() as u64);
    let v = st::oracle_c27(case, &o);
    if v.is_empty() {
        ctx.clause("stdio:final-state-checked");
        let h = crate::rng::fnv(st::case_to_json(case).to_string().as_bytes());
        ctx.held(h, case.edits.iter().map(|e| e.len()).sum::<usize>() >= 2);
        return;
    }
    let mut first = true;
    for (sig, detail) in v {
        if first {
            first = false;
            ctx.violated(&sig, &detail, st::case_to_json(case));
        } else {
            ctx.add_violation(&sig, &detail, st::case_to_json(case));
        }
    }
}
