//! C25 — position-based requests handle any position without crashing (SimServer E2).

use crate::corpus::Corpus;
use crate::gens::soup;
use crate::lspdrive::*;
use crate::report::{Ctx, clip};
use crate::rng::{Rng, fnv};
use serde_json::{Value, json};

/// (method, needs) — needs: "pos" | "range" | "positions" | "rename" | "refs" | "ontype"
pub const METHODS: &[(&str, &str)] = &[
    ("textDocument/hover", "pos"),
    ("textDocument/definition", "pos"),
    ("textDocument/implementation", "pos"),
    ("textDocument/references", "refs"),
    ("textDocument/prepareRename", "pos"),
    ("textDocument/rename", "rename"),
    ("textDocument/completion", "pos"),
    ("textDocument/signatureHelp", "pos"),
    ("textDocument/documentHighlight", "pos"),
    ("textDocument/selectionRange", "positions"),
    ("textDocument/inlineValue", "inline"),
    ("textDocument/prepareCallHierarchy", "pos"),
    ("textDocument/codeAction", "range"),
    ("textDocument/rangeFormatting", "fmtrange"),
    ("textDocument/onTypeFormatting", "ontype"),
    ("textDocument/inlayHint", "range"),
];

fn params_for(kind: &str, td: &Value, p: (u32, u32), q: (u32, u32)) -> Value {
    let range = json!({"start": pos(p.0, p.1), "end": pos(q.0, q.1)});
    match kind {
        "pos" => json!({"textDocument": td, "position": pos(p.0, p.1)}),
        "refs" => json!({"textDocument": td, "position": pos(p.0, p.1), "context": {"includeDeclaration": true}}),
        "rename" => json!({"textDocument": td, "position": pos(p.0, p.1), "newName": "zz_new"}),
        "positions" => json!({"textDocument": td, "positions": [pos(p.0, p.1), pos(q.0, q.1)]}),
        "inline" => json!({"textDocument": td, "range": range, "context": {"frameId": 1, "stoppedLocation": range}}),
        "range" => json!({"textDocument": td, "range": range, "context": {"diagnostics": []}}),
        "fmtrange" => json!({"textDocument": td, "range": range, "options": {"tabSize": 4, "insertSpaces": true}}),
        "ontype" => json!({"textDocument": td, "position": pos(p.0, p.1), "ch": "\n", "options": {"tabSize": 4, "insertSpaces": true}}),
        _ => json!({"textDocument": td}),
    }
}

fn class_of(p: (u32, u32), lines: &Lines) -> &'static str {
    if p.0 == u32::MAX || p.1 == u32::MAX {
        "u32-max"
    } else if p.0 >= lines.count() {
        "line-beyond-document"
    } else if p.1 > lines.lens_scalar[p.0 as usize] {
        "character-beyond-line"
    } else {
        "in-range"
    }
}

#[derive(Default)]
struct Res {
    calls: u64,
    out_of_range_calls: u64,
    violations: Vec<(String, String, Value)>,
}

fn run_doc(work: &str, text: &str, positions: Vec<((u32, u32), (u32, u32))>, methods: Vec<usize>) -> Res {
    let _ = crate::util::take_global_panics();
    let text_owned = text.to_string();
    run_session(work, text, json!({}), async move |s: &mut DocSession| {
        let mut res = Res::default();
        let td = s.td();
        for (p, q) in &positions {
            for &mi in &methods {
                let (method, kind) = METHODS[mi];
                let params = params_for(kind, &td, *p, *q);
                let r = s.call(method, params.clone()).await;
                res.calls += 1;
                let pc = class_of(*p, &s.lines);
                if pc != "in-range" || class_of(*q, &s.lines) != "in-range" {
                    res.out_of_range_calls += 1;
                }
                let panics = crate::util::take_global_panics();
                let replay = json!({"text": text_owned, "p": [p.0, p.1], "q": [q.0, q.1], "method": mi});
                match r {
                    None => {
                        let psig = panics.first().map(|x| x.sig()).unwrap_or_else(|| "no-panic-recorded".into());
                        res.violations.push((format!("C25:no-response:method={method}:position={pc}:{psig}"), format!("no response within 120 virtual seconds; panics {:?}", panics.iter().map(|x| format!("{} at {}", x.message, x.location)).collect::<Vec<_>>()), replay));
                    }
                    Some(resp) => {
                        if !panics.is_empty() {
                            let x = &panics[0];
                            res.violations.push((
                                format!("C25:handler-panicked:method={method}:position={pc}:{}", x.sig()),
                                format!("{} at {}; frames {:?}; response error {:?}", x.message, x.location, x.frames, resp.error.map(|e| e.code)),
                                replay,
                            ));
                        } else if let Some(e) = resp.error {
                            // an error without a panic: InternalError means the task died some other way
                            if e.code == -32603 {
                                res.violations.push((format!("C25:internal-error:method={method}:position={pc}"), format!("InternalError response: {}", e.message), replay));
                            }
                        }
                    }
                }
            }
        }
        res
    })
}

fn gen_positions(rng: &mut Rng, text: &str, n_in: usize) -> Vec<((u32, u32), (u32, u32))> {
    let lines = Lines::new(text);
    let b = token_boundaries(text);
    let mut out = Vec::new();
    let picks = sample(rng, &b, n_in);
    for (i, p) in picks.iter().enumerate() {
        let q = picks.get(i + 1 + rng.below(3)).copied().unwrap_or(*p);
        out.push((*p, q));
    }
    let last_line = lines.count().saturating_sub(1);
    let l = rng.below(lines.count() as usize) as u32;
    let len = lines.lens_scalar[l as usize];
    // out-of-range points and reversed ranges
    let oor = [
        ((l, len + 1), (l, len + 1)),
        ((l, len + 100), (l, len + 200)),
        ((l, u32::MAX), (l, u32::MAX)),
        ((lines.count(), 0), (lines.count(), 0)),
        ((lines.count() + 1, 3), (lines.count() + 5, 0)),
        ((u32::MAX, u32::MAX), (u32::MAX, u32::MAX)),
        ((last_line, lines.lens_scalar[last_line as usize]), (0, 0)), // reversed
        ((0, 0), (u32::MAX, 0)),
    ];
    for o in oor {
        out.push(o);
    }
    out
}

fn gen_doc(rng: &mut Rng, corpus: &Corpus) -> (String, &'static str) {
    match rng.below(14) {
        10..=13 => (feature_doc(rng), "feature-snippets"),
        0..=4 => (corpus.pick(rng).to_string(), "corpus"),
        5..=7 => {
            let b = corpus.pick(rng);
            (soup::mutate(rng, b), "corpus-mutant")
        }
        8 => (format!("local é = '😀'\n---@type string\nlocal s = é\nprint(s:upper())\r\nlocal t = {{ a = 1, ['b'] = s }}\nreturn t.a"), "non-ascii"),
        _ => (soup::soup(rng, 40), "soup"),
    }
}

pub fn run(ctx: &mut Ctx) {
    crate::util::private_home(&ctx.work.clone(), "c25");
    if let Some(rep) = ctx.replay.clone() {
        let text = rep["text"].as_str().unwrap_or("").to_string();
        let p = (rep["p"][0].as_u64().unwrap_or(0) as u32, rep["p"][1].as_u64().unwrap_or(0) as u32);
        let q = (rep["q"][0].as_u64().unwrap_or(0) as u32, rep["q"][1].as_u64().unwrap_or(0) as u32);
        let mi = rep["method"].as_u64().unwrap_or(0) as usize;
        let r = run_doc(&ctx.work.clone(), &text, vec![(p, q)], vec![mi]);
        if r.violations.is_empty() {
            ctx.held(1, true);
        }
        for (sig, d, rp) in r.violations {
            ctx.violated(&sig, &d, rp);
        }
        println!("replay: signatures {:?}", ctx.sig_counts.keys().collect::<Vec<_>>());
        return;
    }
    let corpus = Corpus::load(&ctx.repo);
    if corpus.is_empty() {
        ctx.inconclusive("corpus-empty");
        return;
    }
    let n = ctx.budget(400, 20000);
    for i in 0..n {
        if ctx.out_of_time() {
            break;
        }
        let mut rng = Rng::new(ctx.case_seed(i));
        let (text, fam) = gen_doc(&mut rng, &corpus);
        if text.len() > 6000 {
            continue;
        }
        let mut positions = gen_positions(&mut rng, &text, 10);
        if fam == "feature-snippets" {
            // cursor anywhere, not only at token boundaries (after trigger characters, inside argument lists)
            let all = all_positions(&text);
            for p in sample(&mut rng, &all, 40) {
                positions.push((p, p));
            }
        }
        let methods: Vec<usize> = (0..METHODS.len()).collect();
        let npos = positions.len();
        let r = run_doc(&ctx.work.clone(), &text, positions, methods);
        ctx.clause(&format!("family:{fam}"));
        ctx.clause_n("requests-answered", r.calls);
        ctx.clause_n("out-of-range-requests", r.out_of_range_calls);
        if r.violations.is_empty() {
            ctx.held(fnv(text.as_bytes()), r.calls >= 50);
            if ctx.want_sample() && i % 7 == 3 {
                ctx.sample(json!({"family": fam, "text": clip(&text, 200), "positions": npos, "requests": r.calls}));
            }
        } else {
            let mut first = true;
            let mut seen = std::collections::BTreeSet::new();
            for (sig, d, rp) in r.violations {
                if !seen.insert(sig.clone()) {
                    continue;
                }
                if first {
                    ctx.violated(&sig, &d, rp);
                    first = false;
                } else {
                    ctx.add_violation(&sig, &d, rp);
                }
            }
        }
    }
}
