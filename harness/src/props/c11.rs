//! C11 — analysis results do not depend on file order or hash seeds.
//!
//! Hash seeds cannot be set, only resampled. For every generated workspace (same files, same
//! configuration, same registration order) the worker
//!   * analyses it K times in-process, every time in a brand-new `EmmyLuaAnalysis` (new
//!     `RandomState`s), through the *production* batch entry point `update_files_by_uri`, and
//!     K times through the deterministic "sorted" path (texts registered, then analysed in
//!     file-id order — what `reindex` does);
//!   * spawns P fresh child processes (`current_exe() C11 --replay <child file>`), each doing
//!     the same K+K analyses with a new process-wide hash seed and address-space layout;
//! and demands one single dump (`observe`, member listings inside rendered types sorted) per
//! entry point over all (P+1)·K samples.

use super::c08::{classify, primary_section};
use crate::gens::workspace::{self as gw, Case, GenOpts, Load, Setup, Workspace};
use crate::observe::{self, Diff};
use crate::report::{Ctx, clip};
use crate::rng::Rng;
use crate::util::guarded;
use serde_json::{Value, json};
use std::collections::BTreeMap;

const ENTRIES: [(&str, Load); 2] = [("production", Load::Production), ("sorted", Load::Sorted)];

/// K fresh analyses through one entry point: hash -> (count, dump).
fn sample(ws: &Workspace, load: Load, k: usize, into: &mut BTreeMap<u64, (usize, Value)>) {
    for _ in 0..k {
        let a = ws.build(load);
        let d = observe::observe(&a);
        let h = observe::dump_hash(&d);
        into.entry(h).or_insert((0, d)).0 += 1;
    }
}

/// What a child process does: K samples per entry point, written to `out`.
fn child(rep: &Value) {
    let Some(ws) = rep.get("ws").and_then(|w| serde_json::from_value::<Workspace>(w.clone()).ok()) else { return };
    let k = rep["k"].as_u64().unwrap_or(4) as usize;
    let out = rep["out"].as_str().unwrap_or("").to_string();
    let mut res = serde_json::Map::new();
    for (name, load) in ENTRIES {
        let mut m = BTreeMap::new();
        let r = guarded(|| sample(&ws, load, k, &mut m));
        let mut e = serde_json::Map::new();
        for (h, (n, d)) in m {
            e.insert(format!("{h:016x}"), json!({"n": n, "dump": d}));
        }
        if let Err(p) = r {
            e.insert("panic".into(), json!(p.sig()));
        }
        res.insert(name.to_string(), Value::Object(e));
    }
    let tmp = format!("{out}.tmp");
    if std::fs::write(&tmp, Value::Object(res).to_string()).is_ok() {
        let _ = std::fs::rename(&tmp, &out);
    }
}

/// Runs P child processes concurrently and merges their samples. Returns the number of
/// children that delivered a result.
fn children(ctx: &Ctx, ws: &Workspace, p: usize, k: usize, tag: &str, into: &mut [BTreeMap<u64, (usize, Value)>; 2]) -> usize {
    let Ok(exe) = std::env::current_exe() else { return 0 };
    let dir = format!("{}/c11-{}-{}", ctx.work, std::process::id(), ctx.shard);
    let _ = std::fs::create_dir_all(&dir);
    let mut procs = Vec::new();
    for i in 0..p {
        let out = format!("{dir}/{tag}-{i}.out.json");
        let rep = format!("{dir}/{tag}-{i}.child.json");
        let j = json!({"child": true, "ws": ws, "k": k, "out": out});
        if std::fs::write(&rep, j.to_string()).is_err() {
            continue;
        }
        let c = std::process::Command::new(&exe)
            .args(["C11", "--replay", &rep])
            .stdin(std::process::Stdio::null())
            .stdout(std::process::Stdio::null())
            .stderr(std::process::Stdio::null())
            .spawn();
        if let Ok(c) = c {
            procs.push((c, out, rep));
        }
    }
    let mut ok = 0;
    for (mut c, out, rep) in procs {
        let _ = c.wait();
        if let Ok(s) = std::fs::read_to_string(&out) {
            if let Ok(v) = serde_json::from_str::<Value>(&s) {
                ok += 1;
                for (ei, (name, _)) in ENTRIES.iter().enumerate() {
                    if let Some(e) = v.get(*name).and_then(|e| e.as_object()) {
                        for (h, x) in e {
                            let Ok(h) = u64::from_str_radix(h, 16) else { continue };
                            let n = x["n"].as_u64().unwrap_or(0) as usize;
                            into[ei].entry(h).or_insert((0, x["dump"].clone())).0 += n;
                        }
                    }
                }
            }
        }
        let _ = std::fs::remove_file(&out);
        let _ = std::fs::remove_file(&rep);
    }
    let _ = std::fs::remove_dir(&dir);
    ok
}

/// First two distinct dumps (smallest hashes: deterministic choice) and their diff.
fn first_diff(m: &BTreeMap<u64, (usize, Value)>) -> Option<Vec<Diff>> {
    let mut it = m.values();
    let a = it.next()?;
    let b = it.next()?;
    Some(observe::diff(&a.1, &b.1))
}

/// (section, discriminator) of the difference between the first two distinct dumps.
fn classify_first(m: &BTreeMap<u64, (usize, Value)>, ws: &Workspace) -> (String, String) {
    let mut it = m.values();
    match (it.next(), it.next()) {
        (Some(a), Some(b)) => classify(&a.1, &b.1, &observe::diff(&a.1, &b.1), &Case { ws: ws.clone(), setup: Setup::Sorted, steps: vec![] }),
        _ => ("none".into(), "-".into()),
    }
}

/// In-process predicate used for shrinking: among `n` fresh analyses at least two dumps, and
/// the primary differing section is `section`.
fn unstable_in_process(ws: &Workspace, load: Load, n: usize, section: &str) -> bool {
    let mut m = BTreeMap::new();
    if guarded(|| sample(ws, load, n, &mut m)).is_err() {
        return false;
    }
    if m.len() < 2 {
        return false;
    }
    // any pair with the wanted primary section
    let dumps: Vec<&Value> = m.values().map(|x| &x.1).collect();
    for i in 0..dumps.len() {
        for j in i + 1..dumps.len() {
            if primary_section(&observe::diff(dumps[i], dumps[j])) == section {
                return true;
            }
        }
    }
    false
}

fn gen_ws(rng: &mut Rng, quick: bool) -> Workspace {
    // a third of the workspaces are require cycles whose members claim the same field (the
    // dependency graph does not fix their analysis order)
    if rng.chance(1, 3) {
        return gw::gen_cycle_workspace(rng);
    }
    gw::gen_workspace(rng, &GenOpts { min_files: 3, max_files: if quick { 7 } else { 8 }, max_chunks: 6, order_bias: true })
}

/// Structural discriminator of a (shrunk) witness: how its files depend on each other.
fn shape(ws: &Workspace) -> &'static str {
    let texts: Vec<String> = ws.files.iter().map(|f| f.text()).collect();
    let req = |i: usize, j: usize| texts[i].contains(&format!("require(\"{}\")", ws.files[j].module));
    let n = ws.files.len();
    if (0..n).any(|i| req(i, i)) {
        return "self-require";
    }
    // reachability closure
    let mut reach = vec![vec![false; n]; n];
    for i in 0..n {
        for j in 0..n {
            reach[i][j] = req(i, j);
        }
    }
    for k in 0..n {
        for i in 0..n {
            for j in 0..n {
                if reach[i][k] && reach[k][j] {
                    reach[i][j] = true;
                }
            }
        }
    }
    if (0..n).any(|i| reach[i][i]) { "require-cycle" } else { "acyclic" }
}

#[allow(clippy::too_many_arguments)]
fn report_violation(ctx: &mut Ctx, ws: &Workspace, entry: &str, load: Load, m: &BTreeMap<u64, (usize, Value)>, sorted_stable: bool, samples: usize, first: &mut bool) {
    let diffs = first_diff(m).unwrap_or_default();
    let (section, disc0) = classify_first(m, ws);
    // Causal discriminator: when the very same workspace is stable through the sorted entry
    // point over all samples, the instability enters through the order in which the batch entry
    // point hands the files to the analyzers; the differing section is then only a symptom.
    let sig = if entry == "production" && sorted_stable {
        "C11:nondeterministic:entry=production:sorted-entry-stable".to_string()
    } else {
        format!("C11:nondeterministic:entry={entry}:section={section}:{disc0}")
    };
    // shrink (once per signature and shard) with the in-process sampler when it reproduces there
    let case = Case { ws: ws.clone(), setup: Setup::Sorted, steps: vec![] };
    let already = ctx.sig_counts.get(&sig).copied().unwrap_or(0) >= 1;
    let in_proc = unstable_in_process(ws, load, 16, &section);
    let small = if in_proc && !already {
        let sec = section.clone();
        gw::shrink_case(&case, 120, &mut |c: &Case| unstable_in_process(&c.ws, load, 8, &sec))
    } else {
        case
    };
    let scope = if in_proc { "in-process" } else { "cross-process-only" };
    // re-derive the diff on the shrunk workspace for the detail text
    let mut m2 = BTreeMap::new();
    let _ = guarded(|| sample(&small.ws, load, 24, &mut m2));
    let d2 = if m2.len() >= 2 { first_diff(&m2).unwrap_or_default() } else { diffs.clone() };
    let dist: Vec<usize> = m.values().map(|x| x.0).collect();
    let detail = format!(
        "{} distinct dumps over {samples} analyses of the same files in the same registration order (counts {:?}; reproduces {scope}; sorted entry point stable on the same workspace: {sorted_stable}); first difference [{section}:{disc0}]:\n{}--- shrunk workspace ({} distinct dumps over 24 in-process analyses; line shapes: {}) ---\n{}",
        m.len(),
        dist,
        observe::diff_text(&d2, 6),
        m2.len(),
        small.shapes().join(","),
        clip(&small.describe(), 2500)
    );
    let rep = json!({"ws": small.ws, "entry": entry});
    let sig = if sig.ends_with("sorted-entry-stable") { sig } else { format!("{sig}:shape={}", shape(&small.ws)) };
    if *first {
        ctx.violated(&sig, &detail, rep);
        *first = false;
    } else {
        ctx.add_violation(&sig, &detail, rep);
    }
}

pub fn run(ctx: &mut Ctx) {
    if let Some(rep) = ctx.replay.clone() {
        if rep.get("child").and_then(|c| c.as_bool()).unwrap_or(false) {
            child(&rep);
            return;
        }
        let Some(ws) = rep.get("ws").and_then(|w| serde_json::from_value::<Workspace>(w.clone()).ok()) else {
            println!("replay: cannot parse workspace");
            ctx.inconclusive("bad-replay");
            return;
        };
        let entry = rep["entry"].as_str().unwrap_or("production").to_string();
        let (ei, load) = if entry == "sorted" { (1, Load::Sorted) } else { (0, Load::Production) };
        let mut ms: [BTreeMap<u64, (usize, Value)>; 2] = [BTreeMap::new(), BTreeMap::new()];
        let _ = guarded(|| sample(&ws, load, 32, &mut ms[ei]));
        if ei == 0 {
            let _ = guarded(|| sample(&ws, Load::Sorted, 16, &mut ms[1]));
        }
        let mut total = 32;
        if ms[ei].len() < 2 {
            let ok = children(ctx, &ws, 6, 6, "replay", &mut ms);
            total += ok * 6;
        }
        let sorted_stable = ms[1].len() == 1;
        let m = &ms[ei];
        println!("replay: expected 1 distinct dump over {total} analyses (entry {entry}); observed {} (counts {:?}); sorted entry stable: {sorted_stable}", m.len(), m.values().map(|x| x.0).collect::<Vec<_>>());
        if m.len() >= 2 {
            let diffs = first_diff(m).unwrap_or_default();
            println!("{}", observe::diff_text(&diffs, 8));
            let (section, disc) = classify_first(m, &ws);
            let sig = if entry == "production" && sorted_stable { "C11:nondeterministic:entry=production:sorted-entry-stable".to_string() } else { format!("C11:nondeterministic:entry={entry}:section={section}:{disc}:shape={}", shape(&ws)) };
            ctx.violated(&sig, &observe::diff_text(&diffs, 6), rep);
        } else {
            ctx.held(ws.fingerprint(), true);
        }
        return;
    }

    let quick = ctx.is_quick();
    let n = ctx.budget(3, 40);
    let (p, k) = if quick { (4usize, 4usize) } else { (8, 6) };
    let mut hashes = serde_json::Map::new();
    for i in 0..n {
        if ctx.out_of_time() {
            break;
        }
        let mut rng = Rng::new(ctx.case_seed(i));
        let ws = gen_ws(&mut rng, quick);
        let mut ms: [BTreeMap<u64, (usize, Value)>; 2] = [BTreeMap::new(), BTreeMap::new()];
        let mut panicked = None;
        for (ei, (_, load)) in ENTRIES.iter().enumerate() {
            if let Err(pn) = guarded(|| sample(&ws, *load, k, &mut ms[ei])) {
                panicked = Some(pn);
            }
        }
        if let Some(pn) = panicked {
            ctx.violated(&format!("C11:panic:{}", pn.sig()), &pn.message, json!({"ws": ws, "entry": "production"}));
            continue;
        }
        let ok = children(ctx, &ws, p, k, &format!("w{i}"), &mut ms);
        ctx.clause_n("child-processes", ok as u64);
        if ok == 0 {
            ctx.inconclusive("no-child-process-result");
            continue;
        }
        let samples = (ok + 1) * k;
        ctx.clause_n("analyses", (samples * 2) as u64);
        let mut first = true;
        let mut per_ws = serde_json::Map::new();
        for (ei, (entry, load)) in ENTRIES.iter().enumerate() {
            per_ws.insert(entry.to_string(), json!(ms[ei].len()));
            ctx.clause(&format!("entry:{entry}"));
            if ms[ei].len() >= 2 {
                let sorted_stable = ms[1].len() == 1;
                report_violation(ctx, &ws, entry, *load, &ms[ei], sorted_stable, samples, &mut first);
            }
        }
        hashes.insert(format!("{:016x}", ws.fingerprint()), Value::Object(per_ws));
        if first {
            ctx.clause("a:single-dump-over-all-samples");
            let nontrivial = ws.files.len() >= 3 && ws.n_chunks() >= 6 && samples >= 2 * k;
            ctx.held(ws.fingerprint(), nontrivial);
            if ctx.want_sample() {
                ctx.sample(json!({"files": ws.files.len(), "chunks": ws.n_chunks(), "kinds": ws.kinds(), "samples_per_entry": samples, "first_file": clip(&ws.files[0].text(), 300)}));
            }
        }
    }
    // number of distinct dumps seen per workspace and entry point (1 = held)
    ctx.extra_set("distinct_dumps", Value::Object(hashes));
}
