//! C28 — the server never deadlocks (SimServer E2 + hook H3).
//!
//! (a) observed: an inline dispatch that does not return for 900 virtual seconds, shared locks
//!     that cannot be taken at quiescence, or a lock request still pending at the end of the trace;
//! (b) predicted from the recorded lock trace (lockdep style): a task requesting a lock it
//!     already holds, or a cycle in the "requested while holding" graph.

use crate::props::c27::sanitize;
use crate::report::Ctx;
use crate::rng::Rng;
use crate::simscript::*;
use emmylua_ls::verif_api::sync::{LockEvent, LockEventKind, LockMode};
use serde_json::json;
use std::collections::{BTreeMap, BTreeSet};

pub fn short_lock(name: &str) -> &'static str {
    if name.ends_with("EmmyLuaAnalysis") {
        "analysis"
    } else if name.ends_with("WorkspaceManager") {
        "workspace_manager"
    } else if name.contains("FileId") && name.contains("CancellationToken") {
        "diagnostic_tokens"
    } else if name.starts_with("core::option::Option<") && name.contains("CancellationToken") {
        "workspace_diagnostic_token"
    } else if name.contains("RequestId") && name.contains("CancellationToken") {
        "cancellations"
    } else if name.contains("RequestId") && name.contains("oneshot") {
        "response_manager"
    } else if name == "()" {
        "reload_lock"
    } else {
        "other"
    }
}

fn mode_ch(m: LockMode) -> char {
    match m {
        LockMode::Read => 'R',
        LockMode::Write => 'W',
        LockMode::Mutex => 'M',
    }
}

fn site_file(site: &str) -> String {
    let f = site.rsplit('/').next().unwrap_or(site);
    f.split(':').next().unwrap_or(f).to_string()
}

#[derive(Default)]
pub struct LockGraph {
    /// (held lock, requested lock) -> set of "heldmode@file -> reqmode@file"
    pub edges: BTreeMap<(String, String), BTreeSet<String>>,
    pub self_edges: BTreeSet<String>,
    pub sites: BTreeSet<String>,
    pub pending: Vec<String>,
}

pub fn build_graph(events: &[LockEvent]) -> LockGraph {
    let mut g = LockGraph::default();
    // per task: stack of held (lock, mode, site); pending request
    let mut held: BTreeMap<Option<u64>, Vec<(String, char, String)>> = BTreeMap::new();
    let mut pending: BTreeMap<Option<u64>, (String, char, String)> = BTreeMap::new();
    for e in events {
        let lock = short_lock(e.lock).to_string();
        let m = mode_ch(e.mode);
        let file = site_file(&e.site);
        match e.kind {
            LockEventKind::Request => {
                g.sites.insert(format!("{lock}({m})@{}", e.site.rsplit('/').next().unwrap_or("")));
                for (hl, hm, hf) in held.get(&e.task).cloned().unwrap_or_default() {
                    let label = format!("{hl}({hm})@{hf}→{lock}({m})@{file}");
                    if hl == lock {
                        g.self_edges.insert(label);
                    } else {
                        g.edges.entry((hl.clone(), lock.clone())).or_default().insert(label);
                    }
                }
                pending.insert(e.task, (lock, m, file));
            }
            LockEventKind::Acquire => {
                pending.remove(&e.task);
                held.entry(e.task).or_default().push((lock, m, file));
            }
            LockEventKind::Release => {
                if let Some(v) = held.get_mut(&e.task) {
                    if let Some(pos) = v.iter().rposition(|(l, mm, _)| *l == lock && *mm == m) {
                        v.remove(pos);
                    }
                }
            }
        }
    }
    for (_t, (l, m, f)) in pending {
        g.pending.push(format!("{l}({m})@{f}"));
    }
    g
}

/// cycles in the lock graph (by lock name); returns each as a canonical string with labels
pub fn cycles(g: &LockGraph) -> Vec<String> {
    let nodes: BTreeSet<&String> = g.edges.keys().flat_map(|(a, b)| [a, b]).collect();
    let mut out = BTreeSet::new();
    // small graph (<= 7 nodes): DFS for simple cycles, canonicalised by rotation to the smallest node
    fn dfs(cur: &String, start: &String, path: &mut Vec<String>, g: &LockGraph, out: &mut BTreeSet<String>) {
        for ((a, b), labels) in &g.edges {
            if a != cur {
                continue;
            }
            if b == start {
                let mut cyc = path.clone();
                // canonical rotation
                let minpos = cyc.iter().enumerate().min_by_key(|(_, n)| (*n).clone()).map(|(i, _)| i).unwrap_or(0);
                cyc.rotate_left(minpos);
                let mut desc = Vec::new();
                for i in 0..cyc.len() {
                    let from = &cyc[i];
                    let to = &cyc[(i + 1) % cyc.len()];
                    let l = g.edges.get(&(from.clone(), to.clone())).and_then(|s| s.iter().next().cloned()).unwrap_or_default();
                    desc.push(l);
                }
                let _ = labels;
                out.insert(desc.join(" ⟂ "));
            } else if !path.contains(b) && path.len() < 6 {
                path.push(b.clone());
                dfs(b, start, path, g, out);
                path.pop();
            }
        }
    }
    for n in nodes {
        let mut path = vec![n.clone()];
        dfs(n, n, &mut path, g, &mut out);
    }
    out.into_iter().collect()
}

pub fn oracle(o: &Outcome) -> Vec<(String, String)> {
    let mut v = Vec::new();
    let g = build_graph(&o.lock_events);
    if o.wedged || !o.stalled_dispatch.is_empty() {
        let what: BTreeSet<String> = o.stalled_dispatch.iter().map(|(_, m)| m.clone()).collect();
        v.push((
            format!("C28:observed-deadlock:stalled={}:pending={}", what.into_iter().collect::<Vec<_>>().join("+"), g.pending.join("+")),
            format!("dispatch did not return within 900 virtual seconds / shared locks unavailable at quiescence; pending lock requests {:?}", g.pending),
        ));
    } else if !g.pending.is_empty() && o.settled {
        v.push((format!("C28:lock-request-pending-at-quiescence:{}", g.pending.join("+")), format!("requests never granted: {:?}", g.pending)));
    }
    for s in &g.self_edges {
        v.push((format!("C28:lock-reacquired-while-held:{s}"), "a task requested a lock it already holds (tokio's RwLock is write-preferring: a queued writer makes this a deadlock)".to_string()));
    }
    for c in cycles(&g) {
        v.push((format!("C28:lock-order-cycle:{c}"), "cycle in the requested-while-holding graph".to_string()));
    }
    v
}

pub const FLAVOR: Flavor = Flavor { reloads: true, requests: true, malformed: false, disk_events: true, saves: true };

pub fn judge(ctx: &mut Ctx, script: &Script, shrink: bool) {
    let o = run_script(script, &ctx.work.clone(), true);
    let g = build_graph(&o.lock_events);
    ctx.clause_n("lock-events", o.lock_events.len() as u64);
    {
        let mut sites = ctx.extra.get("lock_sites_covered").cloned().unwrap_or(json!([]));
        if let Some(a) = sites.as_array_mut() {
            for s in &g.sites {
                let sv = json!(s);
                if !a.contains(&sv) && a.len() < 400 {
                    a.push(sv);
                }
            }
        }
        ctx.extra_set("lock_sites_covered", sites);
        let mut edges = ctx.extra.get("lock_order_edges").cloned().unwrap_or(json!([]));
        if let Some(a) = edges.as_array_mut() {
            for ((x, y), _) in &g.edges {
                let ev = json!(format!("{x}→{y}"));
                if !a.contains(&ev) {
                    a.push(ev);
                }
            }
        }
        ctx.extra_set("lock_order_edges", edges);
    }
    let v = oracle(&o);
    if v.is_empty() {
        if !o.settled {
            ctx.inconclusive("not-settled");
            return;
        }
        ctx.clause("trace-checked");
        ctx.held(interleaving_hash(&o.lock_events), o.lock_events.len() >= 30);
        if ctx.want_sample() && o.lock_events.len() > 100 && o.lock_events.len() % 7 == 0 {
            ctx.sample(json!({"script_ops": script_to_json(script)["ops"], "lock_events": o.lock_events.len(), "edges": g.edges.keys().map(|(a, b)| format!("{a}→{b}")).collect::<Vec<_>>(), "virtual_ms": o.virtual_ms}));
        }
        return;
    }
    let mut first = true;
    for (sig, detail) in v {
        if ctx.sig_counts.get(&sig).copied().unwrap_or(0) >= 1 && !first {
            ctx.add_violation(&sig, &detail, script_to_json(script));
            continue;
        }
        let mut best = script.clone();
        if shrink && ctx.sig_counts.get(&sig).copied().unwrap_or(0) == 0 {
            let work = ctx.work.clone();
            let want = sig.clone();
            let ops = crate::util::ddmin(script.ops.clone(), |ops| {
                let s = sanitize(&Script { ops: ops.to_vec(), ..script.clone() });
                let o2 = run_script(&s, &work, true);
                oracle(&o2).iter().any(|(g, _)| *g == want)
            }, 60);
            best = sanitize(&Script { ops, ..script.clone() });
        }
        if first {
            ctx.violated(&sig, &format!("{detail}; script {}", script_to_json(&best)["ops"]), script_to_json(&best));
            first = false;
        } else {
            ctx.add_violation(&sig, &format!("{detail}; script {}", script_to_json(&best)["ops"]), script_to_json(&best));
        }
    }
}

pub fn run(ctx: &mut Ctx) {
    crate::util::private_home(&ctx.work.clone(), "c28");
    if let Some(rep) = ctx.replay.clone() {
        let s = script_from_json(&rep);
        judge(ctx, &s, false);
        println!("replay: signatures {:?}", ctx.sig_counts.keys().collect::<Vec<_>>());
        return;
    }
    let n = ctx.budget(120, 8000);
    for i in 0..n {
        if ctx.out_of_time() {
            break;
        }
        let mut rng = Rng::new(ctx.case_seed(i));
        let nops = rng.range(10, 45);
        let mut script = gen_script(&mut rng, FLAVOR, nops);
        script.pull_diagnostics = i % 5 == 4;
        if i % 3 == 0 {
            script.sched_seed = 0;
        }
        judge(ctx, &script, true);
    }
}
