//! C33 — require paths resolve to the files the configured patterns select.
//!
//! In-process (E1). Generated virtual workspace trees (nested dirs, `init.lua`, two main roots, a
//! library root outside or inside the main root, duplicate module names, custom extensions and
//! require patterns, moduleMap rewrites, strict / fuzzy lookup) x require strings, checked against
//! a reference resolver written from the documented behaviour:
//!   module name of a file = path relative to a workspace root that contains it, matched against
//!   the patterns (longest first), `/` -> `.`, moduleMap applied;
//!   lookup = exact -> moduleMap(exact) -> (unless strict.requirePath) suffix match on a `.` boundary.
//! Where the statement leaves freedom (several files own the name, several roots give a file
//! several names, ranking among fuzzy candidates) the reference yields the SET of admissible files
//! and only determinism is required. Observations: `LuaModuleIndex::find_module`, the semantic
//! declaration and the inferred type of `require("…")` in a user file, all repeated over fresh
//! constructions (fresh hash seeds), after add / remove / re-add histories, and after removal.

use crate::report::Ctx;
use crate::rng::{Rng, fnv};
use crate::util::guarded;
use emmylua_code_analysis::{EmmyLuaAnalysis, Emmyrc, FileId, LuaSemanticDeclId, LuaType, SemanticDeclLevel, WorkspaceFolder, file_path_to_uri};
use emmylua_parser::{LuaAstNode, LuaCallExpr, LuaExpr, LuaLiteralToken, LuaNameExpr};
use serde_json::{Value, json};
use std::collections::{BTreeMap, BTreeSet};
use std::path::PathBuf;
use std::sync::Arc;

const BASE: &str = "/c33v";

#[derive(Clone, Debug, PartialEq)]
struct MapRule {
    /// regex `^<prefix>\.(.*)$`
    prefix: String,
    /// replacement: `$1` or `<new>.$1`
    new_prefix: Option<String>,
}

#[derive(Clone, Debug)]
struct Case {
    /// main roots then library roots, relative to BASE ("ws", "ws2", "lib", "ws/vendor")
    main_roots: Vec<String>,
    lib_roots: Vec<String>,
    extensions: Vec<String>,
    /// custom require patterns (empty = defaults)
    require_pattern: Vec<String>,
    module_map: Vec<MapRule>,
    strict: bool,
    /// files of the initial build (paths relative to BASE), in registration order
    initial: Vec<String>,
    /// history applied after the initial build
    history: Vec<Step>,
    requires: Vec<String>,
}

#[derive(Clone, Debug, PartialEq)]
enum Step {
    Add(String),
    Remove(String),
    /// re-submit the same content
    Touch(String),
}

// ------------------------------------------------------------------------------------------------
// generator

const SEGS: &[&str] = &["a", "b", "ab", "ba", "c", "util", "net", "core"];

fn gen_case(rng: &mut Rng) -> Case {
    let mut main_roots = vec!["ws".to_string()];
    if rng.chance(1, 3) {
        main_roots.push("ws2".to_string());
    }
    let lib_roots: Vec<String> = match rng.below(4) {
        0 => vec!["lib".into()],
        1 => vec!["ws/vendor".into()],
        _ => vec![],
    };
    let extensions: Vec<String> = match rng.below(5) {
        0 => vec![".luau".into()],
        1 => vec!["*.txt".into()],
        _ => vec![],
    };
    let require_pattern: Vec<String> = match rng.below(5) {
        0 => vec!["?.lua".into(), "?/init.lua".into(), "lualib/?.lua".into()],
        1 => vec!["?/init.lua".into(), "?/main.lua".into()],
        _ => vec![],
    };
    let module_map: Vec<MapRule> = match rng.below(6) {
        0 => vec![MapRule { prefix: "core".into(), new_prefix: None }],
        1 => vec![MapRule { prefix: "net".into(), new_prefix: Some("web".into()) }],
        _ => vec![],
    };
    let strict = rng.chance(1, 3);
    let exts: Vec<String> = {
        let mut e: Vec<String> = extensions.iter().map(|x| x.trim_start_matches("*.").trim_start_matches('.').to_string()).collect();
        e.push("lua".into());
        e
    };
    let all_roots: Vec<String> = main_roots.iter().chain(lib_roots.iter()).cloned().collect();
    let mut files: BTreeSet<String> = BTreeSet::new();
    let nfiles = rng.range(3, 12);
    for _ in 0..nfiles {
        let root = rng.pick(&all_roots.iter().map(|s| s.as_str()).collect::<Vec<_>>()).to_string();
        let depth = rng.range(1, 3);
        let mut parts: Vec<String> = (0..depth).map(|_| rng.pick(SEGS).to_string()).collect();
        if !require_pattern.is_empty() && rng.chance(1, 4) {
            parts.insert(0, "lualib".into());
        }
        let ext = rng.pick(&exts.iter().map(|s| s.as_str()).collect::<Vec<_>>()).to_string();
        let leaf = match rng.below(6) {
            0 => format!("init.{ext}"),
            1 if !require_pattern.is_empty() => "main.lua".to_string(),
            _ => {
                let l = parts.pop().unwrap();
                format!("{l}.{ext}")
            }
        };
        let mut p = root;
        for s in &parts {
            p.push('/');
            p.push_str(s);
        }
        p.push('/');
        p.push_str(&leaf);
        files.insert(p);
    }
    // deliberate duplicates: same relative path in another root; X.lua next to X/init.lua
    let snapshot: Vec<String> = files.iter().cloned().collect();
    for f in &snapshot {
        if rng.chance(1, 5) && all_roots.len() > 1 {
            let (root, rel) = split_root(f, &all_roots);
            let other = rng.pick(&all_roots.iter().filter(|r| **r != root).map(|s| s.as_str()).collect::<Vec<_>>()).to_string();
            files.insert(format!("{other}/{rel}"));
        }
        if rng.chance(1, 6) {
            if let Some(stem) = f.strip_suffix(".lua") {
                if !stem.ends_with("/init") {
                    files.insert(format!("{stem}/init.lua"));
                }
            }
        }
    }
    let mut all: Vec<String> = files.into_iter().filter(|f| !f.ends_with("/user_main.lua")).collect();
    rng.shuffle(&mut all);
    // history: some files are added later, some removed, some re-added
    let n_late = if all.len() > 3 { rng.below(all.len() / 2) } else { 0 };
    let late: Vec<String> = all.split_off(all.len() - n_late);
    let initial = all;
    let mut history = Vec::new();
    let mut present: Vec<String> = initial.clone();
    let mut pending = late;
    let steps = rng.range(0, 6);
    for _ in 0..steps {
        match rng.below(4) {
            0 if !pending.is_empty() => {
                let f = pending.pop().unwrap();
                present.push(f.clone());
                history.push(Step::Add(f));
            }
            1 | 2 if present.len() > 1 => {
                let i = rng.below(present.len());
                let f = present.remove(i);
                pending.push(f.clone());
                history.push(Step::Remove(f));
            }
            _ if !present.is_empty() => {
                let f = present[rng.below(present.len())].clone();
                history.push(Step::Touch(f));
            }
            _ => {}
        }
    }
    // require strings: names derived from every file under every root that contains it, suffixes
    // of those names, prefixed variants, and a few that must not resolve
    let mut requires: BTreeSet<String> = BTreeSet::new();
    let every: Vec<String> = initial.iter().cloned().chain(history.iter().filter_map(|s| if let Step::Add(f) = s { Some(f.clone()) } else { None })).collect();
    for f in &every {
        for root in &all_roots {
            if let Some(rel) = f.strip_prefix(&format!("{root}/")) {
                let stem = rel.rsplit_once('.').map(|x| x.0).unwrap_or(rel);
                let dotted = stem.replace('/', ".");
                requires.insert(dotted.clone());
                if let Some(d) = dotted.strip_suffix(".init") {
                    requires.insert(d.to_string());
                }
                if let Some(d) = dotted.strip_suffix(".main") {
                    requires.insert(d.to_string());
                }
                if let Some(d) = dotted.strip_prefix("lualib.") {
                    requires.insert(d.to_string());
                }
                let parts: Vec<&str> = dotted.split('.').collect();
                for k in 1..parts.len() {
                    requires.insert(parts[k..].join("."));
                }
                if rng.chance(1, 4) {
                    requires.insert(format!("{}.{dotted}", rng.pick(SEGS)));
                }
                if rng.chance(1, 4) {
                    requires.insert(stem.to_string()); // slash form
                }
                for m in &module_map {
                    if let Some(rest) = dotted.strip_prefix(&format!("{}.", m.prefix)) {
                        requires.insert(rest.to_string());
                        if let Some(n) = &m.new_prefix {
                            requires.insert(format!("{n}.{rest}"));
                        }
                    }
                }
            }
        }
    }
    requires.insert("zzz.nothing".into());
    requires.insert("mm0".into());
    requires.insert("mm1".into());
    requires.insert("a".into());
    requires.insert("b.a".into());
    let mut requires: Vec<String> = requires.into_iter().filter(|r| !r.is_empty() && !r.contains(' ')).collect();
    rng.shuffle(&mut requires);
    requires.truncate(24);
    requires.sort();
    Case { main_roots, lib_roots, extensions, require_pattern, module_map, strict, initial, history, requires }
}

fn split_root(f: &str, roots: &[String]) -> (String, String) {
    // the longest root that contains f
    let mut best: Option<&String> = None;
    for r in roots {
        if f.starts_with(&format!("{r}/")) && best.map(|b| r.len() > b.len()).unwrap_or(true) {
            best = Some(r);
        }
    }
    let r = best.cloned().unwrap_or_default();
    let rel = f[r.len() + 1..].to_string();
    (r, rel)
}

impl Case {
    fn to_json(&self) -> Value {
        json!({
            "main_roots": self.main_roots, "lib_roots": self.lib_roots, "extensions": self.extensions, "require_pattern": self.require_pattern,
            "module_map": self.module_map.iter().map(|m| json!({"prefix": m.prefix, "new_prefix": m.new_prefix})).collect::<Vec<_>>(),
            "strict": self.strict, "initial": self.initial,
            "history": self.history.iter().map(|s| match s { Step::Add(f) => json!(["add", f]), Step::Remove(f) => json!(["remove", f]), Step::Touch(f) => json!(["touch", f]) }).collect::<Vec<_>>(),
            "requires": self.requires,
        })
    }
    fn from_json(v: &Value) -> Option<Case> {
        let strs = |x: &Value| x.as_array().map(|a| a.iter().filter_map(|s| s.as_str().map(|s| s.to_string())).collect::<Vec<_>>());
        Some(Case {
            main_roots: strs(&v["main_roots"])?,
            lib_roots: strs(&v["lib_roots"])?,
            extensions: strs(&v["extensions"])?,
            require_pattern: strs(&v["require_pattern"])?,
            module_map: v["module_map"].as_array()?.iter().filter_map(|m| Some(MapRule { prefix: m["prefix"].as_str()?.to_string(), new_prefix: m["new_prefix"].as_str().map(|s| s.to_string()) })).collect(),
            strict: v["strict"].as_bool()?,
            initial: strs(&v["initial"])?,
            history: v["history"].as_array()?.iter().filter_map(|s| {
                let f = s[1].as_str()?.to_string();
                match s[0].as_str()? {
                    "add" => Some(Step::Add(f)),
                    "remove" => Some(Step::Remove(f)),
                    "touch" => Some(Step::Touch(f)),
                    _ => None,
                }
            }).collect(),
            requires: strs(&v["requires"])?,
        })
    }
    fn emmyrc(&self) -> Emmyrc {
        let mm: Vec<Value> = self.module_map.iter().map(|m| json!({"pattern": format!("^{}\\.(.*)$", m.prefix), "replace": match &m.new_prefix { Some(n) => format!("{n}.$1"), None => "$1".to_string() }})).collect();
        let v = json!({
            "runtime": {"extensions": self.extensions, "requirePattern": self.require_pattern},
            "workspace": {"moduleMap": mm},
            "strict": {"requirePath": self.strict},
        });
        serde_json::from_value(v).expect("emmyrc json")
    }
    fn all_roots(&self) -> Vec<String> {
        self.main_roots.iter().chain(self.lib_roots.iter()).cloned().collect()
    }
    fn final_files(&self) -> Vec<String> {
        let mut present = self.initial.clone();
        for s in &self.history {
            match s {
                Step::Add(f) => {
                    if !present.contains(f) {
                        present.push(f.clone())
                    }
                }
                Step::Remove(f) => present.retain(|x| x != f),
                Step::Touch(_) => {}
            }
        }
        present
    }
}

// ------------------------------------------------------------------------------------------------
// reference resolver (documented behaviour only)

struct Reference {
    patterns: Vec<String>,
    roots: Vec<String>,
    map: Vec<MapRule>,
    strict: bool,
}

impl Reference {
    fn new(c: &Case) -> Reference {
        let mut exts: Vec<String> = c.extensions.iter().map(|x| x.strip_prefix('.').or_else(|| x.strip_prefix("*.")).unwrap_or(x.as_str()).to_string()).collect();
        if !exts.contains(&"lua".to_string()) {
            exts.push("lua".into());
        }
        let mut patterns: Vec<String> = exts.iter().map(|e| format!("?.{e}")).collect();
        if c.require_pattern.is_empty() {
            patterns.extend(exts.iter().map(|e| format!("?/init.{e}")));
        } else {
            patterns.extend(c.require_pattern.iter().cloned());
        }
        // longest pattern first
        patterns.sort_by_key(|p| std::cmp::Reverse(p.len()));
        patterns.dedup();
        Reference { patterns, roots: c.all_roots(), map: c.module_map.clone(), strict: c.strict }
    }
    fn apply_map(&self, name: &str) -> String {
        let mut n = name.to_string();
        for m in &self.map {
            if let Some(rest) = n.strip_prefix(&format!("{}.", m.prefix)) {
                n = match &m.new_prefix {
                    Some(p) => format!("{p}.{rest}"),
                    None => rest.to_string(),
                };
            }
        }
        n
    }
    /// every pattern of the longest matching length gives a name (normally exactly one)
    fn match_patterns(&self, rel: &str) -> Vec<String> {
        let mut out: Vec<String> = Vec::new();
        let mut len = None;
        for p in &self.patterns {
            if let Some(l) = len {
                if p.len() < l {
                    break;
                }
            }
            let (pre, suf) = p.split_once('?').unwrap_or((p, ""));
            if rel.len() >= pre.len() + suf.len() && rel.starts_with(pre) && rel.ends_with(suf) {
                let x = &rel[pre.len()..rel.len() - suf.len()];
                len = Some(p.len());
                let n = x.replace('/', ".");
                if !out.contains(&n) {
                    out.push(n);
                }
            }
        }
        out
    }
    /// (primary names, all candidate names) of a file; primary = via the innermost root
    fn names(&self, file: &str) -> (Vec<String>, Vec<String>) {
        let mut per_root: Vec<(usize, Vec<String>)> = Vec::new();
        for r in &self.roots {
            if let Some(rel) = file.strip_prefix(&format!("{r}/")) {
                let ns: Vec<String> = self.match_patterns(rel).iter().map(|n| self.apply_map(n)).collect();
                if !ns.is_empty() {
                    per_root.push((r.len(), ns));
                }
            }
        }
        let all: Vec<String> = per_root.iter().flat_map(|x| x.1.clone()).collect();
        let primary = per_root.iter().max_by_key(|x| x.0).map(|x| x.1.clone()).unwrap_or_default();
        (primary, all)
    }
}

#[derive(Debug, Clone, PartialEq)]
enum Expect {
    /// must resolve to one of these files; `step` says which lookup step yields them
    OneOf(BTreeSet<String>, &'static str),
    /// must not resolve at all
    Nothing,
    /// the statement does not decide (file reachable only through a secondary name, …)
    Unspecified,
}

struct Resolved {
    expect: Expect,
    /// files that are acceptable when returned, beyond `expect` (lenient reading)
    lenient: BTreeSet<String>,
}

fn resolve_ref(r: &Reference, files: &[String], s: &str) -> Resolved {
    let s = s.replace(['\\', '/'], ".");
    let mapped = r.apply_map(&s);
    let keys: Vec<String> = if mapped != s { vec![s.clone(), mapped.clone()] } else { vec![s.clone()] };
    let info: Vec<(&String, Vec<String>, Vec<String>)> = files.iter().map(|f| {
        let (p, a) = r.names(f);
        (f, p, a)
    }).collect();
    let suffix_match = |name: &str, key: &str| name == key || name.ends_with(&format!(".{key}"));
    let mut lenient = BTreeSet::new();
    for (f, _, all) in &info {
        for k in &keys {
            if all.iter().any(|n| n == k || (!r.strict && suffix_match(n, k))) {
                lenient.insert((*f).clone());
            }
        }
    }
    // a present `---@meta <name>` file that the key could denote (by path or by its own name): unspecified
    let mut meta_touched = false;
    for (f, _, all) in &info {
        if let Some(m) = meta_name(f) {
            if keys.iter().any(|k| m == *k || suffix_match(&m, k) || all.iter().any(|n| n == k || suffix_match(n, k))) {
                lenient.insert((*f).clone());
                meta_touched = true;
            }
        }
    }
    if meta_touched {
        return Resolved { expect: Expect::Unspecified, lenient };
    }
    // ambiguity of a file's own primary name makes everything about it unspecified
    let ambiguous = info.iter().any(|(f, p, _)| p.len() > 1 && lenient.contains(*f));
    if ambiguous {
        return Resolved { expect: Expect::Unspecified, lenient };
    }
    for (step, k) in [("exact", &s), ("mapped-exact", &mapped)] {
        if step == "mapped-exact" && mapped == s {
            continue;
        }
        let set: BTreeSet<String> = info.iter().filter(|(_, p, _)| p.first() == Some(k)).map(|(f, _, _)| (*f).clone()).collect();
        if !set.is_empty() {
            return Resolved { expect: Expect::OneOf(set, step), lenient };
        }
    }
    if !r.strict {
        for (step, k) in [("mapped-fuzzy", &mapped), ("fuzzy", &s)] {
            if step == "mapped-fuzzy" && mapped == s {
                continue;
            }
            let set: BTreeSet<String> = info.iter().filter(|(_, p, _)| p.first().map(|n| suffix_match(n, k)).unwrap_or(false)).map(|(f, _, _)| (*f).clone()).collect();
            if !set.is_empty() {
                // the ranking among suffix candidates is not part of the statement: any of them
                return Resolved { expect: Expect::OneOf(set, step), lenient };
            }
        }
    }
    if lenient.is_empty() { Resolved { expect: Expect::Nothing, lenient } } else { Resolved { expect: Expect::Unspecified, lenient } }
}

// ------------------------------------------------------------------------------------------------
// the real thing

fn abs(rel: &str) -> PathBuf {
    PathBuf::from(format!("{BASE}/{rel}"))
}

fn rel_of(p: &std::path::Path) -> String {
    p.to_string_lossy().strip_prefix(&format!("{BASE}/")).map(|s| s.to_string()).unwrap_or_else(|| p.to_string_lossy().to_string())
}

/// A sixth of the files name their module themselves (`---@meta <name>` as first line). What a require of
/// such a file's path-derived name or of its own name gives is not part of the statement (Unspecified while
/// the file is present), but the file must not disturb the resolution of the other files — in particular not
/// after it has been removed and another file takes over its path-derived name.
fn meta_name(file: &str) -> Option<String> {
    if file == USER {
        return None;
    }
    let h = fnv(file.as_bytes());
    if h % 6 == 0 { Some(format!("mm{}", (h / 6) % 3)) } else { None }
}

fn module_text(file: &str) -> String {
    let head = meta_name(file).map(|m| format!("---@meta {m}\n")).unwrap_or_default();
    head + &format!("local M = {{ id = {} }}\nfunction M.hello() return \"{file}\" end\nreturn M\n", fnv(file.as_bytes()) % 100_000)
}

const USER: &str = "ws/user_main.lua";

fn user_text(c: &Case) -> String {
    let mut t = String::new();
    for (i, r) in c.requires.iter().enumerate() {
        t.push_str(&format!("local m{i} = require(\"{r}\")\n"));
    }
    for i in 0..c.requires.len() {
        t.push_str(&format!("print(m{i})\n"));
    }
    t.push_str("return {}\n");
    t
}

fn build(c: &Case, files: &[String], with_user: bool) -> EmmyLuaAnalysis {
    let mut a = EmmyLuaAnalysis::new();
    a.update_config(Arc::new(c.emmyrc()));
    for r in &c.main_roots {
        a.add_main_workspace(abs(r));
    }
    for l in &c.lib_roots {
        a.add_library_workspace(&WorkspaceFolder::new(abs(l), true));
    }
    let mut list: Vec<(PathBuf, Option<String>)> = files.iter().map(|f| (abs(f), Some(module_text(f)))).collect();
    if with_user {
        list.push((abs(USER), Some(user_text(c))));
    }
    a.update_files_by_path(list);
    a
}

fn apply_history(c: &Case, a: &mut EmmyLuaAnalysis, upto: usize, alt_remove: bool) {
    for s in &c.history[..upto] {
        match s {
            Step::Add(f) | Step::Touch(f) => {
                a.update_file_by_path(&abs(f), Some(module_text(f)));
            }
            Step::Remove(f) => {
                if alt_remove {
                    a.update_file_by_path(&abs(f), None);
                } else if let Some(uri) = file_path_to_uri(&abs(f)) {
                    a.remove_file_by_uri(&uri);
                }
            }
        }
    }
}

fn find(a: &EmmyLuaAnalysis, s: &str) -> Option<String> {
    let db = a.compilation.get_db();
    let m = db.get_module_index().find_module(s)?;
    Some(db.get_vfs().get_file_path(&m.file_id).map(|p| rel_of(p)).unwrap_or_else(|| format!("<no path for file id {:?}>", m.file_id)))
}

fn file_of(a: &EmmyLuaAnalysis, fid: FileId) -> Option<String> {
    a.compilation.get_db().get_vfs().get_file_path(&fid).map(|p| rel_of(p))
}

/// For every `require("s")` call of the user file: (s, file of the inferred type, file of the semantic decl)
fn semantic_views(a: &EmmyLuaAnalysis) -> Option<Vec<(String, Option<String>, Option<String>, bool)>> {
    let uri = file_path_to_uri(&abs(USER))?;
    let fid = a.get_file_id(&uri)?;
    let sm = a.compilation.get_semantic_model(fid)?;
    let root = sm.get_root().clone();
    let mut out = Vec::new();
    for call in root.descendants::<LuaCallExpr>() {
        if !call.is_require() {
            continue;
        }
        let Some(LuaExpr::LiteralExpr(lit)) = call.get_args_list().and_then(|l| l.get_args().next()) else { continue };
        let Some(LuaLiteralToken::String(st)) = lit.get_literal() else { continue };
        let s = st.get_value();
        let ty = sm.infer_expr(LuaExpr::CallExpr(call.clone()));
        let (ty_file, ty_known) = match &ty {
            Ok(LuaType::TableConst(inf)) => (file_of(a, inf.file_id), true),
            Ok(_) => (None, false),
            Err(_) => (None, true),
        };
        out.push((s, ty_file, None, ty_known));
    }
    // go-to-declaration of a use of `m<i>`: follows the require call into the module file
    // (what the definition request on the variable does); a declaration in the user file
    // itself means "not traced" and is not compared.
    for name in root.descendants::<LuaNameExpr>() {
        let Some(text) = name.get_name_text() else { continue };
        let Some(i) = text.strip_prefix('m').and_then(|d| d.parse::<usize>().ok()) else { continue };
        if i >= out.len() {
            continue;
        }
        if let Some(LuaSemanticDeclId::LuaDecl(d)) = sm.find_decl(name.syntax().clone().into(), SemanticDeclLevel::default()) {
            if d.file_id != fid {
                out[i].2 = file_of(a, d.file_id);
            }
        }
    }
    Some(out)
}

#[derive(Debug, Clone)]
struct Finding {
    sig: String,
    detail: String,
    /// require string involved
    req: String,
}

fn dup_shape(set: &BTreeSet<String>, roots: &[String]) -> &'static str {
    let v: Vec<&String> = set.iter().collect();
    for i in 0..v.len() {
        for j in i + 1..v.len() {
            let (ra, rela) = split_root(v[i], roots);
            let (rb, relb) = split_root(v[j], roots);
            if ra != rb && rela == relb {
                return "same-path-in-two-roots";
            }
            let strip = |r: &str| r.rsplit_once('.').map(|x| x.0.to_string()).unwrap_or_default();
            let (sa, sb) = (strip(&rela), strip(&relb));
            if sa == format!("{sb}/init") || sb == format!("{sa}/init") {
                return "file-and-init";
            }
        }
    }
    "other"
}

/// Judge one state (a built analysis) against the reference over the given file set.
fn judge_state(c: &Case, r: &Reference, a: &EmmyLuaAnalysis, files: &[String], phase: &str, counts: &mut BTreeMap<&'static str, u64>) -> Vec<Finding> {
    let mut out = Vec::new();
    let roots = c.all_roots();
    for s in &c.requires {
        let got = find(a, s);
        let exp = resolve_ref(r, files, s);
        if let Some(f) = &got {
            if !files.contains(f) && f != USER {
                out.push(Finding { sig: format!("resolves-to-absent-file:phase={phase}"), detail: format!("require(\"{s}\") resolves to {f}, which is not (any longer) part of the workspace"), req: s.clone() });
                continue;
            }
        }
        match (&exp.expect, &got) {
            (Expect::Unspecified, _) => *counts.entry("unspecified").or_insert(0) += 1,
            (Expect::Nothing, None) => *counts.entry("unresolvable-ok").or_insert(0) += 1,
            (Expect::Nothing, Some(f)) => out.push(Finding { sig: format!("wrong-file:expected=none:phase={phase}"), detail: format!("require(\"{s}\") resolves to {f} but no file's module name equals it{}", if c.strict { " (strict.requirePath)" } else { " or ends with it on a `.` boundary" }), req: s.clone() }),
            (Expect::OneOf(set, step), None) => out.push(Finding { sig: format!("unresolved:step={step}:phase={phase}"), detail: format!("require(\"{s}\") is unresolved; the patterns select {:?} ({step})", set), req: s.clone() }),
            (Expect::OneOf(set, step), Some(f)) => {
                if set.contains(f) {
                    *counts.entry(if set.len() > 1 { "resolved-among-duplicates" } else { "resolved" }).or_insert(0) += 1;
                    *counts.entry(match *step {
                        "exact" => "step-exact",
                        "mapped-exact" => "step-mapped-exact",
                        "mapped-fuzzy" => "step-mapped-fuzzy",
                        _ => "step-fuzzy",
                    }).or_insert(0) += 1;
                } else if exp.lenient.contains(f) && !step.contains("exact") {
                    *counts.entry("unspecified").or_insert(0) += 1;
                } else if exp.lenient.contains(f) {
                    // an exact owner exists but another file was returned; only a violation if that file is not itself an exact owner under another root's name
                    let (_, all) = r.names(f);
                    let key = s.replace(['\\', '/'], ".");
                    if all.iter().any(|n| *n == key || *n == r.apply_map(&key)) {
                        *counts.entry("unspecified").or_insert(0) += 1;
                    } else {
                        out.push(Finding { sig: format!("fuzzy-preferred-over-exact:step={step}:phase={phase}"), detail: format!("require(\"{s}\") resolves to {f} (suffix match) although {:?} matches exactly", set), req: s.clone() });
                    }
                } else {
                    out.push(Finding { sig: format!("wrong-file:step={step}:phase={phase}"), detail: format!("require(\"{s}\") resolves to {f}; the patterns select {:?} ({step}; roots {:?})", set, roots), req: s.clone() });
                }
            }
        }
    }
    out
}

fn judge_semantics(a: &EmmyLuaAnalysis, phase: &str, counts: &mut BTreeMap<&'static str, u64>) -> Vec<Finding> {
    let mut out = Vec::new();
    let Some(views) = semantic_views(a) else {
        *counts.entry("semantic-model-unavailable").or_insert(0) += 1;
        return out;
    };
    for (s, ty_file, decl_file, ty_known) in views {
        let got = find(a, &s);
        // only positive identifications are compared: a type / declaration that names a file must name the resolved file
        if ty_known && ty_file.is_some() {
            *counts.entry("type-compared").or_insert(0) += 1;
            if ty_file != got {
                out.push(Finding { sig: format!("type-disagrees:phase={phase}"), detail: format!("require(\"{s}\"): find_module -> {:?}, inferred module type comes from {:?}", got, ty_file), req: s.clone() });
            }
        } else if got.is_some() {
            *counts.entry("type-unknown").or_insert(0) += 1;
        }
        if decl_file.is_some() {
            *counts.entry("definition-compared").or_insert(0) += 1;
            if decl_file != got {
                out.push(Finding { sig: format!("definition-disagrees:phase={phase}"), detail: format!("require(\"{s}\"): find_module -> {:?}, semantic declaration of the require call is in {:?}", got, decl_file), req: s.clone() });
            }
        } else if got.is_some() {
            *counts.entry("definition-unknown").or_insert(0) += 1;
        }
    }
    out
}

/// Whole evaluation of a case. `k` = number of fresh constructions for the determinism clause.
fn evaluate(c: &Case, k: usize, counts: &mut BTreeMap<&'static str, u64>) -> Vec<Finding> {
    let r = Reference::new(c);
    let roots = c.all_roots();
    let mut out: Vec<Finding> = Vec::new();
    // (1) fresh construction of the initial set, K times
    let mut firsts: Vec<BTreeMap<String, Option<String>>> = Vec::new();
    for i in 0..k {
        let a = build(c, &c.initial, true);
        if i == 0 {
            out.extend(judge_state(c, &r, &a, &c.initial, "fresh", counts));
            out.extend(judge_semantics(&a, "fresh", counts));
        }
        firsts.push(c.requires.iter().map(|s| (s.clone(), find(&a, s))).collect());
    }
    for s in &c.requires {
        let choices: BTreeSet<Option<String>> = firsts.iter().map(|m| m[s].clone()).collect();
        *counts.entry("determinism-compared").or_insert(0) += 1;
        if choices.len() > 1 {
            let set: BTreeSet<String> = choices.iter().flatten().cloned().collect();
            // one root cause per kind of competition: files that own the same module name, or
            // different names competing in the suffix lookup (or resolved / unresolved flapping)
            let names: BTreeSet<Option<String>> = set.iter().map(|f| r.names(f).0.first().cloned()).collect();
            let among = if choices.contains(&None) {
                "resolved-or-not"
            } else if names.len() == 1 {
                "files-sharing-a-module-name"
            } else {
                "fuzzy-candidates"
            };
            out.push(Finding { sig: format!("nondeterministic-choice:among={among}"), detail: format!("require(\"{s}\") resolves to {:?} in {k} constructions of the same workspace from the same file list ({})", choices, dup_shape(&set, &roots)), req: s.clone() });
        }
    }
    // (2) history, judged after every step; both removal entry points
    if !c.history.is_empty() {
        for alt in [false, true] {
            let mut a = build(c, &c.initial, true);
            let mut present = c.initial.clone();
            for (i, step) in c.history.iter().enumerate() {
                apply_history_one(c, &mut a, step, alt);
                match step {
                    Step::Add(f) => {
                        if !present.contains(f) {
                            present.push(f.clone())
                        }
                    }
                    Step::Remove(f) => present.retain(|x| x != f),
                    Step::Touch(_) => {}
                }
                let phase = match step {
                    Step::Add(_) => "after-add",
                    Step::Remove(_) => if alt { "after-remove(update-none)" } else { "after-remove" },
                    Step::Touch(_) => "after-touch",
                };
                out.extend(judge_state(c, &r, &a, &present, phase, counts));
                if i + 1 == c.history.len() {
                    out.extend(judge_semantics(&a, "after-history", counts));
                }
                *counts.entry("history-steps").or_insert(0) += 1;
            }
        }
    }
    // One signature per clause: a clause that already fails on the fresh construction is reported
    // without a phase; only failures that need a history keep the kind of step they appear after.
    let base = |sig: &str| sig.split(":phase=").next().unwrap_or(sig).to_string();
    let fresh: BTreeSet<(String, String)> = out.iter().filter(|f| f.sig.ends_with(":phase=fresh") || !f.sig.contains(":phase=")).map(|f| (base(&f.sig), f.req.clone())).collect();
    let mut seen: BTreeSet<(String, String)> = BTreeSet::new();
    let mut res = Vec::new();
    for f in out {
        let b = base(&f.sig);
        let is_fresh = f.sig.ends_with(":phase=fresh") || !f.sig.contains(":phase=");
        if !is_fresh && fresh.contains(&(b.clone(), f.req.clone())) {
            continue;
        }
        let sig = if is_fresh { b } else { f.sig.replace(":phase=", ":only-") };
        if seen.insert((sig.clone(), f.req.clone())) {
            res.push(Finding { sig, ..f });
        }
    }
    res
}

fn apply_history_one(_c: &Case, a: &mut EmmyLuaAnalysis, s: &Step, alt_remove: bool) {
    match s {
        Step::Add(f) | Step::Touch(f) => {
            a.update_file_by_path(&abs(f), Some(module_text(f)));
        }
        Step::Remove(f) => {
            if alt_remove {
                a.update_file_by_path(&abs(f), None);
            } else if let Some(uri) = file_path_to_uri(&abs(f)) {
                a.remove_file_by_uri(&uri);
            }
        }
    }
}

fn eval_guarded(c: &Case, k: usize, counts: &mut BTreeMap<&'static str, u64>) -> Result<Vec<Finding>, String> {
    guarded(|| evaluate(c, k, counts)).map_err(|p| format!("panic:{}", p.sig()))
}

fn shrink(c: &Case, sig: &str, req: &str, k: usize) -> Case {
    let mut scratch = BTreeMap::new();
    let mut still = |cand: &Case| -> bool { matches!(eval_guarded(cand, k, &mut scratch), Ok(f) if f.iter().any(|x| x.sig == sig)) };
    let mut cur = c.clone();
    // only the failing require string
    let one = Case { requires: vec![req.to_string()], ..cur.clone() };
    if still(&one) {
        cur = one;
    }
    // history steps
    let hist = crate::util::ddmin(cur.history.clone(), |h| still(&Case { history: h.to_vec(), ..cur.clone() }), 60);
    if still(&Case { history: hist.clone(), ..cur.clone() }) {
        cur.history = hist;
    }
    if !cur.history.is_empty() && still(&Case { history: vec![], ..cur.clone() }) {
        cur.history = vec![];
    }
    // files
    let files = crate::util::ddmin(cur.initial.clone(), |fs| !fs.is_empty() && still(&Case { initial: fs.to_vec(), ..cur.clone() }), 120);
    if still(&Case { initial: files.clone(), ..cur.clone() }) {
        cur.initial = files;
    }
    // configuration knobs
    let knobs: [fn(&mut Case); 6] = [
        |c: &mut Case| c.module_map.clear(),
        |c: &mut Case| c.require_pattern.clear(),
        |c: &mut Case| c.extensions.clear(),
        |c: &mut Case| c.lib_roots.clear(),
        |c: &mut Case| c.main_roots.truncate(1),
        |c: &mut Case| c.strict = false,
    ];
    for f in knobs {
        let mut cand = cur.clone();
        f(&mut cand);
        let roots = cand.all_roots();
        if cand.initial.iter().chain(cand.history.iter().map(|s| match s { Step::Add(f) | Step::Remove(f) | Step::Touch(f) => f })).all(|p| roots.iter().any(|r| p.starts_with(&format!("{r}/")))) && still(&cand) {
            cur = cand;
        }
    }
    cur
}

pub fn run(ctx: &mut Ctx) {
    if let Some(rep) = ctx.replay.clone() {
        match Case::from_json(&rep) {
            Some(c) => {
                let mut counts = BTreeMap::new();
                println!("replay: roots {:?} + libraries {:?}, {} files, {} history steps, requires {:?}", c.main_roots, c.lib_roots, c.initial.len(), c.history.len(), c.requires);
                match eval_guarded(&c, 16, &mut counts) {
                    Ok(f) if f.is_empty() => {
                        println!("replay: held ({counts:?})");
                        ctx.held(fnv(rep.to_string().as_bytes()), true);
                    }
                    Ok(f) => {
                        let mut seen = BTreeSet::new();
                        for x in f {
                            if seen.insert(x.sig.clone()) {
                                println!("replay: VIOLATED {}: {}", x.sig, x.detail);
                                ctx.violated(&format!("C33:{}", x.sig), &x.detail, rep.clone());
                            }
                        }
                    }
                    Err(p) => {
                        println!("replay: {p}");
                        ctx.violated(&format!("C33:{p}"), "panic while resolving", rep.clone());
                    }
                }
            }
            None => ctx.inconclusive("replay-malformed"),
        }
        return;
    }
    let n = ctx.budget(400, 20_000);
    let mut counts: BTreeMap<&'static str, u64> = BTreeMap::new();
    let mut shrunk: BTreeMap<String, u32> = BTreeMap::new();
    for i in 0..n {
        if ctx.out_of_time() {
            break;
        }
        let mut rng = Rng::new(ctx.case_seed(i));
        let c = gen_case(&mut rng);
        let k = 4;
        let before = counts.clone();
        let res = eval_guarded(&c, k, &mut counts);
        let fp = fnv(c.to_json().to_string().as_bytes());
        let delta = |key: &str| counts.get(key).copied().unwrap_or(0) - before.get(key).copied().unwrap_or(0);
        let resolved = delta("resolved") + delta("resolved-among-duplicates");
        match res {
            Err(p) => ctx.violated(&format!("C33:{p}"), "panic while building / resolving", c.to_json()),
            Ok(f) if f.is_empty() => {
                // non-trivial: at least 3 require strings resolved against the reference and one had to stay unresolved
                ctx.held(fp, resolved >= 3 && delta("unresolvable-ok") >= 1);
                if ctx.want_sample() && resolved >= 6 && i % 37 == 5 {
                    ctx.sample(json!({"case": c.to_json(), "resolved": resolved, "among_duplicates": delta("resolved-among-duplicates"), "unresolvable": delta("unresolvable-ok"), "unspecified": delta("unspecified")}));
                }
            }
            Ok(f) => {
                ctx.evaluations += 1;
                let mut seen = BTreeSet::new();
                for x in &f {
                    if !seen.insert(x.sig.clone()) {
                        continue;
                    }
                    let full = format!("C33:{}", x.sig);
                    let cnt = shrunk.entry(full.clone()).or_insert(0);
                    *cnt += 1;
                    if *cnt > 3 {
                        *ctx.sig_counts.entry(full).or_insert(0) += 1;
                        continue;
                    }
                    let kk = if x.sig.starts_with("nondeterministic") { 12 } else { 2 };
                    let small = shrink(&c, &x.sig, &x.req, kk);
                    let mut sc = BTreeMap::new();
                    let detail = eval_guarded(&small, kk, &mut sc).ok().and_then(|fs| fs.into_iter().find(|y| y.sig == x.sig)).map(|y| y.detail).unwrap_or_else(|| x.detail.clone());
                    ctx.add_violation(&full, &format!("{detail}; witness: files {:?}, history {:?}, roots {:?} + libraries {:?}, patterns {:?}, extensions {:?}, moduleMap {:?}, strict={}", small.initial, small.history, small.main_roots, small.lib_roots, small.require_pattern, small.extensions, small.module_map, small.strict), small.to_json());
                }
            }
        }
    }
    for (k, v) in &counts {
        ctx.clause_n(&format!("obs:{k}"), *v);
    }
    let _ = apply_history; // (kept for replays of prefixes)
    let _ = Case::final_files;
}
