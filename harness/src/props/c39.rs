//! C39 — in-place formatting (`luafmt --write`) never leaves a truncated file.
//!
//! Fault enumeration at the process boundary: pass 0 runs the shipped `luafmt --write <dir>` under
//! `strace -f` and records every file-mutating syscall issued from the first open of a target on.
//! Then the directory is restored and the run is repeated once per (syscall occurrence, fault):
//! SIGKILL on entry of that call (crash point) and, where the errno is one the call can really
//! return, ENOSPC / EFBIG / EIO (write failure). Finally whole-run RLIMIT_FSIZE limits below each
//! output size (SIGXFSZ ignored => EFBIG after a *partial* write; SIGXFSZ default => death after
//! a partial write). After every run each file of the directory must be byte-equal to its
//! original or (targets only) to its complete formatted content.

use crate::proc::{self, Cmd, Inject};
use crate::report::{Ctx, clip};
use crate::rng::{Rng, fnv};
use serde_json::{Value, json};
use std::collections::BTreeMap;
use std::path::{Path, PathBuf};

type Files = Vec<(String, Vec<u8>)>;

// ------------------------------------------------------------------------------------------------
// workload: a directory of unformatted Lua files

const NAMES: &[&str] = &["alpha", "beta", "gamma", "delta", "cfg", "util", "node", "item", "acc", "tmp", "idx", "val"];

fn ident(rng: &mut Rng) -> String {
    let mut s = rng.pick(NAMES).to_string();
    if rng.chance(1, 3) {
        s.push_str(&format!("{}", rng.below(100)));
    }
    s
}

fn sp(rng: &mut Rng) -> &'static str {
    rng.pick(&["", " ", "  ", "   ", "\t"])
}

fn expr(rng: &mut Rng, depth: u32) -> String {
    match rng.below(if depth > 2 { 4 } else { 8 }) {
        0 => format!("{}", rng.below(1000)),
        1 => format!("\"{}\"", ident(rng)),
        2 => ident(rng),
        3 => rng.pick(&["true", "false", "nil", "1.5", "0x1F"]).to_string(),
        4 => format!("{}{}+{}{}", expr(rng, depth + 1), sp(rng), sp(rng), expr(rng, depth + 1)),
        5 => {
            let n = rng.range(0, 4);
            let mut items = Vec::new();
            for _ in 0..n {
                if rng.bool() {
                    items.push(format!("{}{}={}{}", ident(rng), sp(rng), sp(rng), expr(rng, depth + 1)));
                } else {
                    items.push(expr(rng, depth + 1));
                }
            }
            format!("{{{}{}{}}}", sp(rng), items.join(if rng.bool() { "," } else { " ,  " }), sp(rng))
        }
        6 => format!("{}({}{}{})", ident(rng), sp(rng), expr(rng, depth + 1), sp(rng)),
        _ => format!("{} ..{}", expr(rng, depth + 1), expr(rng, depth + 1)), // "1..2" would be a malformed number
    }
}

fn stmt(rng: &mut Rng, depth: u32, out: &mut String) {
    let ind = sp(rng);
    match rng.below(if depth > 2 { 5 } else { 10 }) {
        0 => out.push_str(&format!("{ind}local {}{}={}{}\n", ident(rng), sp(rng), sp(rng), expr(rng, 0))),
        1 => out.push_str(&format!("{ind}{}{}={}{}\n", ident(rng), sp(rng), sp(rng), expr(rng, 0))),
        2 => out.push_str(&format!("{ind}--{}{}\n", sp(rng), ident(rng))),
        3 => out.push_str(&format!("{ind}{}({}{}{})\n", ident(rng), sp(rng), expr(rng, 0), sp(rng))),
        4 => out.push_str(&format!("{ind}local {},{}={},{}\n\n\n", ident(rng), ident(rng), expr(rng, 1), expr(rng, 1))),
        5 => {
            out.push_str(&format!("{ind}local function {}({}{},{}){}", ident(rng), sp(rng), ident(rng), ident(rng), if rng.bool() { "\n" } else { " " }));
            let n = rng.range(1, 3);
            for _ in 0..n {
                stmt(rng, depth + 1, out);
            }
            out.push_str(&format!("return {} end\n", expr(rng, 1)));
        }
        6 => {
            out.push_str(&format!("{ind}if {} {}then\n", expr(rng, 1), sp(rng)));
            stmt(rng, depth + 1, out);
            if rng.bool() {
                out.push_str("else\n");
                stmt(rng, depth + 1, out);
            }
            out.push_str("end\n");
        }
        7 => {
            out.push_str(&format!("{ind}for i={},{} do ", rng.below(5), rng.below(50)));
            stmt(rng, depth + 1, out);
            out.push_str(" end\n");
        }
        8 => {
            out.push_str(&format!("{ind}while {} do\n", expr(rng, 1)));
            stmt(rng, depth + 1, out);
            out.push_str("end\n");
        }
        _ => out.push_str(&format!("{ind}return_{}={}\n", rng.below(9), expr(rng, 0))),
    }
}

fn messy_lua(rng: &mut Rng, stmts: usize) -> String {
    let mut s = String::new();
    for _ in 0..stmts {
        stmt(rng, 0, &mut s);
    }
    s
}

fn gen_dir(rng: &mut Rng, big: bool, quick: bool) -> Files {
    let mut files: Files = Vec::new();
    // pin the style so that no config of an ancestor directory matters
    let mut cfg = String::new();
    if rng.bool() {
        cfg.push_str(&format!("[indent]\nkind = \"{}\"\nwidth = {}\n", if rng.chance(1, 4) { "Tab" } else { "Space" }, rng.pick(&[2usize, 3, 4, 8])));
    }
    if rng.bool() {
        cfg.push_str(&format!("[layout]\nmax_line_width = {}\n", rng.pick(&[40usize, 80, 120])));
    }
    files.push((".luafmt.toml".into(), cfg.into_bytes()));
    // quick: 2-3 unformatted files (~60-100 fault points); thorough: 3-6
    let nfiles = if quick { rng.range(2, 3) } else { rng.range(3, 6) };
    let dirs = ["", "sub/", "sub/deep/", "lib/"];
    for i in 0..nfiles {
        let d = rng.pick(&dirs);
        let mut name = format!("{d}{}_{i}.lua", rng.pick(NAMES));
        if i == 1 && rng.chance(1, 3) {
            // a file name of exactly 255 bytes: no sibling with a longer name (a temporary file) can be created
            // next to it, so whatever the tool does instead must still be all-or-nothing
            let stem = format!("{}_{i}_", rng.pick(NAMES));
            name = format!("{d}{stem}{}.lua", "n".repeat(255 - stem.len() - 4));
        }
        let stmts = if big && i == 0 { rng.range(2000, 6000) } else { rng.pick(&[1usize, 3, 8, 20, 60, 200]) };
        let mut text = messy_lua(rng, stmts);
        if rng.chance(1, 6) {
            text = text.replace('\n', "\r\n");
        }
        files.push((name, text.into_bytes()));
    }
    // bystanders: an already-formatted file, a file that does not parse, a non-Lua file
    if rng.bool() {
        files.push(("clean.lua".into(), b"local a = 1\nreturn a\n".to_vec()));
    }
    if rng.bool() {
        files.push(("broken.lua".into(), b"local t = {\nfunction (\n".to_vec()));
    }
    if rng.bool() {
        files.push(("notes.txt".into(), b"local x=1   -- not lua, must never be touched\n".to_vec()));
    }
    files.sort();
    files.dedup_by(|a, b| a.0 == b.0);
    files
}

// ------------------------------------------------------------------------------------------------
// fault model

#[derive(Clone, Debug, PartialEq)]
enum Fault {
    /// crash on entry of the `rel`-th call of `syscall` counted from the first open of a target
    Kill { syscall: String, rel: u32 },
    /// that call fails with errno
    Error { syscall: String, rel: u32, errno: String },
    /// whole-run RLIMIT_FSIZE = limit; SIGXFSZ ignored (=> EFBIG after a partial write) or default (=> death)
    Rlimit { limit: u64, ignore_sigxfsz: bool },
}

impl Fault {
    fn label(&self) -> String {
        match self {
            Fault::Kill { syscall, .. } => format!("KILL@{syscall}"),
            Fault::Error { syscall, errno, .. } => format!("{errno}@{syscall}"),
            Fault::Rlimit { ignore_sigxfsz: true, .. } => "RLIMIT_FSIZE+EFBIG".into(),
            Fault::Rlimit { ignore_sigxfsz: false, .. } => "RLIMIT_FSIZE+SIGXFSZ".into(),
        }
    }
    fn to_json(&self) -> Value {
        match self {
            Fault::Kill { syscall, rel } => json!({"kind": "KILL", "syscall": syscall, "rel": rel}),
            Fault::Error { syscall, rel, errno } => json!({"kind": "ERROR", "syscall": syscall, "rel": rel, "errno": errno}),
            Fault::Rlimit { limit, ignore_sigxfsz } => json!({"kind": "RLIMIT", "limit": limit, "ignore_sigxfsz": ignore_sigxfsz}),
        }
    }
    fn from_json(v: &Value) -> Option<Fault> {
        let s = |k: &str| v[k].as_str().map(|x| x.to_string());
        match v["kind"].as_str()? {
            "KILL" => Some(Fault::Kill { syscall: s("syscall")?, rel: v["rel"].as_u64()? as u32 }),
            "ERROR" => Some(Fault::Error { syscall: s("syscall")?, rel: v["rel"].as_u64()? as u32, errno: s("errno")? }),
            "RLIMIT" => Some(Fault::Rlimit { limit: v["limit"].as_u64()?, ignore_sigxfsz: v["ignore_sigxfsz"].as_bool()? }),
            _ => None,
        }
    }
}

/// errnos a *write failure* (full disk, quota, file-size limit, I/O error) can really surface as at this call
fn plausible_errnos(name: &str, args: &str) -> &'static [&'static str] {
    match name {
        "write" | "pwrite64" | "writev" | "pwritev" | "pwritev2" => &["ENOSPC", "EFBIG"],
        "open" | "openat" | "openat2" | "creat" => {
            if name == "creat" || args.contains("O_CREAT") || args.contains("O_TMPFILE") {
                &["ENOSPC"]
            } else {
                &[]
            }
        }
        "close" => &["ENOSPC"], // deferred write error (close(2): NFS / quota)
        "fsync" | "fdatasync" | "sync_file_range" => &["ENOSPC", "EIO"],
        "rename" | "renameat" | "renameat2" | "link" | "linkat" | "symlink" | "symlinkat" | "mkdir" | "mkdirat" => &["ENOSPC"],
        "ftruncate" | "truncate" => &["EFBIG", "EIO"],
        "fallocate" | "copy_file_range" | "sendfile" => &["ENOSPC", "EFBIG"],
        _ => &[],
    }
}

struct Pass0 {
    /// file contents after the undisturbed run
    formatted: BTreeMap<String, Vec<u8>>,
    /// enumerated points: (syscall, rel index among that syscall's calls in the target phase, args)
    points: Vec<(String, u32, String)>,
    /// number of calls of each syscall *before* the target phase (to turn `rel` into strace's `when=`)
    before: BTreeMap<String, u32>,
    syscalls_total: usize,
}

struct Env {
    luafmt: PathBuf,
    scratch: PathBuf,
    dir: PathBuf,
    home: PathBuf,
    log: PathBuf,
}

impl Env {
    fn new(ctx: &Ctx) -> Result<Env, String> {
        let luafmt = proc::repo_bin(&ctx.work, "luafmt")?;
        let scratch = proc::scratch_dir(&ctx.work, "c39", ctx.shard);
        let scratch = scratch.canonicalize().unwrap_or(scratch);
        Ok(Env { luafmt, dir: scratch.join("d"), home: scratch.join("home"), log: scratch.join("strace.log"), scratch })
    }
    fn base_cmd(&self, as_files: &Option<Vec<String>>) -> Cmd {
        proc::fresh_home(&self.home);
        let mut c = Cmd::new(&self.luafmt, &self.home).arg("--write").cwd(&self.scratch);
        match as_files {
            Some(list) => {
                for f in list {
                    c = c.arg(self.dir.join(f).to_string_lossy().to_string());
                }
            }
            None => c = c.arg(self.dir.to_string_lossy().to_string()),
        }
        c.wall_limit_secs = 120.0;
        c
    }
}

fn is_target(rel: &str) -> bool {
    rel.ends_with(".lua")
}

/// The in-process statement of "complete formatted content": same library entry points the CLI uses.
fn inprocess_formatted(dir: &Path, rel: &str, original: &[u8]) -> Option<Vec<u8>> {
    let src = std::str::from_utf8(original).ok()?;
    let path = dir.join(rel);
    let resolved = emmylua_formatter::resolve_config_for_path(Some(&path), None).ok()?;
    let out = emmylua_formatter::check_text(src, resolved.config.syntax.level.into(), &resolved.config);
    Some(out.formatted.into_bytes())
}

fn pass0(env: &Env, files: &Files, as_files: &Option<Vec<String>>) -> Result<Pass0, String> {
    proc::materialize(&env.dir, files)?;
    let _ = std::fs::remove_file(&env.log);
    let cmd = proc::strace_wrap(&env.base_cmd(as_files), &env.log, proc::FILE_SYSCALLS, None);
    let out = proc::run(&cmd)?;
    if out.watchdog {
        return Err("pass0-watchdog".into());
    }
    if out.code != Some(0) {
        return Err(format!("pass0-status:{}", out.status_str()));
    }
    let text = std::fs::read_to_string(&env.log).map_err(|e| format!("pass0-no-strace-log:{e}"))?;
    let log = proc::parse_strace(&text);
    let pids: std::collections::BTreeSet<u32> = log.calls.iter().map(|c| c.pid).collect();
    if pids.len() != 1 {
        return Err(format!("pass0-unexpected-process-count:{}", pids.len()));
    }
    let dir_s = env.dir.to_string_lossy().to_string();
    let entries: Vec<&proc::SysLine> = log.calls.iter().filter(|c| c.entry).collect();
    let first = entries.iter().position(|c| c.name.starts_with("open") && proc::quoted_strings(&c.args).iter().any(|p| p.starts_with(&dir_s) && p.len() > dir_s.len() && is_target(p)));
    let Some(first) = first else {
        return Err("pass0-no-target-opened".into());
    };
    let mut before: BTreeMap<String, u32> = BTreeMap::new();
    for c in &entries[..first] {
        *before.entry(c.name.clone()).or_insert(0) += 1;
    }
    let mut rel: BTreeMap<String, u32> = BTreeMap::new();
    let mut points = Vec::new();
    // Fault points = the calls that can change a file, plus the close of every descriptor that was
    // opened for writing. A crash before a read-only open / its close leaves exactly the state of
    // a crash before the next mutating call, so those are not separate points (their calls still
    // count for strace's `when=` numbering).
    let mut write_fds: std::collections::BTreeSet<String> = std::collections::BTreeSet::new();
    let mut skipped = 0usize;
    for c in &entries[first..] {
        let r = rel.entry(c.name.clone()).or_insert(0);
        *r += 1;
        let fd = c.ret.split_whitespace().next().unwrap_or("").to_string();
        let interesting = match c.name.as_str() {
            "open" | "openat" | "openat2" | "creat" => {
                let w = c.name == "creat" || ["O_WRONLY", "O_RDWR", "O_CREAT", "O_TRUNC", "O_APPEND", "O_TMPFILE"].iter().any(|f| c.args.contains(f));
                if w && fd.chars().all(|ch| ch.is_ascii_digit()) && !fd.is_empty() {
                    write_fds.insert(fd.clone());
                }
                w
            }
            "close" => {
                let arg = c.args.trim().to_string();
                write_fds.remove(&arg)
            }
            "dup" | "dup2" | "dup3" => false,
            _ => true,
        };
        if interesting {
            points.push((c.name.clone(), *r, c.args.clone()));
        } else {
            skipped += 1;
        }
    }
    let _ = skipped;
    let formatted: BTreeMap<String, Vec<u8>> = proc::snapshot_dir(&env.dir).into_iter().collect();
    // the undisturbed run itself must satisfy the oracle's model of "formatted"
    for (rel, orig) in files {
        let got = formatted.get(rel).ok_or_else(|| format!("pass0-file-vanished:{rel}"))?;
        if is_target(rel) {
            match inprocess_formatted(&env.dir, rel, orig) {
                Some(exp) if &exp == got => {}
                Some(_) => return Err("pass0-differs-from-inprocess-formatter".into()),
                None => {
                    if got != orig {
                        return Err("pass0-changed-unformattable-file".into());
                    }
                }
            }
        } else if got != orig {
            return Err("pass0-non-target-changed".into());
        }
    }
    Ok(Pass0 { formatted, points, before, syscalls_total: entries.len() })
}

#[derive(Debug)]
struct Bad {
    rel: String,
    state: &'static str,
    detail: String,
}

fn classify(files: &Files, formatted: &BTreeMap<String, Vec<u8>>, after: &BTreeMap<String, Vec<u8>>) -> (Vec<Bad>, usize, usize, usize) {
    let mut bad = Vec::new();
    let (mut n_orig, mut n_fmt) = (0usize, 0usize);
    for (rel, orig) in files {
        let fmt = formatted.get(rel);
        match after.get(rel) {
            None => bad.push(Bad { rel: rel.clone(), state: "missing", detail: format!("{rel} no longer exists (original {} bytes)", orig.len()) }),
            Some(now) => {
                if now == orig {
                    n_orig += 1;
                } else if is_target(rel) && Some(now) == fmt {
                    n_fmt += 1;
                } else if !is_target(rel) {
                    bad.push(Bad { rel: rel.clone(), state: "non-target-modified", detail: format!("{rel}: {} bytes, original {} bytes", now.len(), orig.len()) });
                } else {
                    let f = fmt.map(|v| v.as_slice()).unwrap_or(&[]);
                    let state = if now.len() < f.len() && f.starts_with(now) {
                        "truncated"
                    } else if now.len() < orig.len() && orig.starts_with(now) {
                        "truncated-original"
                    } else {
                        "corrupt"
                    };
                    bad.push(Bad { rel: rel.clone(), state, detail: format!("{rel}: {} bytes on disk; original {} bytes, formatted {} bytes", now.len(), orig.len(), f.len()) });
                }
            }
        }
    }
    let stray = after.keys().filter(|k| !files.iter().any(|(r, _)| r == *k)).count();
    (bad, n_orig, n_fmt, stray)
}

enum RunResult {
    /// (bad files, #original, #formatted, #stray files, process status)
    Done(Vec<Bad>, usize, usize, usize, String),
    Inconclusive(String),
}

fn run_fault(env: &Env, files: &Files, as_files: &Option<Vec<String>>, p0: &Pass0, fault: &Fault) -> RunResult {
    if let Err(e) = proc::materialize(&env.dir, files) {
        return RunResult::Inconclusive(format!("harness-io:{e}"));
    }
    let base = env.base_cmd(as_files);
    let out = match fault {
        Fault::Rlimit { limit, ignore_sigxfsz } => {
            let mut c = base;
            c.rlimit_fsize = Some(*limit);
            c.ignore_sigxfsz = *ignore_sigxfsz;
            match proc::run(&c) {
                Ok(o) => o,
                Err(e) => return RunResult::Inconclusive(format!("harness:{e}")),
            }
        }
        Fault::Kill { syscall, rel } | Fault::Error { syscall, rel, .. } => {
            let when = p0.before.get(syscall).copied().unwrap_or(0) + rel;
            let inj = match fault {
                Fault::Kill { .. } => Inject::Kill { syscall: syscall.clone(), when },
                Fault::Error { errno, .. } => Inject::Error { syscall: syscall.clone(), when, errno: errno.clone() },
                _ => unreachable!(),
            };
            let _ = std::fs::remove_file(&env.log);
            let c = proc::strace_wrap(&base, &env.log, proc::FILE_SYSCALLS, Some(&inj));
            let o = match proc::run(&c) {
                Ok(o) => o,
                Err(e) => return RunResult::Inconclusive(format!("harness:{e}")),
            };
            if o.watchdog {
                return RunResult::Inconclusive("watchdog".into());
            }
            let text = std::fs::read_to_string(&env.log).unwrap_or_default();
            let log = proc::parse_strace(&text);
            let reached = match fault {
                Fault::Kill { .. } => log.killed() && log.last_entry().map(|c| &c.name == syscall && c.ret.trim() == "?").unwrap_or(false),
                _ => log.calls.iter().any(|c| c.injected && &c.name == syscall),
            };
            if !reached {
                return RunResult::Inconclusive("fault-not-reached".into());
            }
            o
        }
    };
    if out.watchdog {
        return RunResult::Inconclusive("watchdog".into());
    }
    let after: BTreeMap<String, Vec<u8>> = proc::snapshot_dir(&env.dir).into_iter().collect();
    let (bad, n_orig, n_fmt, stray) = classify(files, &p0.formatted, &after);
    RunResult::Done(bad, n_orig, n_fmt, stray, out.status_str())
}

fn enumerate_faults(files: &Files, p0: &Pass0) -> Vec<Fault> {
    let mut v = Vec::new();
    for (name, rel, args) in &p0.points {
        v.push(Fault::Kill { syscall: name.clone(), rel: *rel });
        for e in plausible_errnos(name, args) {
            v.push(Fault::Error { syscall: name.clone(), rel: *rel, errno: e.to_string() });
        }
    }
    // file-size limits below each produced output
    let mut limits: Vec<u64> = vec![0, 1];
    let mut largest = 0u64;
    for (rel, orig) in files {
        if let Some(f) = p0.formatted.get(rel) {
            if f != orig && !f.is_empty() {
                limits.push(f.len() as u64 - 1);
                largest = largest.max(f.len() as u64);
            }
        }
    }
    if largest > 3 {
        limits.push(largest / 2);
    }
    limits.sort();
    limits.dedup();
    for l in limits {
        v.push(Fault::Rlimit { limit: l, ignore_sigxfsz: true });
        v.push(Fault::Rlimit { limit: l, ignore_sigxfsz: false });
    }
    v
}

fn files_json(files: &Files) -> Value {
    Value::Array(files.iter().map(|(r, d)| json!({"path": r, "content": String::from_utf8_lossy(d)})).collect())
}

fn files_from_json(v: &Value) -> Files {
    v.as_array()
        .map(|a| a.iter().filter_map(|f| Some((f["path"].as_str()?.to_string(), f["content"].as_str()?.as_bytes().to_vec()))).collect())
        .unwrap_or_default()
}

fn dir_fp(files: &Files) -> u64 {
    let mut h = 0u64;
    for (r, d) in files {
        h = h.rotate_left(7) ^ fnv(r.as_bytes()) ^ fnv(d).rotate_left(17);
    }
    h
}

/// Reduce a violating case to one small directory (config + the damaged file) with the same
/// fault label and the same resulting state, so that the witness and the signature are stable.
fn shrink(env: &Env, files: &Files, bad_rel: &str, state: &str, fault: &Fault) -> Option<(Files, Fault, String)> {
    let small: Files = files.iter().filter(|(r, _)| r == bad_rel || r == ".luafmt.toml").cloned().collect();
    let p0 = pass0(env, &small, &None).ok()?;
    let label = fault.label();
    for f in enumerate_faults(&small, &p0) {
        if f.label() != label {
            continue;
        }
        if let RunResult::Done(bad, ..) = run_fault(env, &small, &None, &p0, &f) {
            if let Some(b) = bad.iter().find(|b| b.rel == bad_rel && b.state == state) {
                return Some((small, f, b.detail.clone()));
            }
        }
    }
    None
}

fn replay(ctx: &mut Ctx, env: &Env, rep: &Value) {
    let files = files_from_json(&rep["files"]);
    let as_files: Option<Vec<String>> = rep["as_files"].as_array().map(|a| a.iter().filter_map(|x| x.as_str().map(|s| s.to_string())).collect());
    let Some(fault) = Fault::from_json(&rep["fault"]) else {
        println!("replay: malformed fault");
        ctx.inconclusive("replay-malformed");
        return;
    };
    println!("replay: {} files, fault {}", files.len(), fault.label());
    println!("expected: after the run every file equals its complete original or its complete formatted content");
    let p0 = match pass0(env, &files, &as_files) {
        Ok(p) => p,
        Err(e) => {
            println!("replay: pass 0 failed: {e}");
            ctx.inconclusive(&format!("replay-pass0:{e}"));
            return;
        }
    };
    match run_fault(env, &files, &as_files, &p0, &fault) {
        RunResult::Inconclusive(r) => {
            println!("replay: inconclusive ({r})");
            ctx.inconclusive(&r);
        }
        RunResult::Done(bad, n_orig, n_fmt, _, status) => {
            println!("observed: luafmt {status}; {n_orig} files original, {n_fmt} formatted, {} damaged", bad.len());
            if bad.is_empty() {
                ctx.held(dir_fp(&files), true);
            }
            for b in &bad {
                println!("  DAMAGED {}: {}", b.state, b.detail);
                ctx.violated(&format!("C39:{}:fault={}", b.state, fault.label()), &b.detail, rep.clone());
            }
        }
    }
}

pub fn run(ctx: &mut Ctx) {
    let env = match Env::new(ctx) {
        Ok(e) => e,
        Err(e) => {
            ctx.inconclusive(&e);
            return;
        }
    };
    if let Some(rep) = ctx.replay.clone() {
        replay(ctx, &env, &rep);
        let _ = std::fs::remove_dir_all(&env.scratch);
        return;
    }
    // Q: one directory per shard (16 directories); T: 4 per shard, one of them with a long file
    let n = ctx.budget(1, 4);
    let mut kinds: BTreeMap<String, u64> = BTreeMap::new();
    for i in 0..n {
        if ctx.out_of_time() {
            break;
        }
        let mut rng = Rng::new(ctx.case_seed(i));
        let big = !ctx.is_quick() && i % 4 == 3;
        let files = gen_dir(&mut rng, big, ctx.is_quick());
        let as_files: Option<Vec<String>> = if rng.chance(1, 4) { Some(files.iter().map(|f| f.0.clone()).filter(|r| is_target(r)).collect()) } else { None };
        let p0 = match pass0(&env, &files, &as_files) {
            Ok(p) => p,
            Err(e) => {
                ctx.inconclusive(&e);
                continue;
            }
        };
        ctx.clause("pass0:enumerated");
        let changing = files.iter().filter(|(r, o)| p0.formatted.get(r).map(|f| f != o).unwrap_or(false)).count();
        let faults = enumerate_faults(&files, &p0);
        ctx.extra_add("directories", 1);
        ctx.extra_add("fault_points_enumerated", faults.len() as u64);
        ctx.extra_add("syscalls_in_target_phase", p0.points.len() as u64);
        ctx.extra_add("files_rewritten", changing as u64);
        // generated files that luafmt leaves alone (the generator meant them to be rewritten)
        for (r, o) in &files {
            if is_target(r) && r != "clean.lua" && r != "broken.lua" && p0.formatted.get(r) == Some(o) {
                ctx.extra_add("generated_files_left_unchanged", 1);
                if std::env::var("C39_DEBUG").is_ok() {
                    eprintln!("[c39] unchanged generated file {r}:\n{}", String::from_utf8_lossy(o));
                }
            }
        }
        let dfp = dir_fp(&files);
        let mut shrunk_sigs: Vec<String> = Vec::new();
        for fault in &faults {
            // exhaustive over the enumerated points of this directory: the time bound is not applied here
            let label = fault.label();
            match run_fault(&env, &files, &as_files, &p0, fault) {
                RunResult::Inconclusive(r) => ctx.inconclusive(&r),
                RunResult::Done(bad, n_orig, n_fmt, stray, status) => {
                    ctx.extra_add("fault_points_run", 1);
                    *kinds.entry(label.clone()).or_insert(0) += 1;
                    ctx.clause(match fault {
                        Fault::Kill { .. } => "fault:kill",
                        Fault::Error { .. } => "fault:errno",
                        Fault::Rlimit { .. } => "fault:rlimit",
                    });
                    if stray > 0 {
                        ctx.extra_add("runs_leaving_stray_files", 1);
                    }
                    let fp = dfp ^ fnv(format!("{:?}", fault).as_bytes());
                    if bad.is_empty() {
                        ctx.held(fp, changing > 0);
                        if ctx.want_sample() && (n_orig > 0 && n_fmt > 0) && ctx.samples.len() < 4 {
                            ctx.sample(json!({"fault": fault.to_json(), "status": status, "files_original": n_orig, "files_formatted": n_fmt, "files": files.iter().map(|f| format!("{} ({} B)", f.0, f.1.len())).collect::<Vec<_>>() }));
                        }
                        continue;
                    }
                    // one evaluation per fault run; one violation entry per distinct (state, label)
                    ctx.evaluations += 1;
                    for b in &bad {
                        let sig = format!("C39:{}:fault={}", b.state, label);
                        if shrunk_sigs.contains(&sig) {
                            *ctx.sig_counts.entry(sig).or_insert(0) += 1;
                            continue;
                        }
                        shrunk_sigs.push(sig.clone());
                        let (wfiles, wfault, wdetail, was) = match shrink(&env, &files, &b.rel, b.state, fault) {
                            Some((f, fl, d)) => (f, fl, d, None),
                            None => (files.clone(), fault.clone(), b.detail.clone(), as_files.clone()),
                        };
                        let detail = format!("{wdetail}; luafmt {status}; fault {} (1 of {} enumerated points in a directory of {} files)", label, faults.len(), files.len());
                        ctx.add_violation(&sig, &detail, json!({"files": files_json(&wfiles), "fault": wfault.to_json(), "as_files": was, "state": b.state}));
                    }
                }
            }
        }
        ctx.extra_set("fault_kinds_run", json!(kinds));
        if ctx.want_sample() {
            ctx.sample(json!({"directory": files.iter().map(|f| format!("{} ({} B)", f.0, f.1.len())).collect::<Vec<_>>(), "syscalls_total": p0.syscalls_total, "target_phase_syscalls": p0.points.iter().take(12).map(|p| format!("{}#{}({})", p.0, p.1, clip(&p.2, 60))).collect::<Vec<_>>(), "fault_points": faults.len()}));
        }
    }
    let _ = std::fs::remove_dir_all(&env.scratch);
}
