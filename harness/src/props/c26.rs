//! C26 — LSP results are structurally valid (SimServer E2, validators over decoded results).

use crate::corpus::Corpus;
use crate::gens::soup;
use crate::lspdrive::*;
use crate::report::{Ctx, clip};
use crate::rng::{Rng, fnv};
use serde_json::{Value, json};

type P = (u64, u64);

struct V<'a> {
    lines: &'a Lines,
    uri: &'a str,
    out: Vec<(String, String)>,
    checked: std::collections::BTreeMap<&'static str, u64>,
}

impl<'a> V<'a> {
    fn bad(&mut self, clause: &str, detail: String) {
        self.out.push((format!("C26:{clause}"), detail));
    }
    fn seen(&mut self, what: &'static str) {
        *self.checked.entry(what).or_insert(0) += 1;
    }
    /// range of THIS document must lie inside it
    fn range(&mut self, what: &'static str, r: &Value) -> Option<(P, P)> {
        self.seen(what);
        match self.lines.range_ok(r) {
            Ok(x) => Some(x),
            Err(e) => {
                let kind = if e.starts_with("inverted") { "inverted-range" } else if e.starts_with("malformed") { "malformed-range" } else { "range-outside-document" };
                self.bad(&format!("{kind}:in={what}"), e);
                None
            }
        }
    }
    /// a Location / LocationLink: only judged when it points into this document
    fn location(&mut self, what: &'static str, loc: &Value) {
        let (uri, r) = if loc.get("targetUri").is_some() { (loc["targetUri"].as_str(), &loc["targetSelectionRange"]) } else { (loc["uri"].as_str(), &loc["range"]) };
        if uri == Some(self.uri) {
            self.range(what, r);
            if loc.get("targetRange").is_some() {
                let tr = loc["targetRange"].clone();
                if let (Some(a), Some(b)) = (self.range(what, &tr), self.lines.range_ok(r).ok()) {
                    if !(a.0 <= b.0 && b.1 <= a.1) {
                        self.bad(&format!("selection-range-outside-target-range:in={what}"), format!("{loc}"));
                    }
                }
            }
        }
    }
    fn locations(&mut self, what: &'static str, v: &Value) {
        match v {
            Value::Array(a) => {
                for l in a {
                    self.location(what, l);
                }
            }
            Value::Object(_) => self.location(what, v),
            _ => {}
        }
    }
    fn edits_disjoint(&mut self, what: &'static str, edits: &[Value]) {
        let mut rs: Vec<(P, P)> = Vec::new();
        for e in edits {
            let r = if e.get("range").is_some() { &e["range"] } else { &e["insert"] };
            if let Some(x) = self.range(what, r) {
                rs.push(x);
            }
        }
        rs.sort();
        for w in rs.windows(2) {
            // overlapping = the second starts before the first ends (two inserts at the same point are allowed by the spec only if ordered; we accept them)
            if w[1].0 < w[0].1 {
                self.bad(&format!("overlapping-edits:in={what}"), format!("{:?} overlaps {:?}", w[0], w[1]));
                break;
            }
        }
    }
    fn workspace_edit(&mut self, what: &'static str, we: &Value) {
        if let Some(ch) = we["changes"].as_object() {
            for (u, edits) in ch {
                if u == self.uri {
                    if let Some(a) = edits.as_array() {
                        self.edits_disjoint(what, a);
                    }
                }
            }
        }
        if let Some(dc) = we["documentChanges"].as_array() {
            for d in dc {
                if d["textDocument"]["uri"].as_str() == Some(self.uri) {
                    if let Some(a) = d["edits"].as_array() {
                        self.edits_disjoint(what, a);
                    }
                }
            }
        }
    }
    fn symbols(&mut self, syms: &[Value], parent: Option<(P, P)>) {
        for s in syms {
            if s.get("location").is_some() {
                // flat SymbolInformation
                self.location("documentSymbol", &s["location"]);
                continue;
            }
            let r = self.range("documentSymbol.range", &s["range"]);
            let sel = self.range("documentSymbol.selectionRange", &s["selectionRange"]);
            if let (Some(r), Some(sel)) = (r, sel) {
                if !(r.0 <= sel.0 && sel.1 <= r.1) {
                    self.bad("symbol-selection-range-outside-range", format!("{} range {:?} selection {:?}", s["name"], r, sel));
                }
                if let Some(p) = parent {
                    if !(p.0 <= r.0 && r.1 <= p.1) {
                        self.bad("symbol-child-outside-parent", format!("{} range {:?} parent {:?}", s["name"], r, p));
                    }
                }
                if let Some(ch) = s["children"].as_array() {
                    self.symbols(ch, Some(r));
                }
            }
        }
    }
    /// `pieces`: for every lexical token of the document that spans several lines, its non-final lines as
    /// (line, start column, UTF-16 length up to the end of the line). A semantic token that starts where such a
    /// piece starts has been split per line by the server and must cover the piece exactly (C23: lengths are
    /// UTF-16 code units too).
    fn semantic_tokens(&mut self, data: &[Value], ntypes: usize, nmods: usize, multiline: bool, pieces: &[(u64, u64, u64)]) {
        let (mut line, mut ch) = (0u64, 0u64);
        let mut prev_end: Option<(u64, u64)> = None;
        if data.len() % 5 != 0 {
            self.bad("semantic-tokens-length-not-multiple-of-5", format!("{}", data.len()));
            return;
        }
        for (i, t) in data.chunks(5).enumerate() {
            let g = |k: usize| t[k].as_u64().unwrap_or(u64::MAX);
            let (dl, dc, len, ty, md) = (g(0), g(1), g(2), g(3), g(4));
            if dl == 0 {
                ch += dc;
            } else {
                line += dl;
                ch = dc;
            }
            self.seen("semanticTokens.token");
            if ty as usize >= ntypes {
                self.bad("semantic-token-type-outside-legend", format!("token {i}: type {ty} legend {ntypes}"));
            }
            if nmods < 64 && md >> nmods != 0 {
                self.bad("semantic-token-modifier-outside-legend", format!("token {i}: modifiers {md:#b} legend {nmods}"));
            }
            if !self.lines.pos_in_doc(line, ch) {
                self.bad("semantic-token-outside-document", format!("token {i} at {line}:{ch}"));
                return;
            }
            if let Some(pe) = prev_end {
                if (line, ch) < pe {
                    self.bad("semantic-tokens-overlap-or-unordered", format!("token {i} at {line}:{ch} starts before the previous token ends at {}:{}", pe.0, pe.1));
                }
            }
            if !multiline {
                if let Some(p) = pieces.iter().find(|p| p.0 == line && p.1 == ch) {
                    self.seen("semanticTokens.multi-line-piece");
                    if len != p.2 {
                        self.bad("semantic-token-piece-length-not-utf16-line-rest", format!("token {i} at {line}:{ch} len {len}: it is one line of a multi-line token and the rest of that line is {} UTF-16 units", p.2));
                    }
                }
            }
            if !multiline && ch + len > self.lines.line_len_max(line) {
                self.bad("semantic-token-runs-past-line-end", format!("token {i} at {line}:{ch} len {len}, line has {} units", self.lines.line_len_max(line)));
            }
            prev_end = Some((line, ch + len));
        }
    }
}

/// Non-final lines of every string token that contains a line break: (line, start column, UTF-16 units to the
/// end of the line), by the LSP position model (UTF-16; \n, \r\n, \r).
pub fn multi_line_pieces(text: &str) -> Vec<(u64, u64, u64)> {
    use emmylua_parser::{LuaParser, LuaTokenKind, ParserConfig};
    let model = crate::posmodel::PosModel::lsp(text);
    let tree = LuaParser::parse(text, ParserConfig::default());
    let mut out = Vec::new();
    for el in tree.get_red_root().descendants_with_tokens() {
        let rowan::NodeOrToken::Token(t) = el else { continue };
        let kind: LuaTokenKind = t.kind().into();
        // strings only: the server highlights words *inside* comments (doc tags, markup) with tokens of their own,
        // which may start where a line of the comment starts without being that line
        if !matches!(kind, LuaTokenKind::TkLongString | LuaTokenKind::TkString) || !t.text().contains(['\n', '\r']) {
            continue;
        }
        let r = t.text_range();
        let (s, e) = (usize::from(r.start()), usize::from(r.end()));
        if e > text.len() {
            continue;
        }
        let ((sl, sc), (el_, _)) = model.range_of(s, e);
        for line in sl..el_ {
            let Some(len) = model.line_len_units(line) else { continue };
            let start = if line == sl { sc } else { 0 };
            if len >= start {
                out.push((line as u64, start as u64, (len - start) as u64));
            }
        }
    }
    out
}

fn selection_chain(v: &mut V, sr: &Value, cursor: Option<P>) {
    let mut cur = sr;
    let mut prev: Option<(P, P)> = None;
    let mut depth = 0;
    while cur.is_object() && depth < 500 {
        let Some(r) = v.range("selectionRange", &cur["range"]) else { return };
        if let (Some(c), None) = (cursor, prev) {
            let _ = c;
        }
        if let Some(p) = prev {
            let contains = r.0 <= p.0 && p.1 <= r.1;
            if !contains {
                v.bad("selection-range-parent-does-not-contain-child", format!("child {:?} parent {:?}", p, r));
                return;
            }
            if r == p {
                v.bad("selection-range-not-strictly-growing", format!("{:?} repeated", r));
                return;
            }
        }
        prev = Some(r);
        cur = &cur["parent"];
        depth += 1;
    }
}

struct DocResult {
    violations: Vec<(String, String)>,
    checked: std::collections::BTreeMap<&'static str, u64>,
}

fn run_doc(work: &str, text: &str, positions: Vec<(u32, u32)>) -> DocResult {
    let text_owned = text.to_string();
    run_session(work, text, json!({}), async move |s: &mut DocSession| {
        let uri = s.uri.as_str().to_string();
        let td = s.td();
        let legend = serde_json::to_value(&s.sim.capabilities.semantic_tokens_provider).unwrap_or(Value::Null);
        let ntypes = legend["legend"]["tokenTypes"].as_array().map(|a| a.len()).unwrap_or(0);
        let nmods = legend["legend"]["tokenModifiers"].as_array().map(|a| a.len()).unwrap_or(0);
        let lines = Lines::new(&text_owned);
        let mut results: Vec<(&'static str, Option<P>, Value)> = Vec::new();
        // whole-document requests
        for (m, p) in [
            ("textDocument/semanticTokens/full", json!({"textDocument": td})),
            ("textDocument/documentSymbol", json!({"textDocument": td})),
            ("textDocument/foldingRange", json!({"textDocument": td})),
            ("textDocument/documentLink", json!({"textDocument": td})),
            ("textDocument/documentColor", json!({"textDocument": td})),
            ("textDocument/codeLens", json!({"textDocument": td})),
            ("textDocument/inlayHint", json!({"textDocument": td, "range": {"start": pos(0, 0), "end": pos(lines.count().saturating_sub(1), 0)}})),
            ("textDocument/formatting", json!({"textDocument": td, "options": {"tabSize": 4, "insertSpaces": true}})),
            ("textDocument/diagnostic", json!({"textDocument": td})),
        ] {
            if let Some(r) = s.call(m, p).await {
                if let Some(res) = r.result {
                    results.push((m, None, res));
                }
            }
        }
        for (l, c) in &positions {
            let pp = pos(*l, *c);
            let cur = Some((*l as u64, *c as u64));
            for (m, p) in [
                ("textDocument/hover", json!({"textDocument": td, "position": pp})),
                ("textDocument/definition", json!({"textDocument": td, "position": pp})),
                ("textDocument/references", json!({"textDocument": td, "position": pp, "context": {"includeDeclaration": true}})),
                ("textDocument/documentHighlight", json!({"textDocument": td, "position": pp})),
                ("textDocument/selectionRange", json!({"textDocument": td, "positions": [pp]})),
                ("textDocument/completion", json!({"textDocument": td, "position": pp})),
                ("textDocument/prepareRename", json!({"textDocument": td, "position": pp})),
                ("textDocument/rename", json!({"textDocument": td, "position": pp, "newName": "zz_renamed"})),
                ("textDocument/codeAction", json!({"textDocument": td, "range": {"start": pp, "end": pp}, "context": {"diagnostics": []}})),
            ] {
                if let Some(r) = s.call(m, p).await {
                    if let Some(res) = r.result {
                        if !res.is_null() {
                            results.push((m, cur, res));
                        }
                    }
                }
            }
        }
        let mut v = V { lines: &lines, uri: &uri, out: Vec::new(), checked: Default::default() };
        for (m, cursor, res) in &results {
            match *m {
                "textDocument/semanticTokens/full" => {
                    if let Some(d) = res["data"].as_array() {
                        v.semantic_tokens(d, ntypes, nmods, false, &multi_line_pieces(&text_owned));
                    }
                }
                "textDocument/documentSymbol" => {
                    if let Some(a) = res.as_array() {
                        v.symbols(a, None);
                    }
                }
                "textDocument/foldingRange" => {
                    for f in res.as_array().cloned().unwrap_or_default() {
                        v.seen("foldingRange");
                        let (sl, el) = (f["startLine"].as_u64().unwrap_or(u64::MAX), f["endLine"].as_u64().unwrap_or(u64::MAX));
                        if sl > el {
                            v.bad("folding-range-start-after-end", format!("{f}"));
                        } else if el >= lines.count() as u64 {
                            v.bad("folding-range-line-outside-document", format!("{f} ({} lines)", lines.count()));
                        }
                    }
                }
                "textDocument/documentLink" | "textDocument/documentColor" | "textDocument/codeLens" => {
                    for x in res.as_array().cloned().unwrap_or_default() {
                        v.range("link/color/lens", &x["range"]);
                    }
                }
                "textDocument/inlayHint" => {
                    for x in res.as_array().cloned().unwrap_or_default() {
                        v.seen("inlayHint");
                        let (l, c) = (x["position"]["line"].as_u64().unwrap_or(u64::MAX), x["position"]["character"].as_u64().unwrap_or(u64::MAX));
                        if !lines.pos_in_doc(l, c) {
                            v.bad("inlay-hint-outside-document", format!("{}", x["position"]));
                        }
                    }
                }
                "textDocument/formatting" => {
                    if let Some(a) = res.as_array() {
                        v.edits_disjoint("formatting", a);
                    }
                }
                "textDocument/diagnostic" => {
                    for d in res["items"].as_array().cloned().unwrap_or_default() {
                        v.range("pull-diagnostic", &d["range"]);
                    }
                }
                "textDocument/hover" => {
                    if res.get("range").is_some() && !res["range"].is_null() {
                        v.range("hover", &res["range"]);
                    }
                }
                "textDocument/definition" => v.locations("definition", res),
                "textDocument/references" => v.locations("references", res),
                "textDocument/documentHighlight" => {
                    for x in res.as_array().cloned().unwrap_or_default() {
                        v.range("documentHighlight", &x["range"]);
                    }
                }
                "textDocument/selectionRange" => {
                    for x in res.as_array().cloned().unwrap_or_default() {
                        selection_chain(&mut v, &x, *cursor);
                    }
                }
                "textDocument/completion" => {
                    let items = if res.is_array() { res.as_array().cloned().unwrap_or_default() } else { res["items"].as_array().cloned().unwrap_or_default() };
                    for it in items.iter().take(400) {
                        let te = &it["textEdit"];
                        if te.is_object() {
                            let r = if te.get("range").is_some() { te["range"].clone() } else { te["insert"].clone() };
                            if let Some((a, b)) = v.range("completion.textEdit", &r) {
                                if a.0 != b.0 {
                                    v.bad("completion-edit-not-single-line", format!("{} {r}", it["label"]));
                                } else if let Some(c) = cursor {
                                    if !(a <= *c && *c <= b) {
                                        v.bad("completion-edit-does-not-contain-cursor", format!("{} edit {r} cursor {:?}", it["label"], c));
                                    }
                                }
                            }
                        }
                        if let Some(a) = it["additionalTextEdits"].as_array() {
                            v.edits_disjoint("completion.additionalTextEdits", a);
                        }
                    }
                }
                "textDocument/prepareRename" => {
                    let r = if res.get("range").is_some() { res["range"].clone() } else { res.clone() };
                    if r.get("start").is_some() {
                        v.range("prepareRename", &r);
                    }
                }
                "textDocument/rename" => v.workspace_edit("rename", res),
                "textDocument/codeAction" => {
                    for a in res.as_array().cloned().unwrap_or_default() {
                        if a.get("edit").is_some() {
                            v.workspace_edit("codeAction", &a["edit"]);
                        }
                    }
                }
                _ => {}
            }
        }
        let mut seen = std::collections::BTreeSet::new();
        let violations = v.out.into_iter().filter(|(s, _)| seen.insert(s.clone())).collect();
        DocResult { violations, checked: v.checked }
    })
}

fn gen_doc(rng: &mut Rng, corpus: &Corpus) -> (String, &'static str) {
    match rng.below(14) {
        10..=13 => (feature_doc(rng), "feature-snippets"),
        0..=5 => (corpus.pick(rng).to_string(), "corpus"),
        6..=7 => {
            let b = corpus.pick(rng);
            (soup::mutate(rng, b), "corpus-mutant")
        }
        8 => {
            let mut t = String::from("--- Markdown **doc** with `code`\n--- ```lua\n--- local x = 1\n--- ```\n---@class Foo\n---@field a integer # field a\nlocal Foo = {}\n\n---@param n integer\n---@return string\nfunction Foo:bar(n)\n  if n > 1 then\n    return tostring(n)\n  end\n  return [[long\nstring]]\nend\n");
            t.push_str(corpus.pick(rng));
            (t, "doc-markdown")
        }
        _ => (soup::soup(rng, 40), "soup"),
    }
}

/// positions just inside string literals (module / file path completion uses text edits there)
fn string_positions(text: &str) -> Vec<(u32, u32)> {
    let mut out = Vec::new();
    for (off, c) in text.char_indices() {
        if (c == '"' || c == '\'') && off + 1 <= text.len() && text.is_char_boundary(off + 1) {
            out.push(offset_to_pos(text, off + 1));
        }
    }
    out
}

pub fn run(ctx: &mut Ctx) {
    crate::util::private_home(&ctx.work.clone(), "c26");
    if let Some(rep) = ctx.replay.clone() {
        let text = rep["text"].as_str().unwrap_or("").to_string();
        let positions: Vec<(u32, u32)> = rep["positions"].as_array().map(|a| a.iter().map(|p| (p[0].as_u64().unwrap_or(0) as u32, p[1].as_u64().unwrap_or(0) as u32)).collect()).unwrap_or_default();
        let r = run_doc(&ctx.work.clone(), &text, positions);
        if r.violations.is_empty() {
            ctx.held(1, true);
        }
        for (sig, d) in r.violations {
            println!("replay: {sig}: {d}");
            ctx.add_violation(&sig, &d, rep.clone());
        }
        return;
    }
    let corpus = Corpus::load(&ctx.repo);
    if corpus.is_empty() {
        ctx.inconclusive("corpus-empty");
        return;
    }
    let n = ctx.budget(150, 8000);
    for i in 0..n {
        if ctx.out_of_time() {
            break;
        }
        let mut rng = Rng::new(ctx.case_seed(i));
        let (text, fam) = gen_doc(&mut rng, &corpus);
        if text.len() > 6000 || text.is_empty() {
            continue;
        }
        let (text, fam) = if i % 6 == 5 {
            // require strings: completion answers with text edits inside the literal
            let mut t = String::from("local h = require(\"he\")\nlocal e = require(\"\")\nlocal m = require('helper')\nlocal u = require(\"unterminated\n");
            t.push_str(&text);
            (t, "require-strings")
        } else {
            (text, fam)
        };
        let b = token_boundaries(&text);
        let mut positions = sample(&mut rng, &b, 12);
        let sp = string_positions(&text);
        positions.extend(sample(&mut rng, &sp, 4));
        if fam == "feature-snippets" {
            let all = all_positions(&text);
            positions.extend(sample(&mut rng, &all, 30));
        }
        let r = run_doc(&ctx.work.clone(), &text, positions.clone());
        ctx.clause(&format!("family:{fam}"));
        let mut total = 0;
        for (k, n) in &r.checked {
            ctx.clause_n(&format!("validated:{k}"), *n);
            total += n;
        }
        // the whole-document formatting range is judged as a clause of its own (it fires on every
        // document while its finding is open); the document still counts for all other clauses
        let (fmt_only, others): (Vec<_>, Vec<_>) = r.violations.into_iter().partition(|(s, _)| s == "C26:range-outside-document:in=formatting");
        let r = DocResult { violations: others, checked: r.checked };
        for (sig, d) in fmt_only {
            ctx.add_violation(&sig, &d, json!({"text": text, "positions": []}));
        }
        if r.violations.is_empty() {
            ctx.held(fnv(text.as_bytes()), total >= 20);
            if ctx.want_sample() && i % 9 == 2 && total >= 20 {
                ctx.sample(json!({"family": fam, "text": clip(&text, 200), "structures_validated": r.checked}));
            }
        } else {
            let replay = json!({"text": text, "positions": positions.iter().map(|p| json!([p.0, p.1])).collect::<Vec<_>>()});
            let mut first = true;
            for (sig, d) in r.violations {
                if first {
                    ctx.violated(&sig, &format!("{d}; document {:?}", clip(&text, 200)), replay.clone());
                    first = false;
                } else {
                    ctx.add_violation(&sig, &d, replay.clone());
                }
            }
        }
    }
}
