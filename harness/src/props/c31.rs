//! C31 — loading any configuration never crashes.
//!
//! Case = an ordered list of configuration files (JSON with flat/nested/mixed/colliding keys, odd
//! roots, malformed bytes, `.emmyrc.lua` sources, missing files, directories) + optional client
//! partial configs + a workspace root. Observed: `load_configs` followed by
//! `Emmyrc::pre_process_emmyrc` (exactly what `emmylua_ls`, `emmylua_check` and `emmylua_doc_cli` do).
//!
//! Clauses: (a) no panic / abort / hang in either call; (b) a file that is unreadable or is not JSON at
//! all is skipped (result equals the load without it) or everything falls back to the defaults.
//!
//! Lua configs run in this process after `ctx.announce` (an abort of the embedded VM kills the worker and
//! is attributed by the driver, `abort_is_violation`); only the few *hang probes* run in a child process of
//! the same binary under a CPU-time budget.

use crate::gens::config::{self, KeySpace};
use crate::report::{Ctx, clip};
use crate::rng::{Rng, fnv};
use crate::util::PanicInfo;
use emmylua_code_analysis::{Emmyrc, load_configs};
use serde_json::{Value, json};
use std::path::PathBuf;

// ───────────────────────── shared helpers (also used by C32 / C37 / C40) ─────────────────────────

/// Structural name of a panic: the innermost function of the repository on the stack (no message text:
/// messages quote user data), falling back to the source file of the panic location.
pub fn panic_site(p: &PanicInfo) -> String {
    if let Some(f) = p.frames.first() {
        let mut f = f.clone();
        if let Some(i) = f.rfind("::h") {
            if f.len() - i == 19 {
                f.truncate(i);
            }
        }
        // drop generic arguments and closure markers, keep the last two path segments
        let mut out = String::new();
        let mut depth = 0;
        for c in f.chars() {
            match c {
                '<' => depth += 1,
                '>' => depth -= 1,
                _ if depth == 0 => out.push(c),
                _ => {}
            }
        }
        let segs: Vec<&str> = out.split("::").filter(|s| !s.is_empty() && *s != "{{closure}}" && !s.starts_with("{closure")).collect();
        let n = segs.len();
        return if n >= 2 { format!("{}::{}", segs[n - 2], segs[n - 1]) } else { segs.join("::") };
    }
    let file = p.location.split(':').next().unwrap_or("");
    let file = file.rsplit("crates/").next().unwrap_or(file);
    if file.is_empty() { "unknown".into() } else { file.to_string() }
}

thread_local! {
    static CHEAP_LAST: std::cell::RefCell<Option<(String, String)>> = const { std::cell::RefCell::new(None) };
}

/// C31/C32 run hundreds of thousands of loads of which a large share panics on the pinned tree, many of
/// them in short-lived child processes. The shared hook symbolises a full backtrace per panic (seconds for
/// the first one in a process: DWARF of an 80 MB binary), so these two properties install a hook that
/// records only message + location, and name the panic by stage + source file (no function names).
pub fn install_cheap_hook() {
    std::panic::set_hook(Box::new(|info| {
        let message = if let Some(s) = info.payload().downcast_ref::<&str>() {
            s.to_string()
        } else if let Some(s) = info.payload().downcast_ref::<String>() {
            s.clone()
        } else {
            "<non-string panic>".to_string()
        };
        let location = info.location().map(|l| format!("{}:{}:{}", l.file(), l.line(), l.column())).unwrap_or_default();
        CHEAP_LAST.with(|p| *p.borrow_mut() = Some((message, location)));
    }));
}

/// `catch_unwind` with the cheap hook's record. `install_cheap_hook` must have been called.
pub fn cheap_guarded<T>(f: impl FnOnce() -> T) -> Result<T, PanicInfo> {
    CHEAP_LAST.with(|p| *p.borrow_mut() = None);
    match std::panic::catch_unwind(std::panic::AssertUnwindSafe(f)) {
        Ok(v) => Ok(v),
        Err(_) => {
            let (message, location) = CHEAP_LAST.with(|p| p.borrow_mut().take()).unwrap_or(("<panic without hook info>".into(), String::new()));
            Err(PanicInfo { message, location, frames: vec![] })
        }
    }
}

/// Structural name of a panic without a backtrace: the source file of the panic location, relative to
/// `crates/` for repository code, `dep:<crate>/<file>` for a dependency.
pub fn panic_file(p: &PanicInfo) -> String {
    let file = p.location.split(':').next().unwrap_or("");
    if let Some(i) = file.rfind("/crates/") {
        return file[i + 8..].to_string();
    }
    if let Some(i) = file.find("/registry/src/") {
        // …/registry/src/<index>/<crate>-<version>/src/x/y.rs
        let rest: Vec<&str> = file[i + 14..].split('/').collect();
        if rest.len() >= 3 {
            let krate = rest[1].rsplit_once('-').map(|(n, _)| n).unwrap_or(rest[1]);
            return format!("dep:{krate}/{}", rest[2..].join("/").trim_start_matches("src/"));
        }
    }
    if file.contains("/rustc/") || file.starts_with("library/") {
        return format!("std:{}", file.rsplit("library/").next().unwrap_or(file));
    }
    if file.is_empty() { "unknown".into() } else { file.to_string() }
}

/// Stable structural name of a panic for signatures: source file of the panic location (no line) plus
/// the message up to the first quoted piece of user data, digits masked. Function names from backtraces
/// are not used: inlining moves them around between builds.
pub fn panic_class(p: &PanicInfo) -> String {
    let cut = p.message.find(['`', '\'', '"']).unwrap_or(p.message.len());
    let mut msg: String = p.message[..cut].chars().map(|c| if c.is_ascii_digit() { '#' } else { c }).collect();
    while msg.contains("##") {
        msg = msg.replace("##", "#");
    }
    let msg = msg.trim().trim_end_matches([':', ';', ',']).trim().replace(' ', "-");
    let msg: String = msg.chars().take(60).collect();
    format!("{}:{}", panic_file(p), msg)
}

/// Evidence helper: index (within the shard) of the first refuted case.
pub fn note_first_violation(ctx: &mut Ctx, case_index: u64) {
    // manual single-process runs only (the driver would add the numbers of the shards up)
    if ctx.out.is_none() && !ctx.sig_counts.is_empty() && !ctx.extra.contains_key("first_violation_case") {
        ctx.extra_set("first_violation_case", json!(case_index));
    }
}

/// Generic JSON witness shrinker: removes object members / array elements and shortens strings while
/// `pred` (= "still the same failure") holds. Deterministic, bounded by `max_tests` predicate calls.
pub fn shrink_json(v: &Value, mut pred: impl FnMut(&Value) -> bool, max_tests: usize) -> Value {
    let mut cur = v.clone();
    let mut tests = 0usize;
    for _pass in 0..4 {
        let before = cur.clone();
        let mut path: Vec<String> = Vec::new();
        shrink_at(&mut cur, &mut path, &mut pred, &mut tests, max_tests);
        if cur == before || tests >= max_tests {
            break;
        }
    }
    cur
}

fn node_at<'a>(root: &'a mut Value, path: &[String]) -> Option<&'a mut Value> {
    let mut n = root;
    for seg in path {
        n = match n {
            Value::Object(m) => m.get_mut(seg)?,
            Value::Array(a) => a.get_mut(seg.parse::<usize>().ok()?)?,
            _ => return None,
        };
    }
    Some(n)
}

fn shrink_at(root: &mut Value, path: &mut Vec<String>, pred: &mut impl FnMut(&Value) -> bool, tests: &mut usize, max: usize) {
    if *tests >= max {
        return;
    }
    let snapshot = match node_at(root, path) {
        Some(n) => n.clone(),
        None => return,
    };
    match snapshot {
        Value::Object(m) => {
            for k in m.keys() {
                if *tests >= max {
                    return;
                }
                let mut cand = root.clone();
                if let Some(Value::Object(cm)) = node_at(&mut cand, path) {
                    cm.remove(k);
                }
                *tests += 1;
                if pred(&cand) {
                    *root = cand;
                    continue;
                }
                // try a plain name for an exotic key (user-chosen names that are not the trigger)
                let mut key = k.clone();
                if (k.is_empty() || !k.chars().all(|c| c.is_ascii_alphanumeric() || c == '$' || c == '_')) && *tests < max {
                    let plain = (0..8).map(|i| format!("k{i}")).find(|n| !m.contains_key(n));
                    if let Some(plain) = plain {
                        let mut cand = root.clone();
                        if let Some(Value::Object(cm)) = node_at(&mut cand, path) {
                            if let Some(val) = cm.remove(k) {
                                cm.insert(plain.clone(), val);
                            }
                        }
                        *tests += 1;
                        if pred(&cand) {
                            *root = cand;
                            key = plain;
                        }
                    }
                }
                path.push(key);
                shrink_at(root, path, pred, tests, max);
                path.pop();
            }
        }
        Value::Array(a) => {
            let mut i = a.len();
            while i > 0 {
                i -= 1;
                if *tests >= max {
                    return;
                }
                let mut cand = root.clone();
                if let Some(Value::Array(ca)) = node_at(&mut cand, path) {
                    if i < ca.len() {
                        ca.remove(i);
                    }
                }
                *tests += 1;
                if pred(&cand) {
                    *root = cand;
                } else {
                    path.push(i.to_string());
                    shrink_at(root, path, pred, tests, max);
                    path.pop();
                }
            }
        }
        Value::String(s) if !s.is_empty() && !s.chars().all(|c| c.is_ascii_alphanumeric()) || s.chars().count() > 1 => {
            // a plain one-letter string first (the value is not the trigger), then character-wise
            if s != "s" {
                let mut cand = root.clone();
                if let Some(n) = node_at(&mut cand, path) {
                    *n = Value::String("s".into());
                }
                *tests += 1;
                if pred(&cand) {
                    *root = cand;
                    return;
                }
            }
            let chars: Vec<String> = s.chars().map(|c| c.to_string()).collect();
            let budget = max.saturating_sub(*tests).min(60);
            let mut used = 0usize;
            let small = crate::util::ddmin(
                chars,
                |p| {
                    used += 1;
                    let mut cand = root.clone();
                    if let Some(n) = node_at(&mut cand, path) {
                        *n = Value::String(p.concat());
                    }
                    pred(&cand)
                },
                budget,
            );
            *tests += used;
            if let Some(n) = node_at(root, path) {
                *n = Value::String(small.concat());
            }
        }
        _ => {}
    }
}

// ───────────────────────── case model ─────────────────────────

/// Replayable form: `{"files":[{"name","text"| "bytes"| "missing"| "dir"}], "partials": [...]|null, "root": "scratch"|…}`
#[derive(Clone, Debug)]
pub struct Case {
    pub case: Value,
    pub family: &'static str,
    pub nontrivial: bool,
    /// indices of files that are certainly unreadable / not JSON at all (for clause b), and whether (b) applies
    pub invalid_idx: Vec<usize>,
    pub metamorphic_ok: bool,
    pub has_lua: bool,
}

fn file_json(name: &str, bytes: &[u8]) -> Value {
    match std::str::from_utf8(bytes) {
        Ok(s) => json!({"name": name, "text": s}),
        Err(_) => json!({"name": name, "bytes": bytes}),
    }
}

const JSON_NAMES: &[&str] = &[".emmyrc.json", ".luarc.json", "global.emmyrc.json", "nested/.emmyrc.json"];

fn malformed(rng: &mut Rng, ks: &KeySpace) -> Vec<u8> {
    let (es, _) = config::hostile_entries(rng, ks);
    let good = serde_json::to_string_pretty(&config::render_entries(&es)).unwrap_or_default();
    match rng.below(12) {
        0 => Vec::new(),
        1 => b" \n\t".to_vec(),
        2 => {
            let mut cut = rng.below(good.len().max(1));
            while !good.is_char_boundary(cut) {
                cut -= 1;
            }
            good[..cut].as_bytes().to_vec()
        }
        3 => format!("\u{feff}{good}").into_bytes(),
        4 => format!("// comment\n{good}").into_bytes(),
        5 => format!("{good}\n{good}").into_bytes(),
        6 => good.replace('}', ",}").into_bytes(),
        7 => vec![0xff, 0xfe, b'{', 0, b'}', 0],
        8 => {
            let mut b = good.into_bytes();
            if !b.is_empty() {
                let i = rng.below(b.len());
                b[i] = rng.below(256) as u8;
            }
            b
        }
        9 => b"{\"a\": \"\\ud800\"}".to_vec(),
        10 => format!("{}1{}", "[".repeat(200), "]".repeat(200)).into_bytes(),
        _ => b"{\"workspace\": {\"library\": [\"~\"".to_vec(),
    }
}

fn is_json(bytes: &[u8]) -> bool {
    std::str::from_utf8(bytes).ok().map(|s| serde_json::from_str::<Value>(s).is_ok()).unwrap_or(false)
}

pub fn gen_case(rng: &mut Rng, ks: &KeySpace) -> Case {
    let mut files: Vec<Value> = Vec::new();
    let mut invalid_idx = Vec::new();
    let mut traits = config::DocTraits::default();
    let mut has_lua = false;
    let mut metamorphic_ok = true;
    let fam_roll = rng.below(100);
    let family: &'static str = match fam_roll {
        0..=59 => "json",
        60..=69 => "malformed",
        70..=76 => "odd-root",
        77..=86 => "lua",
        87..=91 => "odd-lua",
        _ => "missing",
    };
    let nfiles = match rng.below(6) {
        0 | 1 | 2 => 1,
        3 | 4 => 2,
        _ => 3,
    };
    for i in 0..nfiles {
        let special = i == 0 || rng.chance(1, 3);
        let name = JSON_NAMES[i % JSON_NAMES.len()].to_string();
        match (family, special) {
            ("malformed", true) => {
                let b = malformed(rng, ks);
                if !is_json(&b) && !b.starts_with(&[0xef, 0xbb, 0xbf]) {
                    invalid_idx.push(files.len());
                } else {
                    metamorphic_ok = false;
                }
                files.push(file_json(&name, &b));
            }
            ("odd-root", true) => {
                metamorphic_ok = false;
                files.push(json!({"name": name, "text": config::odd_root(rng).to_string()}));
            }
            ("lua", true) => {
                has_lua = true;
                metamorphic_ok = false;
                let (es, tr) = config::hostile_entries(rng, ks);
                traits.settings += tr.settings;
                traits.collisions += tr.collisions;
                traits.path_strings += tr.path_strings;
                let src = format!("return {}", config::to_lua(&config::render_entries(&es)));
                files.push(json!({"name": format!("{i}.emmyrc.lua"), "text": src}));
            }
            ("odd-lua", true) => {
                has_lua = true;
                metamorphic_ok = false;
                files.push(json!({"name": format!("{i}.emmyrc.lua"), "text": rng.pick(config::ODD_LUA)}));
            }
            ("missing", true) => {
                invalid_idx.push(files.len());
                if rng.bool() {
                    files.push(json!({"name": format!("missing-{i}.json"), "missing": true}));
                } else {
                    files.push(json!({"name": format!("dir-{i}.json"), "dir": true}));
                }
            }
            _ => {
                let (es, tr) = config::hostile_entries(rng, ks);
                traits.settings += tr.settings;
                traits.collisions += tr.collisions;
                traits.path_strings += tr.path_strings;
                if tr.collisions > 0 {
                    metamorphic_ok = false;
                }
                let doc = config::render_entries(&es);
                let text = if rng.bool() { serde_json::to_string_pretty(&doc).unwrap() } else { doc.to_string() };
                files.push(json!({"name": name, "text": text}));
            }
        }
    }
    let partials = if rng.chance(1, 5) {
        let n = rng.range(1, 2);
        let mut v = Vec::new();
        for _ in 0..n {
            if rng.chance(1, 6) {
                v.push(config::odd_root(rng));
            } else {
                let (es, tr) = config::hostile_entries(rng, ks);
                traits.settings += tr.settings;
                traits.collisions += tr.collisions;
                traits.path_strings += tr.path_strings;
                if tr.collisions > 0 {
                    metamorphic_ok = false;
                }
                v.push(config::render_entries(&es));
            }
        }
        Value::Array(v)
    } else {
        Value::Null
    };
    let root = rng.pick(&["scratch", "scratch", "scratch", "scratch", "", "relative/dir", "/", "/nonexistent/é/😀", "non-utf8"]);
    let nontrivial = traits.settings >= 3 || traits.collisions > 0 || traits.path_strings > 0 || !invalid_idx.is_empty() || has_lua;
    Case { case: json!({"files": files, "partials": partials, "root": root}), family, nontrivial, invalid_idx, metamorphic_ok, has_lua }
}

// ───────────────────────── execution ─────────────────────────

#[derive(Clone, Debug, PartialEq)]
pub enum Outcome {
    /// serialized Emmyrc after load (before path expansion) and after pre-processing
    Ok { loaded: Value, processed: Value },
    Panic { stage: String, site: String, message: String, location: String },
    /// child process killed by a signal
    Died(String),
    /// child exceeded the CPU budget twice
    Hang(String),
    /// harness trouble (cannot write files, child unusable)
    Harness(String),
}

fn materialize(dir: &str, case: &Value) -> Result<(Vec<PathBuf>, Option<Vec<Value>>, PathBuf), String> {
    let _ = std::fs::remove_dir_all(dir);
    std::fs::create_dir_all(dir).map_err(|e| format!("mkdir {dir}: {e}"))?;
    let mut paths = Vec::new();
    for f in case["files"].as_array().cloned().unwrap_or_default() {
        let name = f["name"].as_str().unwrap_or("x.json");
        let p = PathBuf::from(dir).join(name);
        if let Some(parent) = p.parent() {
            let _ = std::fs::create_dir_all(parent);
        }
        if f.get("missing").is_some() {
            // not created
        } else if f.get("dir").is_some() {
            std::fs::create_dir_all(&p).map_err(|e| format!("mkdir: {e}"))?;
        } else if let Some(t) = f.get("text").and_then(|t| t.as_str()) {
            std::fs::write(&p, t.as_bytes()).map_err(|e| format!("write: {e}"))?;
        } else if let Some(b) = f.get("bytes").and_then(|b| b.as_array()) {
            let bytes: Vec<u8> = b.iter().map(|x| x.as_u64().unwrap_or(0) as u8).collect();
            std::fs::write(&p, bytes).map_err(|e| format!("write: {e}"))?;
        }
        paths.push(p);
    }
    let partials = case["partials"].as_array().cloned();
    let root = match case["root"].as_str().unwrap_or("scratch") {
        "scratch" => PathBuf::from(dir),
        "non-utf8" => {
            use std::os::unix::ffi::OsStringExt;
            PathBuf::from(std::ffi::OsString::from_vec(vec![b'/', b't', 0xff, 0xfe, b'/', b'w']))
        }
        other => PathBuf::from(other),
    };
    Ok((paths, partials, root))
}

pub fn set_path_env() {
    for (k, v) in config::PATH_ENV {
        unsafe { std::env::set_var(k, v) };
    }
    unsafe { std::env::remove_var("VERIF_UNSET_VARIABLE") };
    // PreProcessContext::new runs `luarocks config deploy_lua_dir`: one failing exec attempt instead of one per PATH entry
    unsafe { std::env::set_var("PATH", "/verif-no-such-dir") };
}

/// Run one case in this process.
pub fn exec_here(dir: &str, case: &Value) -> Outcome {
    exec_here_opt(dir, case, false)
}

fn has_paths(loaded: &Value) -> bool {
    let nonempty = |v: &Value| v.as_array().map(|a| !a.is_empty()).unwrap_or(true);
    let w = &loaded["workspace"];
    nonempty(&w["workspaceRoots"]) || nonempty(&w["library"]) || nonempty(&w["packages"]) || nonempty(&w["ignoreDir"]) || nonempty(&loaded["resource"]["paths"])
}

/// `load_only`: stop after `load_configs` (used while shrinking a `load_configs` panic).
/// `pre_process_emmyrc` is skipped when all five path lists of the loaded configuration are empty: it then
/// does nothing that depends on the input (it still compiles two regexes and spawns `luarocks`).
pub fn exec_here_opt(dir: &str, case: &Value, load_only: bool) -> Outcome {
    let (paths, partials, root) = match materialize(dir, case) {
        Ok(x) => x,
        Err(e) => return Outcome::Harness(e),
    };
    let loaded = cheap_guarded(|| load_configs(paths, partials));
    let out = match loaded {
        Err(p) => Outcome::Panic { stage: "load_configs".into(), site: panic_file(&p), message: p.message.clone(), location: p.location.clone() },
        Ok(mut emmyrc) => {
            let before = serde_json::to_value(&emmyrc).unwrap_or(Value::Null);
            if load_only || !has_paths(&before) {
                let _ = std::fs::remove_dir_all(dir);
                return Outcome::Ok { loaded: before.clone(), processed: before };
            }
            match cheap_guarded(|| {
                emmyrc.pre_process_emmyrc(&root);
                serde_json::to_value(&emmyrc).unwrap_or(Value::Null)
            }) {
                Ok(after) => Outcome::Ok { loaded: before, processed: after },
                Err(p) => Outcome::Panic { stage: "pre_process_emmyrc".into(), site: panic_file(&p), message: p.message.clone(), location: p.location.clone() },
            }
        }
    };
    let _ = std::fs::remove_dir_all(dir);
    out
}

fn outcome_to_json(o: &Outcome) -> Value {
    match o {
        Outcome::Ok { loaded, processed } => json!({"ok": true, "loaded": loaded, "processed": processed}),
        Outcome::Panic { stage, site, message, location } => json!({"panic": true, "stage": stage, "site": site, "message": message, "location": location}),
        Outcome::Died(s) => json!({"died": s}),
        Outcome::Hang(s) => json!({"hang": s}),
        Outcome::Harness(s) => json!({"harness": s}),
    }
}

fn outcome_from_json(v: &Value) -> Outcome {
    if v.get("ok").is_some() {
        Outcome::Ok { loaded: v["loaded"].clone(), processed: v["processed"].clone() }
    } else if v.get("panic").is_some() {
        let s = |k: &str| v[k].as_str().unwrap_or("").to_string();
        Outcome::Panic { stage: s("stage"), site: s("site"), message: s("message"), location: s("location") }
    } else if let Some(s) = v.get("died").and_then(|s| s.as_str()) {
        Outcome::Died(s.to_string())
    } else if let Some(s) = v.get("hang").and_then(|s| s.as_str()) {
        Outcome::Hang(s.to_string())
    } else {
        Outcome::Harness(v["harness"].as_str().unwrap_or("bad child output").to_string())
    }
}

const CHILD_MARK: &str = "C31CHILD:";

fn child_cpu_secs(pid: u32) -> f64 {
    let s = std::fs::read_to_string(format!("/proc/{pid}/stat")).unwrap_or_default();
    // fields after the ")" of comm: state is #3, utime #14, stime #15
    let rest = s.rsplit(')').next().unwrap_or("");
    let f: Vec<&str> = rest.split_whitespace().collect();
    let tick = |i: usize| f.get(i).and_then(|x| x.parse::<f64>().ok()).unwrap_or(0.0);
    (tick(11) + tick(12)) / 100.0
}

/// Run one case in a fresh child process of this binary. CPU budget (not wall clock) decides "hang".
pub fn exec_child(dir: &str, case: &Value, cpu_budget: f64) -> Outcome {
    let _ = std::fs::create_dir_all(dir);
    let rp = format!("{dir}.child.json");
    let mut c = case.clone();
    c["child"] = json!(true);
    c["dir"] = json!(dir);
    if std::fs::write(&rp, c.to_string()).is_err() {
        return Outcome::Harness("cannot write child replay".into());
    }
    let exe = match std::env::current_exe() {
        Ok(e) => e,
        Err(e) => return Outcome::Harness(format!("current_exe: {e}")),
    };
    let out_path = format!("{dir}.child.out");
    let out_file = match std::fs::File::create(&out_path) {
        Ok(f) => f,
        Err(e) => return Outcome::Harness(format!("child out: {e}")),
    };
    let mut child = match std::process::Command::new(exe).arg("C31").arg("--replay").arg(&rp).stdout(out_file).stderr(std::process::Stdio::null()).spawn() {
        Ok(c) => c,
        Err(e) => return Outcome::Harness(format!("spawn: {e}")),
    };
    let status = loop {
        match child.try_wait() {
            Ok(Some(st)) => break Some(st),
            Ok(None) => {
                if child_cpu_secs(child.id()) > cpu_budget {
                    let _ = child.kill();
                    let _ = child.wait();
                    break None;
                }
                std::thread::sleep(std::time::Duration::from_millis(2));
            }
            Err(e) => return Outcome::Harness(format!("wait: {e}")),
        }
    };
    let text = std::fs::read_to_string(&out_path).unwrap_or_default();
    let _ = std::fs::remove_file(&rp);
    let _ = std::fs::remove_file(&out_path);
    let _ = std::fs::remove_dir_all(dir);
    match status {
        None => Outcome::Hang(format!("child used more than {cpu_budget}s CPU")),
        Some(st) => {
            if let Some(line) = text.lines().find(|l| l.starts_with(CHILD_MARK)) {
                if let Ok(v) = serde_json::from_str::<Value>(&line[CHILD_MARK.len()..]) {
                    return outcome_from_json(&v);
                }
            }
            use std::os::unix::process::ExitStatusExt;
            match st.signal() {
                Some(sig) => Outcome::Died(match sig {
                    6 => "SIGABRT".into(),
                    11 => "SIGSEGV".into(),
                    7 => "SIGBUS".into(),
                    9 => "SIGKILL".into(),
                    n => format!("signal-{n}"),
                }),
                None => Outcome::Harness(format!("child exited {:?} without a result", st.code())),
            }
        }
    }
}

fn has_lua_file(case: &Value) -> bool {
    case["files"].as_array().map(|a| a.iter().any(|f| f["name"].as_str().map(|n| n.ends_with(".lua")).unwrap_or(false))).unwrap_or(false)
}

/// Hang probes (`"hang_probe": true`) run in a child process under a CPU budget (a hang in this process
/// could not be observed); a Hang is confirmed by a second run with 4x the budget. Everything else runs
/// in this process — the caller announces Lua cases (`ctx.announce`) so that an abort of the embedded
/// VM is attributed by the driver.
pub fn exec(dir: &str, case: &Value) -> Outcome {
    if case.get("hang_probe").is_some() {
        match exec_child(dir, case, HANG_CPU_BUDGET) {
            Outcome::Hang(_) => match exec_child(dir, case, 4.0 * HANG_CPU_BUDGET) {
                Outcome::Hang(s) => Outcome::Hang(s),
                _ => Outcome::Harness("cpu overrun not confirmed".into()),
            },
            o => o,
        }
    } else {
        exec_here(dir, case)
    }
}

/// CPU seconds a Lua configuration may burn before it is called a hang: the median Lua case costs
/// well under 50 ms of CPU, the sandbox of the loader is configured with a 1 s timeout.
pub const HANG_CPU_BUDGET: f64 = 3.0;

/// Lua sources that do not terminate (or only after minutes) unless the sandbox limits work.
pub const HANG_PROBES: &[&str] = &[
    "while true do end",
    "local s = string.rep('a', 30) return { s:find(string.rep('a*', 30) .. 'b') }",
    "local t = {} local u = t for i = 1, 100000 do u.n = {} u = u.n end return t",
    "return { a = string.rep('x', 2^30) }",
];

fn sig_of(o: &Outcome, case: &Value) -> Option<String> {
    let kind = if has_lua_file(case) { "lua" } else { "json" };
    match o {
        Outcome::Panic { stage, site, .. } => Some(format!("C31:panic:{stage}:{site}")),
        Outcome::Died(s) => Some(format!("C31:abort:{kind}-config:{s}")),
        Outcome::Hang(_) => Some(format!("C31:hang:{kind}-config")),
        _ => None,
    }
}

fn default_json() -> Value {
    serde_json::to_value(Emmyrc::default()).unwrap_or(Value::Null)
}

/// clause (b): load without the invalid files must equal the full load (or the full load is the default)
fn skip_clause(dir: &str, case: &Value, invalid_idx: &[usize], full: &Outcome) -> Option<(String, String)> {
    let Outcome::Ok { loaded, .. } = full else { return None };
    let mut reduced = case.clone();
    let files = reduced["files"].as_array().cloned().unwrap_or_default();
    let kept: Vec<Value> = files.iter().enumerate().filter(|(i, _)| !invalid_idx.contains(i)).map(|(_, f)| f.clone()).collect();
    let dropped: Vec<String> = files
        .iter()
        .enumerate()
        .filter(|(i, _)| invalid_idx.contains(i))
        .map(|(_, f)| if f.get("missing").is_some() { "missing" } else if f.get("dir").is_some() { "directory" } else { "not-json" }.to_string())
        .collect();
    reduced["files"] = Value::Array(kept);
    let Outcome::Ok { loaded: want, .. } = exec_here(&format!("{dir}-r"), &reduced) else { return None };
    if *loaded == want || *loaded == default_json() {
        None
    } else {
        Some((format!("C31:invalid-file-not-skipped:{}", dropped.join("+")), format!("load with the invalid file(s) differs from the load without them and from the defaults: {} vs {}", clip(&loaded.to_string(), 300), clip(&want.to_string(), 300))))
    }
}

fn shrink_case(dir: &str, case: &Value, sig: &str) -> Value {
    // file contents that are JSON are opened up so that the generic shrinker can work inside them
    let mut open = case.clone();
    if let Some(files) = open["files"].as_array_mut() {
        for f in files.iter_mut() {
            if f["name"].as_str().map(|n| n.ends_with(".json")).unwrap_or(false) {
                if let Some(v) = f.get("text").and_then(|t| t.as_str()).and_then(|t| serde_json::from_str::<Value>(t).ok()) {
                    if v.is_object() || v.is_array() {
                        f["doc"] = v;
                        f.as_object_mut().unwrap().remove("text");
                    }
                }
            }
        }
    }
    fn close(c: &Value) -> Value {
        let mut c = c.clone();
        if let Some(files) = c["files"].as_array_mut() {
            for f in files.iter_mut() {
                if let Some(d) = f.get("doc").cloned() {
                    f["text"] = json!(d.to_string());
                    f.as_object_mut().unwrap().remove("doc");
                }
            }
        }
        c
    }
    let sdir = format!("{dir}-s");
    let names: Vec<String> = case["files"].as_array().map(|a| a.iter().filter_map(|f| f["name"].as_str().map(|s| s.to_string())).collect()).unwrap_or_default();
    let small = shrink_json(
        &open,
        |cand| {
            let c = close(cand);
            if !c["files"].is_array() {
                return false;
            }
            // keep the file records well-formed (names are not shrunk: the extension selects the loader)
            if c["files"].as_array().unwrap().iter().any(|f| !f.is_object() || f.get("name").and_then(|n| n.as_str()).map(|n| !names.iter().any(|o| o == n)).unwrap_or(true)) {
                return false;
            }
            // collisions panic or not depending on hash order: a few attempts per candidate
            let load_stage = sig.contains(":panic:load_configs:");
            let tries = if load_stage { 4 } else { 1 };
            (0..tries).any(|_| {
                let o = if load_stage { exec_here_opt(&sdir, &c, true) } else { exec(&sdir, &c) };
                sig_of(&o, &c).as_deref() == Some(sig)
            })
        },
        if case.get("hang_probe").is_some() { 0 } else { 150 },
    );
    close(&small)
}

pub fn run(ctx: &mut Ctx) {
    set_path_env();
    install_cheap_hook();
    let base = format!("{}/c31-{}-{}", ctx.work, std::process::id(), ctx.shard);
    if let Some(rep) = ctx.replay.clone() {
        if rep.get("child").is_some() {
            // child mode: run in-process, print the outcome, never report
            let dir = rep["dir"].as_str().map(|s| s.to_string()).unwrap_or_else(|| format!("{base}-child"));
            let o = exec_here(&dir, &rep);
            println!("{CHILD_MARK}{}", outcome_to_json(&o));
            ctx.held(0, false);
            return;
        }
        // a panic that depends on hash order does not show on every load: one panicking load refutes
        let mut o = exec(&format!("{base}-replay"), &rep);
        let mut attempts = 1;
        while sig_of(&o, &rep).is_none() && attempts < 24 {
            o = exec(&format!("{base}-replay"), &rep);
            attempts += 1;
        }
        println!("replay: {attempts} load(s)");
        match sig_of(&o, &rep) {
            Some(sig) => {
                println!("replay: VIOLATED {sig}: {:?}", o);
                ctx.violated(&sig, &format!("{o:?}"), rep);
            }
            None => {
                // clause (b) witnesses carry the indices of the invalid files
                let idx: Vec<usize> = rep["invalid_idx"].as_array().map(|a| a.iter().filter_map(|x| x.as_u64().map(|x| x as usize)).collect()).unwrap_or_default();
                if !idx.is_empty() {
                    if let Some((sig, detail)) = skip_clause(&format!("{base}-replay"), &rep, &idx, &o) {
                        println!("replay: VIOLATED {sig}: {detail}");
                        ctx.violated(&sig, &detail, rep);
                        return;
                    }
                }
                println!("replay: held ({})", clip(&format!("{o:?}"), 300));
                ctx.held(fnv(rep.to_string().as_bytes()), true);
            }
        }
        return;
    }
    let Some(ks) = KeySpace::harvest(&ctx.repo) else {
        ctx.inconclusive("schema-not-found");
        return;
    };
    ctx.extra_set("const_schema_keys", json!(ks.keys.len()));
    ctx.extra_set("const_schema_path_keys", json!(ks.keys.iter().filter(|k| k.is_path).count()));
    let n = ctx.budget(800, 25_000);
    for i in 0..n {
        note_first_violation(ctx, i.saturating_sub(1));
        if ctx.out_of_time() {
            break;
        }
        let mut rng = Rng::new(ctx.case_seed(i));
        let mut c = gen_case(&mut rng, &ks);
        // hang probes: shard 0 only, first cases (quick: 1 probe, thorough: all)
        let nprobes = if ctx.is_quick() { 1 } else { HANG_PROBES.len() };
        if ctx.shard == 0 && (i as usize) < nprobes {
            c = Case {
                case: json!({"files": [{"name": "0.emmyrc.lua", "text": HANG_PROBES[i as usize]}], "partials": null, "root": "scratch", "hang_probe": true}),
                family: "lua-hang-probe",
                nontrivial: true,
                invalid_idx: vec![],
                metamorphic_ok: false,
                has_lua: true,
            };
        }
        let dir = format!("{base}-{i}");
        if c.has_lua && c.family != "lua-hang-probe" {
            // an abort inside the embedded Lua VM / the table conversion kills this worker: leave a trace
            let mut a = c.case.clone();
            a["abort_sig"] = json!("C31:abort:lua-config");
            ctx.announce(&a);
        }
        ctx.clause(&format!("family:{}", c.family));
        let t0 = std::time::Instant::now();
        let o = exec(&dir, &c.case);
        ctx.extra_add(if c.has_lua { "ms_exec_lua_cases" } else { "ms_exec_json_cases" }, t0.elapsed().as_millis() as u64);
        let fp = fnv(c.case.to_string().as_bytes());
        match (&o, sig_of(&o, &c.case)) {
            (_, Some(sig)) => {
                ctx.fps.insert(fp);
                if ctx.sig_counts.get(&sig).copied().unwrap_or(0) >= crate::report::MAX_VIOLATIONS_PER_SIG {
                    ctx.violated(&sig, "", json!(null));
                    continue;
                }
                if ctx.sig_counts.get(&sig).copied().unwrap_or(0) >= 1 {
                    // one shrunk witness per signature and shard; further ones are stored as generated
                    ctx.violated(&sig, &format!("{}; case {}", clip(&format!("{o:?}"), 400), clip(&c.case.to_string(), 600)), c.case.clone());
                    continue;
                }
                if c.family == "lua-hang-probe" {
                    ctx.violated(&sig, &format!("{o:?}; the loader configures the Lua sandbox with a 1 s timeout; case {}", c.case), c.case.clone());
                    continue;
                }
                let t1 = std::time::Instant::now();
                let small = shrink_case(&dir, &c.case, &sig);
                ctx.extra_add("ms_shrinking", t1.elapsed().as_millis() as u64);
                let o2 = exec(&dir, &small);
                let (small, o2) = if sig_of(&o2, &small).as_deref() == Some(sig.as_str()) { (small, o2) } else { (c.case.clone(), o.clone()) };
                ctx.violated(&sig, &format!("{}; shrunk case {}", clip(&format!("{o2:?}"), 500), clip(&small.to_string(), 600)), small);
            }
            (Outcome::Ok { processed, .. }, None) => {
                ctx.clause("a:no-crash");
                if c.has_lua {
                    ctx.clause("a:lua-config");
                }
                if c.family == "lua-hang-probe" {
                    ctx.clause("a:lua-hang-probe-terminated");
                }
                let mut bad = None;
                if c.metamorphic_ok && !c.invalid_idx.is_empty() {
                    ctx.clause("b:invalid-file-skipped");
                    bad = skip_clause(&dir, &c.case, &c.invalid_idx, &o);
                }
                match bad {
                    Some((sig, detail)) => {
                        let mut rep = c.case.clone();
                        rep["invalid_idx"] = json!(c.invalid_idx);
                        ctx.violated(&sig, &detail, rep);
                    }
                    None => {
                        ctx.held(fp, c.nontrivial);
                        if ctx.want_sample() && c.nontrivial && i % 499 == 11 {
                            ctx.sample(json!({"family": c.family, "case": c.case, "library_after_expansion": processed["workspace"]["library"]}));
                        }
                    }
                }
            }
            (Outcome::Harness(why), None) => ctx.inconclusive(&format!("harness:{}", clip(why, 60))),
            _ => ctx.inconclusive("unclassified-outcome"),
        }
    }
    let _ = std::fs::remove_dir_all(&base);
}
