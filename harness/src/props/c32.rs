//! C32 — configuration merging is deterministic and later files win.
//!
//! Case = an ordered list of 2–3 *valid* configuration documents that set some of the same settings in
//! flat / nested / mixed spellings (family `merge`), or documents with keys that are both a value and a
//! prefix (family `collision`, judged by the determinism clause only).
//!
//! Observations: `serde_json::to_value(load_configs(files, partials))`, repeated in this process and in
//! `P` fresh child processes of the same binary (hash seeds, ASLR and allocator state are resampled).
//!
//! Clauses:
//!  1. determinism — every load of the same ordered list gives the same result (a panic is a result);
//!  2. merge — the result equals the reference model: every document normalised to nested form, folded
//!     left with objects merged, scalars overwritten by the later document and arrays
//!     `earlier ++ (later − already present)`, then read through the same serde types.

use super::c31::{cheap_guarded, install_cheap_hook, panic_file, shrink_json};
use crate::gens::config::{self, KeyInfo, KeySpace, Setting, ValKind};
use crate::report::{Ctx, clip};
use crate::rng::{Rng, fnv};
use emmylua_code_analysis::{Emmyrc, load_configs};
use serde_json::{Map, Value, json};
use std::path::PathBuf;

const FILE_NAMES: &[&str] = &["a.emmyrc.json", "b.luarc.json", "c.emmyrc.json"];
const CHILD_MARK: &str = "C32CHILD:";

// ───────────────────────── reference model ─────────────────────────

fn model_merge(base: &mut Value, overlay: &Value) {
    match (base, overlay) {
        (Value::Object(b), Value::Object(o)) => {
            for (k, ov) in o {
                match b.get_mut(k) {
                    Some(bv) => model_merge(bv, ov),
                    None => {
                        b.insert(k.clone(), ov.clone());
                    }
                }
            }
        }
        (Value::Array(b), Value::Array(o)) => {
            for item in o {
                if !b.contains(item) {
                    b.push(item.clone());
                }
            }
        }
        (b, o) => *b = o.clone(),
    }
}

/// Expected configuration for an ordered list of documents (None: the merged document is not a valid
/// configuration for the serde types, nothing to compare).
pub fn model(docs: &[Value]) -> Option<Value> {
    model_opt(docs, false)
}

fn prune_empty_objects(v: &mut Value) {
    if let Value::Object(m) = v {
        for (_, x) in m.iter_mut() {
            prune_empty_objects(x);
        }
        m.retain(|_, x| !x.as_object().map(|o| o.is_empty()).unwrap_or(false));
    }
}

/// `prune`: an empty object sets nothing (the statement does not say whether `{"diagnostics": {}}` is the
/// same as not mentioning the section; the serde types distinguish the two) — both readings are accepted.
pub fn model_opt(docs: &[Value], prune: bool) -> Option<Value> {
    let mut acc = Value::Object(Map::new());
    for d in docs {
        model_merge(&mut acc, &config::normalize_nested(d));
    }
    if prune {
        prune_empty_objects(&mut acc);
    }
    let e: Emmyrc = serde_json::from_value(acc).ok()?;
    serde_json::to_value(e).ok()
}

// ───────────────────────── execution ─────────────────────────

/// One load. Ok(json) or Err(panic site).
fn load_once(dir: &str, docs: &[Value], partial_last: bool) -> Result<Value, String> {
    let _ = std::fs::create_dir_all(dir);
    let mut paths = Vec::new();
    let nfiles = if partial_last { docs.len() - 1 } else { docs.len() };
    for (i, d) in docs.iter().take(nfiles).enumerate() {
        let p = PathBuf::from(dir).join(FILE_NAMES[i % FILE_NAMES.len()]);
        let _ = std::fs::write(&p, d.to_string());
        paths.push(p);
    }
    let partials = if partial_last { Some(vec![docs[docs.len() - 1].clone()]) } else { None };
    let r = cheap_guarded(|| serde_json::to_value(load_configs(paths, partials)).unwrap_or(Value::Null));
    r.map_err(|p| format!("panic:{}", panic_file(&p)))
}

fn outcome_json(r: &Result<Value, String>) -> Value {
    match r {
        Ok(v) => json!({"ok": v}),
        Err(s) => json!({"panic": s}),
    }
}
fn outcome_from(v: &Value) -> Result<Value, String> {
    match v.get("ok") {
        Some(x) => Ok(x.clone()),
        None => Err(v["panic"].as_str().unwrap_or("panic:?").to_string()),
    }
}

/// Evaluate a batch of cases in `procs` fresh processes; result[p][case].
fn run_children(base: &str, batch: &[Value], procs: usize) -> Result<Vec<Vec<Result<Value, String>>>, String> {
    let exe = std::env::current_exe().map_err(|e| e.to_string())?;
    let rp = format!("{base}-batch.json");
    std::fs::write(&rp, json!({"child": true, "dir": format!("{base}-child"), "cases": batch}).to_string()).map_err(|e| e.to_string())?;
    let mut kids = Vec::new();
    for p in 0..procs {
        let outp = format!("{base}-child-{p}.out");
        let f = std::fs::File::create(&outp).map_err(|e| e.to_string())?;
        let child = std::process::Command::new(&exe)
            .arg("C32")
            .arg("--replay")
            .arg(&rp)
            .env("C32_CHILD_INDEX", p.to_string())
            .stdout(f)
            .stderr(std::process::Stdio::null())
            .spawn()
            .map_err(|e| format!("spawn: {e}"))?;
        kids.push((child, outp));
    }
    let mut all = Vec::new();
    for (mut child, outp) in kids {
        let _ = child.wait();
        let text = std::fs::read_to_string(&outp).unwrap_or_default();
        let _ = std::fs::remove_file(&outp);
        let line = text.lines().find(|l| l.starts_with(CHILD_MARK)).ok_or_else(|| "child produced no result".to_string())?;
        let v: Value = serde_json::from_str(&line[CHILD_MARK.len()..]).map_err(|e| e.to_string())?;
        let rs: Vec<Result<Value, String>> = v.as_array().cloned().unwrap_or_default().iter().map(outcome_from).collect();
        if rs.len() != batch.len() {
            return Err("child result length mismatch".into());
        }
        all.push(rs);
    }
    let _ = std::fs::remove_file(&rp);
    Ok(all)
}

// ───────────────────────── classification ─────────────────────────

fn first_diff(a: &Value, b: &Value, path: &mut Vec<String>) -> Option<Vec<String>> {
    match (a, b) {
        (Value::Object(x), Value::Object(y)) => {
            let mut keys: Vec<&String> = x.keys().chain(y.keys()).collect();
            keys.sort();
            keys.dedup();
            for k in keys {
                path.push(k.clone());
                let r = match (x.get(k), y.get(k)) {
                    (Some(p), Some(q)) => first_diff(p, q, path),
                    _ => Some(path.clone()),
                };
                path.pop();
                if r.is_some() {
                    return r;
                }
            }
            None
        }
        _ if a == b => None,
        _ => Some(path.clone()),
    }
}

fn get_path<'a>(v: &'a Value, path: &[String]) -> Option<&'a Value> {
    let mut n = v;
    for s in path {
        n = n.get(s)?;
    }
    Some(n)
}

/// All spellings (join masks) under which `path` is present in `doc`.
fn spellings_in(doc: &Value, path: &[String]) -> Vec<u32> {
    let mut out = Vec::new();
    for joins in 0..=config::flat_mask(path.len()) {
        let keys = config::spell(path, joins);
        let mut n = doc;
        let mut ok = true;
        for k in &keys {
            match n.get(k) {
                Some(c) => n = c,
                None => {
                    ok = false;
                    break;
                }
            }
        }
        if ok {
            out.push(joins);
        }
    }
    out
}

fn setting_for<'a>(ks: &'a KeySpace, diff: &[String]) -> Option<&'a KeyInfo> {
    ks.keys.iter().filter(|k| diff.len() >= k.path.len() && diff[..k.path.len()] == k.path[..]).max_by_key(|k| k.path.len())
}

fn kind_name(k: &ValKind) -> &'static str {
    match k {
        ValKind::Array(_) => "array",
        ValKind::Map(_) => "map",
        ValKind::Bool | ValKind::Int { .. } | ValKind::Str | ValKind::Enum(_) => "scalar",
        _ => "other",
    }
}

/// merge-clause signature for `actual != expected`
fn classify(ks: &KeySpace, docs: &[Value], actual: &Value, expected: &Value) -> (String, String) {
    let diff = first_diff(actual, expected, &mut Vec::new()).unwrap_or_default();
    let Some(key) = setting_for(ks, &diff) else {
        return ("C32:merge:unknown-setting".into(), format!("first difference at {}", diff.join(".")));
    };
    let per_doc: Vec<Vec<u32>> = docs.iter().map(|d| spellings_in(d, &key.path)).collect();
    let used: Vec<&str> = per_doc.iter().filter(|s| !s.is_empty()).map(|s| config::spelling_name(key.path.len(), s[0])).collect();
    let setters = used.len();
    let spelling = if setters <= 1 {
        "single-document"
    } else if used.iter().all(|u| *u == used[0]) && per_doc.iter().filter(|s| !s.is_empty()).all(|s| s[0] == per_doc.iter().find(|x| !x.is_empty()).unwrap()[0]) {
        "same-spelling"
    } else {
        "spelling-differs"
    };
    let a = get_path(actual, &key.path).cloned().unwrap_or(Value::Null);
    let e = get_path(expected, &key.path).cloned().unwrap_or(Value::Null);
    let effect = match (&a, &e) {
        (Value::Array(x), Value::Array(y)) => {
            let mut dup = false;
            for (i, it) in x.iter().enumerate() {
                if x[..i].contains(it) {
                    dup = true;
                }
            }
            let missing = y.iter().any(|it| !x.contains(it));
            if missing {
                "elements-missing"
            } else if dup {
                "duplicate-kept"
            } else if x.len() == y.len() {
                "order-differs"
            } else {
                "extra-elements"
            }
        }
        _ => {
            // which document's value survived?
            let mut who = "other-value";
            let vals: Vec<Option<Value>> = docs.iter().map(|d| get_path(&config::normalize_nested(d), &key.path).cloned()).collect();
            let last_setter = vals.iter().rposition(|v| v.is_some());
            for (i, v) in vals.iter().enumerate() {
                if Some(i) != last_setter && v.as_ref().map(|v| json_loose_eq(v, &a)).unwrap_or(false) {
                    who = "earlier-value-survives";
                }
            }
            who
        }
    };
    (
        // one root cause (merge before the spellings are unified) has many effects: name only the cause
        if spelling == "spelling-differs" { format!("C32:merge:{}:{}", kind_name(&key.kind), spelling) } else { format!("C32:merge:{}:{}:{}", kind_name(&key.kind), spelling, effect) },
        format!("setting {} = {} but the later-wins/append model gives {}; spellings per document: {:?}", key.dotted(), clip(&a.to_string(), 200), clip(&e.to_string(), 200), per_doc.iter().map(|s| s.iter().map(|j| config::spelling_name(key.path.len(), *j)).collect::<Vec<_>>()).collect::<Vec<_>>()),
    )
}

fn json_loose_eq(a: &Value, b: &Value) -> bool {
    a == b || a.to_string() == b.to_string()
}

// ───────────────────────── generation ─────────────────────────

fn distinct_array(rng: &mut Rng, item: &ValKind, pool: &mut Vec<Value>) -> Value {
    // draw from a shared pool so that documents overlap
    for _ in 0..16 {
        if pool.len() >= 5 {
            break;
        }
        let v = config::valid_value(rng, item);
        if !pool.contains(&v) {
            pool.push(v);
        }
    }
    if pool.is_empty() {
        return json!([]);
    }
    let n = rng.range(1, pool.len().min(3).max(1));
    let mut idx: Vec<usize> = (0..pool.len()).collect();
    rng.shuffle(&mut idx);
    Value::Array(idx.into_iter().take(n).map(|i| pool[i].clone()).collect())
}

fn value_for(rng: &mut Rng, key: &KeyInfo, pools: &mut std::collections::BTreeMap<String, Vec<Value>>) -> Value {
    match &key.kind {
        ValKind::Array(item) => distinct_array(rng, item, pools.entry(key.dotted()).or_default()),
        k => config::valid_value(rng, k),
    }
}

struct Gen {
    docs: Vec<Value>,
    partial_last: bool,
    family: &'static str,
    shared: usize,
}

fn gen_case(rng: &mut Rng, ks: &KeySpace) -> Gen {
    if rng.chance(1, 5) {
        // collision family: determinism clause only
        let ndocs = rng.range(1, 2);
        let mut docs = Vec::new();
        for _ in 0..ndocs {
            let (mut es, tr) = config::hostile_entries(rng, ks);
            if tr.collisions == 0 {
                es.push(config::Entry { keys: vec!["diagnostics".into()], value: json!(1), what: "prefix-is-value" });
                es.push(config::Entry { keys: vec!["diagnostics.enable".into()], value: json!(false), what: "setting" });
            }
            docs.push(config::render_entries(&es));
        }
        return Gen { docs, partial_last: false, family: "collision", shared: 0 };
    }
    let usable = |k: &KeyInfo| !matches!(k.kind, ValKind::Any | ValKind::Record(_) | ValKind::PathItem) && k.path.len() >= 2;
    let ndocs = if rng.chance(1, 4) { 3 } else { 2 };
    let mut per_doc: Vec<Vec<Setting>> = vec![Vec::new(); ndocs];
    let mut pools = std::collections::BTreeMap::new();
    // 1–3 settings shared by at least two documents
    let nshared = rng.range(1, 3);
    let mut chosen: Vec<String> = Vec::new();
    for _ in 0..nshared {
        let want_array = rng.chance(2, 5);
        let Some(key) = ks.pick_where(rng, |k| usable(k) && k.is_array() == want_array && !matches!(k.kind, ValKind::Map(_))) else { continue };
        if chosen.contains(&key.dotted()) {
            continue;
        }
        chosen.push(key.dotted());
        let mut holders: Vec<usize> = (0..ndocs).collect();
        rng.shuffle(&mut holders);
        let nh = rng.range(2, ndocs);
        let mut prev: Option<Value> = None;
        let mut hs: Vec<usize> = holders.into_iter().take(nh).collect();
        hs.sort();
        for h in hs {
            let mut v = value_for(rng, key, &mut pools);
            // scalars: make consecutive values differ when the domain allows it
            for _ in 0..4 {
                if key.is_scalar() && prev.as_ref() == Some(&v) {
                    v = value_for(rng, key, &mut pools);
                }
            }
            if key.kind == ValKind::Bool {
                if let Some(Value::Bool(p)) = prev {
                    v = json!(!p);
                }
            }
            prev = Some(v.clone());
            per_doc[h].push(Setting { path: key.path.clone(), value: v, joins: config::random_joins(rng, key.path.len()) });
        }
    }
    // background settings
    for _ in 0..rng.range(0, 5) {
        let key = ks.pick(rng);
        if !usable(key) || chosen.contains(&key.dotted()) {
            continue;
        }
        chosen.push(key.dotted());
        let d = rng.below(ndocs);
        let v = value_for(rng, key, &mut pools);
        per_doc[d].push(Setting { path: key.path.clone(), value: v, joins: config::random_joins(rng, key.path.len()) });
    }
    let docs: Vec<Value> = per_doc.iter().map(|s| config::render(s)).collect();
    Gen { docs, partial_last: rng.chance(1, 6), family: "merge", shared: nshared }
}

// ───────────────────────── judging ─────────────────────────

enum Judgement {
    Held { always_panics: bool },
    Bad { sig: String, detail: String },
    NoModel,
}

fn all_same(rs: &[Result<Value, String>]) -> bool {
    rs.windows(2).all(|w| w[0] == w[1])
}

fn nondet_sig(family: &str, ks: &KeySpace, rs: &[Result<Value, String>]) -> (String, String) {
    let a = &rs[0];
    let b = rs.iter().find(|r| *r != a).unwrap_or(a);
    let what = match (a, b) {
        (Ok(x), Ok(y)) => {
            let d = first_diff(x, y, &mut Vec::new()).unwrap_or_default();
            let k = setting_for(ks, &d).map(|k| kind_name(&k.kind)).unwrap_or("unknown");
            (format!("value-differs:{k}"), format!("setting {} differs between two loads of the same files", d.join(".")))
        }
        (Ok(_), Err(p)) | (Err(p), Ok(_)) => ("panic-or-value".to_string(), format!("one load returns a configuration, another one panics ({p})")),
        (Err(p), Err(q)) => ("panic-site-differs".to_string(), format!("{p} vs {q}")),
    };
    // colliding keys: one root cause (hash-ordered rebuild of the nested form) with many faces
    if family == "collision" {
        return ("C32:nondeterministic:colliding-keys".to_string(), format!("{} [{}]", what.1, what.0));
    }
    (format!("C32:nondeterministic:plain-keys:{}", what.0), what.1)
}

fn judge(ks: &KeySpace, docs: &[Value], family: &str, rs: &[Result<Value, String>]) -> Judgement {
    if !all_same(rs) {
        let (sig, detail) = nondet_sig(family, ks, rs);
        let n_distinct = {
            let mut seen: Vec<&Result<Value, String>> = Vec::new();
            for r in rs {
                if !seen.contains(&r) {
                    seen.push(r);
                }
            }
            seen.len()
        };
        return Judgement::Bad { sig, detail: format!("{detail}; {n_distinct} distinct results in {} loads", rs.len()) };
    }
    match &rs[0] {
        Err(_) => Judgement::Held { always_panics: true },
        Ok(actual) => {
            if family == "collision" {
                return Judgement::Held { always_panics: false };
            }
            match model(docs) {
                None => Judgement::NoModel,
                Some(expected) => {
                    let pruned = model_opt(docs, true);
                    if *actual == expected || pruned.as_ref() == Some(actual) {
                        Judgement::Held { always_panics: false }
                    } else {
                        // report against the reading that is closest to what the loader does (empty objects set nothing)
                        let expected = pruned.unwrap_or(expected);
                        let (sig, detail) = classify(ks, docs, actual, &expected);
                        Judgement::Bad { sig, detail }
                    }
                }
            }
        }
    }
}

fn loads_here(dir: &str, docs: &[Value], partial_last: bool, n: usize) -> Vec<Result<Value, String>> {
    (0..n).map(|_| load_once(dir, docs, partial_last)).collect()
}

fn case_json(docs: &[Value], partial_last: bool, family: &str) -> Value {
    json!({"docs": docs, "partial_last": partial_last, "family": family})
}

fn shrink(dir: &str, ks: &KeySpace, docs: &[Value], partial_last: bool, family: &str, sig: &str, reps: usize) -> Vec<Value> {
    let small = shrink_json(
        &Value::Array(docs.to_vec()),
        |cand| {
            let Some(arr) = cand.as_array() else { return false };
            if arr.is_empty() || arr.iter().any(|d| !d.is_object()) || (partial_last && arr.len() < 2) {
                return false;
            }
            let rs = loads_here(dir, arr, partial_last, reps);
            matches!(judge(ks, arr, family, &rs), Judgement::Bad { sig: s, .. } if s == sig)
        },
        250,
    );
    small.as_array().cloned().unwrap_or_else(|| docs.to_vec())
}

fn judge_chunk(ctx: &mut Ctx, ks: &KeySpace, here_dir: &str, gens: &[Gen], batch: &[Value], children: &[Vec<Result<Value, String>>], here_reps: usize) {
    for (i, g) in gens.iter().enumerate() {
        let mut rs = loads_here(here_dir, &g.docs, g.partial_last, here_reps);
        for c in children {
            rs.push(c[i].clone());
        }
        ctx.clause(&format!("family:{}", g.family));
        ctx.extra_add("loads", rs.len() as u64);
        let fp = fnv(batch[i].to_string().as_bytes());
        match judge(ks, &g.docs, g.family, &rs) {
            Judgement::Held { always_panics } => {
                ctx.clause("1:determinism");
                if always_panics {
                    ctx.clause("1:determinism:always-panics(C31)");
                } else if g.family == "merge" {
                    ctx.clause("2:merge-model");
                }
                ctx.held(fp, g.family == "collision" || g.shared >= 1);
                if ctx.want_sample() && i % 37 == 3 {
                    ctx.sample(json!({"family": g.family, "docs": g.docs, "partial_last": g.partial_last, "loads": rs.len()}));
                }
            }
            Judgement::NoModel => ctx.inconclusive("model-config-invalid"),
            Judgement::Bad { sig, detail } => {
                ctx.fps.insert(fp);
                if ctx.sig_counts.get(&sig).copied().unwrap_or(0) >= crate::report::MAX_VIOLATIONS_PER_SIG {
                    ctx.violated(&sig, "", json!(null));
                    continue;
                }
                if ctx.sig_counts.get(&sig).copied().unwrap_or(0) >= 1 {
                    // one shrunk witness per signature and shard
                    ctx.violated(&sig, &format!("{detail}; documents (in load order): {}", clip(&Value::Array(g.docs.clone()).to_string(), 700)), case_json(&g.docs, g.partial_last, g.family));
                    continue;
                }
                let nondet = sig.starts_with("C32:nondeterministic");
                let reps = if nondet { 16 } else { 1 };
                // a non-deterministic case is only shrunk when this process alone can see the difference
                let can_shrink = !nondet || !all_same(&loads_here(here_dir, &g.docs, g.partial_last, reps));
                let docs = if can_shrink { shrink(here_dir, ks, &g.docs, g.partial_last, g.family, &sig, reps) } else { g.docs.clone() };
                let rs2 = loads_here(here_dir, &docs, g.partial_last, reps.max(2));
                let (docs, detail) = match judge(ks, &docs, g.family, &rs2) {
                    Judgement::Bad { sig: s2, detail: d2 } if s2 == sig => (docs, d2),
                    _ => (g.docs.clone(), detail),
                };
                ctx.violated(&sig, &format!("{detail}; documents (in load order): {}", clip(&Value::Array(docs.clone()).to_string(), 700)), case_json(&docs, g.partial_last, g.family));
            }
        }
    }
}

pub fn run(ctx: &mut Ctx) {
    install_cheap_hook();
    let base = format!("{}/c32-{}-{}", ctx.work, std::process::id(), ctx.shard);
    let here_dir = format!("{base}-here");
    if let Some(rep) = ctx.replay.clone() {
        if rep.get("child").is_some() {
            let dir = format!("{}-{}-{}", rep["dir"].as_str().unwrap_or(&base), std::env::var("C32_CHILD_INDEX").unwrap_or_default(), std::process::id());
            let mut out = Vec::new();
            for c in rep["cases"].as_array().cloned().unwrap_or_default() {
                let docs = c["docs"].as_array().cloned().unwrap_or_default();
                let r = if docs.is_empty() { Err("panic:empty-case".to_string()) } else { load_once(&dir, &docs, c["partial_last"].as_bool().unwrap_or(false)) };
                out.push(outcome_json(&r));
            }
            let _ = std::fs::remove_dir_all(&dir);
            println!("{CHILD_MARK}{}", Value::Array(out));
            ctx.held(0, false);
            return;
        }
        let Some(ks) = KeySpace::harvest(&ctx.repo) else {
            ctx.inconclusive("schema-not-found");
            return;
        };
        let docs = rep["docs"].as_array().cloned().unwrap_or_default();
        let pl = rep["partial_last"].as_bool().unwrap_or(false);
        let family = rep["family"].as_str().unwrap_or("merge").to_string();
        let mut rs = loads_here(&here_dir, &docs, pl, 24);
        if let Ok(ch) = run_children(&base, &[case_json(&docs, pl, &family)], 8) {
            for c in ch {
                rs.push(c[0].clone());
            }
        }
        let _ = std::fs::remove_dir_all(&here_dir);
        match judge(&ks, &docs, &family, &rs) {
            Judgement::Bad { sig, detail } => {
                println!("replay: VIOLATED {sig}: {detail}");
                ctx.violated(&sig, &detail, rep);
            }
            Judgement::Held { always_panics } => {
                println!("replay: held ({} loads agree{})", rs.len(), if always_panics { ", all panic — C31's subject" } else { " with each other and with the model" });
                ctx.held(fnv(rep.to_string().as_bytes()), true);
            }
            Judgement::NoModel => {
                println!("replay: inconclusive (the merged document is not a valid configuration)");
                ctx.inconclusive("model-config-invalid");
            }
        }
        return;
    }
    let Some(ks) = KeySpace::harvest(&ctx.repo) else {
        ctx.inconclusive("schema-not-found");
        return;
    };
    ctx.extra_set("const_schema_keys", json!(ks.keys.len()));
    let n = ctx.budget(400, 4_000) as usize;
    let procs = if ctx.is_quick() { 8 } else { 16 };
    let here_reps = 3;
    ctx.extra_set("const_processes_per_case", json!(procs + 1));
    // chunks: the children of one chunk are the expensive part; the time bound is checked between chunks
    let chunk = 50usize;
    let mut start = 0usize;
    while start < n {
        if ctx.out_of_time() {
            break;
        }
        let end = (start + chunk).min(n);
        let gens: Vec<Gen> = (start..end).map(|i| gen_case(&mut Rng::new(ctx.case_seed(i as u64)), &ks)).collect();
        let batch: Vec<Value> = gens.iter().map(|g| case_json(&g.docs, g.partial_last, g.family)).collect();
        let children = match run_children(&format!("{base}-{start}"), &batch, procs) {
            Ok(c) => c,
            Err(e) => {
                ctx.inconclusive(&format!("children-failed:{}", clip(&e, 60)));
                break;
            }
        };
        judge_chunk(ctx, &ks, &here_dir, &gens, &batch, &children, here_reps);
        start = end;
    }
    let _ = std::fs::remove_dir_all(&here_dir);
}
