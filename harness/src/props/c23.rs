//! C23 — positions follow the LSP encoding and line-ending rules (in-process observations).
//!
//! Generated Lua documents put known tokens after astral characters (emoji), BMP non-ASCII text and every
//! line-terminator style. Observed positions:
//!   * `LuaDocument::to_lsp_range` of every non-trivia token of the syntax tree;
//!   * ranges of `undefined-global` diagnostics from `EmmyLuaAnalysis::diagnose_file` on known names.
//! Oracle: the range, read the way an LSP client reads it when nothing was negotiated — UTF-16 code units,
//! lines split at `\n`, `\r\n`, `\r` (`posmodel::PosModel::lsp`) — must select exactly the token text /
//! one of the known undefined names.
//!
//! The LSP-handler level observations of DESIGN §4 C23 (documentSymbol, definition, hover, semantic
//! tokens over the SimServer) are not part of this module.

use crate::posmodel::{Encoding, LineSplit, PosModel};
use crate::report::{Ctx, clip};
use crate::rng::{Rng, fnv};
use crate::util::guarded;
use emmylua_code_analysis::{EmmyLuaAnalysis, file_path_to_uri};
use emmylua_parser::LuaTokenKind;
use serde_json::json;
use std::path::PathBuf;
use tokio_util::sync::CancellationToken;

const ASTRAL: &[&str] = &["😀", "𝔘", "🇩🇪", "𐍈"];
const BMP: &[&str] = &["é", "名前", "ß", "я", "e\u{301}", "€"];
const ASCII_WORDS: &[&str] = &["a", "text", "x y", "1", ""];

fn filler(rng: &mut Rng, mix: usize) -> String {
    let mut s = String::new();
    for _ in 0..rng.range(0, 3) {
        let f = match (mix, rng.below(6)) {
            (0, _) => rng.pick(ASCII_WORDS),
            (1, 0..=2) => rng.pick(BMP),
            (2, 0..=2) => rng.pick(ASTRAL),
            (3, 0..=1) => rng.pick(BMP),
            (3, 2..=3) => rng.pick(ASTRAL),
            _ => rng.pick(ASCII_WORDS),
        };
        s.push_str(f);
    }
    s
}

struct Doc {
    /// source pieces (ddmin shrinks these); each piece is one line *including* its terminator,
    /// or a part of a multi-line token
    parts: Vec<String>,
}

fn gen_doc(rng: &mut Rng) -> Doc {
    let nlines = rng.range(1, 10);
    let term_style = rng.below(5);
    let mix = rng.below(4);
    let mut parts = Vec::new();
    let mut k = 0;
    for _ in 0..nlines {
        let term = match term_style {
            0 => "\n",
            1 => "\r\n",
            2 => "\r",
            3 => rng.pick(&["\n", "\r\n"]),
            _ => rng.pick(&["\n", "\r\n", "\r"]),
        };
        k += 1;
        let f = filler(rng, mix);
        let line = match rng.below(9) {
            0 => format!("local v{k} = \"{f}\" .. undefG{k}(1)"),
            1 => format!("--[[ {f} ]] undefG{k}()"),
            2 => format!("undefG{k}(\"{f}\", undefH{k})"),
            3 => format!("-- {f}"),
            4 => format!("--- {f} doc"),
            5 => String::new(),
            6 => format!("local s{k} = [[{f}{term}{}]] undefG{k}()", filler(rng, mix)),
            7 => format!("local t{k} = {{ ['{f}'] = undefG{k}, }}"),
            _ => format!("  \t undefG{k}.field = '{f}'"),
        };
        parts.push(format!("{line}{term}"));
    }
    if rng.bool() {
        parts.push("return undefLast".to_string()); // no trailing newline
    }
    Doc { parts }
}

#[derive(Debug, Clone)]
struct Bad {
    sig: String,
    detail: String,
}

const SIX: [(Encoding, LineSplit); 6] = [
    (Encoding::Utf16, LineSplit::Lsp),
    (Encoding::Utf16, LineSplit::LfOnly),
    (Encoding::Scalar, LineSplit::Lsp),
    (Encoding::Scalar, LineSplit::LfOnly),
    (Encoding::Utf8, LineSplit::Lsp),
    (Encoding::Utf8, LineSplit::LfOnly),
];

/// Name the deviation: under which convention *would* the range select the expected text?
fn diagnose(text: &str, start: (u32, u32), end: (u32, u32), expected: &str) -> String {
    let works: Vec<(Encoding, LineSplit)> = SIX.iter().copied().filter(|(e, s)| PosModel::new(text, *e, *s).slice_exact(start, end) == Some(expected)).collect();
    let enc_ok = |e: Encoding| works.iter().any(|(x, _)| *x == e);
    if works.contains(&(Encoding::Utf16, LineSplit::LfOnly)) {
        // the encoding is right, only the line splitting differs
        let term = if text.contains("\r\n") && !has_lone_cr(text) { "CRLF" } else { "CR" };
        return format!("line-split:terminator={term}");
    }
    if works.contains(&(Encoding::Scalar, LineSplit::Lsp)) {
        return "encoding:columns=scalar-values".into();
    }
    if works.contains(&(Encoding::Utf8, LineSplit::Lsp)) {
        return "encoding:columns=utf8-bytes".into();
    }
    if enc_ok(Encoding::Scalar) {
        return "encoding+line-split:columns=scalar-values:terminator=CR".into();
    }
    if enc_ok(Encoding::Utf8) {
        return "encoding+line-split:columns=utf8-bytes".into();
    }
    "range-selects-other-text".into()
}

fn has_lone_cr(text: &str) -> bool {
    let b = text.as_bytes();
    (0..b.len()).any(|i| b[i] == b'\r' && b.get(i + 1) != Some(&b'\n'))
}

struct Good {
    tokens: usize,
    diags: usize,
    astral_before: usize,
    cr_before: usize,
}

fn is_judged_token(kind: LuaTokenKind) -> bool {
    !matches!(kind, LuaTokenKind::TkWhitespace | LuaTokenKind::TkEndOfLine | LuaTokenKind::TkEof | LuaTokenKind::None)
}

fn eval(text: &str) -> Result<Good, Bad> {
    let model = PosModel::lsp(text);
    let r = guarded(|| -> Result<Good, Bad> {
        let mut analysis = EmmyLuaAnalysis::new();
        analysis.add_main_workspace(PathBuf::from("/c23ws"));
        let uri = file_path_to_uri(&PathBuf::from("/c23ws/doc.lua")).expect("uri");
        let Some(file_id) = analysis.update_file_by_uri(&uri, Some(text.to_string())) else {
            return Err(Bad { sig: "C23:harness:no-file-id".into(), detail: String::new() });
        };
        let mut good = Good { tokens: 0, diags: 0, astral_before: 0, cr_before: 0 };
        {
            let db = analysis.compilation.get_db();
            let vfs = db.get_vfs();
            let doc = vfs.get_document(&file_id).expect("document");
            let tree = vfs.get_syntax_tree(&file_id).expect("tree");
            for el in tree.get_red_root().descendants_with_tokens() {
                let rowan::NodeOrToken::Token(t) = el else { continue };
                let kind: LuaTokenKind = t.kind().into();
                if !is_judged_token(kind) || t.text().is_empty() {
                    continue;
                }
                let r = t.text_range();
                let (s, e) = (usize::from(r.start()), usize::from(r.end()));
                if e > text.len() || !text.is_char_boundary(s) || !text.is_char_boundary(e) || &text[s..e] != t.text() {
                    continue; // a lossy tree is C01's subject
                }
                let Some(lr) = doc.to_lsp_range(r) else {
                    return Err(Bad { sig: "C23:token-has-no-lsp-range".into(), detail: format!("to_lsp_range({r:?}) = None for token {:?}", t.text()) });
                };
                let (a, b) = ((lr.start.line, lr.start.character), (lr.end.line, lr.end.character));
                if model.slice_exact(a, b) != Some(t.text()) {
                    let got = model.slice(a, b).map(|x| clip(x, 40));
                    return Err(Bad {
                        sig: format!("C23:{}", diagnose(text, a, b, t.text())),
                        detail: format!("to_lsp_range of token {:?} at bytes {s}..{e} is {a:?}-{b:?}; an LSP client (UTF-16, \\n|\\r\\n|\\r) reads that as {got:?}; correct is {:?}", clip(t.text(), 40), model.range_of(s, e)),
                    });
                }
                good.tokens += 1;
                if text[..s].chars().any(|c| c.len_utf16() == 2) && text[..s].rfind('\n').map(|i| text[i..s].chars().any(|c| c.len_utf16() == 2)).unwrap_or(true) {
                    good.astral_before += 1;
                }
                if has_lone_cr(&text[..s]) {
                    good.cr_before += 1;
                }
            }
        }
        // diagnostics on known names
        let diags = analysis.diagnose_file(file_id, CancellationToken::new()).unwrap_or_default();
        for d in diags {
            let code = match &d.code {
                Some(lsp_types::NumberOrString::String(s)) => s.clone(),
                _ => continue,
            };
            if code != "undefined-global" {
                continue;
            }
            let (a, b) = ((d.range.start.line, d.range.start.character), (d.range.end.line, d.range.end.character));
            let sel = model.slice_exact(a, b);
            let ok = sel.map(|s| is_name(s) && d.message.contains(s)).unwrap_or(false);
            if !ok {
                // which name was meant? the one quoted in the message
                let meant = d.message.split(|c: char| !(c.is_alphanumeric() || c == '_')).find(|w| w.starts_with("undef") || *w == "print").unwrap_or("").to_string();
                let why = if meant.is_empty() { "range-selects-other-text".to_string() } else { diagnose(text, a, b, &meant) };
                return Err(Bad { sig: format!("C23:{why}"), detail: format!("undefined-global diagnostic {:?} has range {a:?}-{b:?}, which an LSP client reads as {:?}", d.message, model.slice(a, b).map(|x| clip(x, 40))) });
            }
            good.diags += 1;
        }
        Ok(good)
    });
    match r {
        Ok(x) => x,
        // crashes of the analysis are C12's subject; nothing observed here
        Err(p) => Err(Bad { sig: format!("C23:harness:analysis-panicked:{}", super::c31::panic_site(&p)), detail: p.message }),
    }
}

/// Handler-level observation: semantic tokens of the real server (SimServer session, a client without
/// multilineTokenSupport). Every string token that spans several lines is split per line; the piece of a
/// non-final line must be as long as the rest of that line in UTF-16 code units. Ok(number of pieces judged).
fn semantic_pieces(work: &str, text: &str) -> Result<usize, Bad> {
    let pieces = super::c26::multi_line_pieces(text);
    if pieces.is_empty() {
        return Ok(0);
    }
    let data: Option<Vec<u64>> = crate::lspdrive::run_session(work, text, json!({}), async move |s: &mut crate::lspdrive::DocSession| {
        let td = s.td();
        let r = s.call("textDocument/semanticTokens/full", json!({"textDocument": td})).await;
        r.and_then(|r| r.result).and_then(|v| v["data"].as_array().map(|a| a.iter().map(|x| x.as_u64().unwrap_or(u64::MAX)).collect()))
    });
    let Some(data) = data else { return Ok(0) };
    let (mut line, mut ch) = (0u64, 0u64);
    let mut judged = 0;
    for t in data.chunks(5) {
        if t.len() < 5 {
            break;
        }
        if t[0] == 0 {
            ch += t[1];
        } else {
            line += t[0];
            ch = t[1];
        }
        if let Some(p) = pieces.iter().find(|p| p.0 == line && p.1 == ch) {
            judged += 1;
            if t[2] != p.2 {
                let unit = if (t[2] as usize) < p.2 as usize { "shorter" } else { "longer" };
                return Err(Bad {
                    sig: format!("C23:semantic-token-piece-not-in-utf16-units:{unit}"),
                    detail: format!("semantic token at {line}:{ch} has length {}; it is one line of a multi-line string and the rest of that line is {} UTF-16 code units", t[2], p.2),
                });
            }
        }
    }
    Ok(judged)
}

fn is_name(s: &str) -> bool {
    !s.is_empty() && s.chars().all(|c| c.is_ascii_alphanumeric() || c == '_') && !s.chars().next().unwrap().is_ascii_digit()
}

pub fn run(ctx: &mut Ctx) {
    crate::util::private_home(&ctx.work.clone(), "c23");
    if let Some(rep) = ctx.replay.clone() {
        let text = rep["text"].as_str().unwrap_or("").to_string();
        match eval(&text) {
            Ok(_) if rep["semantic"].as_bool().unwrap_or(false) && semantic_pieces(&ctx.work.clone(), &text).is_err() => {
                let b = semantic_pieces(&ctx.work.clone(), &text).err().unwrap();
                println!("replay: VIOLATED {}: {}", b.sig, b.detail);
                ctx.violated(&b.sig, &b.detail, rep);
            }
            Ok(g) => {
                println!("replay: held ({} token ranges and {} diagnostics select their text under UTF-16 / LSP line splitting)", g.tokens, g.diags);
                ctx.held(fnv(text.as_bytes()), true);
            }
            Err(b) => {
                println!("replay: VIOLATED {}: {}", b.sig, b.detail);
                ctx.violated(&b.sig, &b.detail, rep);
            }
        }
        return;
    }
    let n = ctx.budget(500, 20_000);
    for i in 0..n {
        super::c31::note_first_violation(ctx, i.saturating_sub(1));
        if ctx.out_of_time() {
            break;
        }
        let mut rng = Rng::new(ctx.case_seed(i));
        let doc = gen_doc(&mut rng);
        let text = doc.parts.concat();
        let fp = fnv(text.as_bytes());
        match eval(&text) {
            Ok(g) => {
                ctx.clause("token-ranges");
                if g.diags > 0 {
                    ctx.clause("diagnostic-ranges");
                }
                if g.astral_before > 0 {
                    ctx.clause("token-after-astral-character");
                }
                if g.cr_before > 0 {
                    ctx.clause("token-after-CR-only-terminator");
                }
                ctx.extra_add("token_ranges_checked", g.tokens as u64);
                ctx.extra_add("diagnostic_ranges_checked", g.diags as u64);
                ctx.extra_add("tokens_after_astral_on_same_line", g.astral_before as u64);
                ctx.extra_add("tokens_after_lone_cr", g.cr_before as u64);
                ctx.held(fp, g.tokens >= 8 && g.diags >= 1);
                // handler level (slower): every 8th document that has a multi-line string
                if i % 8 == 3 || text.contains("[[") && i % 3 == 0 {
                    match semantic_pieces(&ctx.work.clone(), &text) {
                        Ok(n) => ctx.clause_n("semantic-token-pieces-judged", n as u64),
                        Err(b) => ctx.violated(&b.sig, &format!("{}; document {:?}", b.detail, clip(&text, 300)), json!({"text": text, "semantic": true})),
                    }
                }
                if ctx.want_sample() && i % 61 == 2 {
                    ctx.sample(json!({"text": text, "tokens": g.tokens, "diagnostics": g.diags}));
                }
            }
            Err(b) if b.sig.starts_with("C23:harness") => ctx.inconclusive(&b.sig),
            Err(b) => {
                ctx.fps.insert(fp);
                ctx.clause("violating-document");
                // shrink: pieces, then characters, while the *same deviation* is diagnosed
                let sig0 = b.sig.clone();
                // a document showing both deviations at once may shrink to either single one
                let combined = sig0.starts_with("C23:encoding+line-split");
                let same = |p: &[String]| matches!(eval(&p.concat()), Err(b2) if b2.sig == sig0 || (combined && (b2.sig.starts_with("C23:encoding:") || b2.sig.starts_with("C23:line-split:"))));
                if ctx.sig_counts.get(&sig0).copied().unwrap_or(0) >= crate::report::MAX_VIOLATIONS_PER_SIG {
                    ctx.violated(&sig0, "", json!(null));
                    continue;
                }
                let small = crate::util::ddmin(doc.parts.clone(), same, 80);
                let chars: Vec<String> = small.concat().chars().map(|c| c.to_string()).collect();
                let small = if chars.len() <= 300 { crate::util::ddmin(chars, same, 250) } else { small };
                let st = small.concat();
                let b2 = eval(&st).err().unwrap_or(b);
                ctx.violated(&b2.sig, &format!("{}; shrunk document {:?}", b2.detail, clip(&st, 200)), json!({"text": st, "original": clip(&text, 600)}));
            }
        }
    }
}
