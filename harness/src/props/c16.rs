//! C16 — type assignability obeys the basic laws of subtyping.
//!
//! Laws (one oracle clause each; every clause follows from the property statement only):
//!   reflexive-same      check(T, T) for the very same `LuaType` value
//!   reflexive-reparsed  check(T, T') where T' comes from a second, textually identical annotation
//!   diag-reflexive      `---@type T local a; ---@type T local b = a` raises no assign-type-mismatch
//!   member-own          for a union U: check(U, m) for every member m of the real union value
//!   member-annotated    same, with m written as its own annotation (only when it *is* a member of U)
//!   ancestor            check(A, C) for every class C and every ancestor A of C
//!   any / unknown       check(any, T), check(unknown, T)
//!   union-batch         TypeOps::union_all(B) == left fold of TypeOps::Union over B (as member sets)

use crate::gens::types::{Canon, GenOpts, Hier, Ty, TypeWs, canon, gen_type, shrink, shrink_h};
use crate::report::{Ctx, clip};
use crate::rng::{Rng, fnv};
use crate::util::{ddmin, guarded};
use emmylua_code_analysis::{DiagnosticCode, LuaType, TypeOps};
use emmylua_parser::{LuaAstNode, LuaLocalStat};
use serde_json::{Value, json};
use std::collections::BTreeSet;

#[derive(Debug)]
pub enum Verdict {
    Held,
    Violated(String),
    Inconclusive(String),
}

fn two(ws: &mut TypeWs, repr: &str) -> Result<(LuaType, LuaType), String> {
    let a = ws.ty(repr).ok_or("no-semantic-info")?;
    let b = ws.ty(repr).ok_or("no-semantic-info")?;
    Ok((a, b))
}

/// union members of a real type value (the value itself when it is not a union)
fn real_members(t: &LuaType) -> Vec<LuaType> {
    match t {
        LuaType::Union(u) => u.into_vec(),
        LuaType::MultiLineUnion(m) => m.get_unions().iter().map(|(t, _)| t.clone()).collect(),
        _ => vec![],
    }
}

#[derive(Clone, Debug, PartialEq)]
pub enum Elem {
    Ann(Ty),
    Expr(String),
}

impl Elem {
    fn show(&self) -> String {
        match self {
            Elem::Ann(t) => t.print(),
            Elem::Expr(e) => format!("typeof({e})"),
        }
    }
    fn skel(&self) -> String {
        match self {
            Elem::Ann(t) => t.skeleton(),
            Elem::Expr(e) => format!("expr<{}>", expr_kind(e)),
        }
    }
    fn to_json(&self) -> Value {
        match self {
            Elem::Ann(t) => json!({"ann": t.print()}),
            Elem::Expr(e) => json!({"expr": e}),
        }
    }
}

fn expr_kind(e: &str) -> &'static str {
    match e.chars().next() {
        Some('"') => "string",
        Some('{') => "table",
        Some('f') if e.starts_with("function") => "function",
        Some('t') | Some('f') => "boolean",
        Some(c) if c.is_ascii_digit() || c == '-' => if e.contains('.') { "float" } else { "integer" },
        _ => "other",
    }
}

const EXPRS: &[&str] = &["1", "2", "-1", "1.5", "\"a\"", "\"b\"", "true", "false", "{}", "{ x = 1 }", "function() end", "function(a) return a end"];

/// Resolve batch elements (annotation strings and expression strings) to real types.
fn resolve_elems(ws: &mut TypeWs, elems: &[(bool, String)]) -> Option<Vec<LuaType>> {
    let mut text = String::new();
    for (i, (is_ann, s)) in elems.iter().enumerate() {
        if *is_ann {
            text.push_str(&format!("---@type {s}\nlocal t{i}\n"));
        } else {
            text.push_str(&format!("local t{i} = {s}\n"));
        }
    }
    let fid = ws.def(&text);
    let got = ws.local_types(fid);
    let mut out: Vec<Option<LuaType>> = vec![None; elems.len()];
    for (n, t) in got {
        if let Some(ix) = n.strip_prefix('t').and_then(|x| x.parse::<usize>().ok()) {
            if ix < out.len() {
                out[ix] = Some(t);
            }
        }
    }
    out.into_iter().collect()
}

fn strict_members(t: &LuaType) -> (BTreeSet<String>, usize) {
    // strict canonical form; table constants and signatures are told apart by their Debug text
    fn key(t: &LuaType) -> String {
        match t {
            LuaType::TableConst(r) => format!("tableconst{:?}", r),
            LuaType::Signature(s) => format!("signature{:?}", s),
            LuaType::Def(id) => format!("def:{}", id.get_name()),
            _ => format!("{:?}", canon(t, true)),
        }
    }
    match t {
        LuaType::Union(u) => {
            let v = u.into_vec();
            let n = v.len();
            (v.iter().map(key).collect(), n)
        }
        x => ([key(x)].into_iter().collect(), 1),
    }
}

fn eval_union_batch(ws: &mut TypeWs, elems: &[(bool, String)]) -> Verdict {
    if elems.is_empty() {
        return Verdict::Inconclusive("empty-batch".into());
    }
    let Some(types) = resolve_elems(ws, elems) else {
        return Verdict::Inconclusive("no-semantic-info".into());
    };
    let db = ws.ws.analysis.compilation.get_db();
    let batch = TypeOps::union_all(db, types.clone());
    let mut fold = LuaType::Never;
    for t in &types {
        fold = TypeOps::Union.apply(db, &fold, t);
    }
    let (bs, bn) = strict_members(&batch);
    let (fs, fnn) = strict_members(&fold);
    if std::env::var("VERIF_C16_DEBUG").is_ok() {
        println!("union_all = {:?}\nfold      = {:?}", batch, fold);
    }
    if bs != fs {
        let only_b: Vec<&String> = bs.difference(&fs).collect();
        let only_f: Vec<&String> = fs.difference(&bs).collect();
        return Verdict::Violated(format!(
            "union_all = {} ; fold = {} ; only in batch: {:?} ; only in fold: {:?}",
            canon(&batch, true).show(),
            canon(&fold, true).show(),
            only_b,
            only_f
        ));
    }
    if bn != fnn {
        return Verdict::Inconclusive(format!("union-dup-members(batch={bn},fold={fnn},distinct={})", bs.len()));
    }
    Verdict::Held
}

/// Evaluate one law on annotation strings inside `ws` (slow path: shrinking, replay).
pub fn eval_law(ws: &mut TypeWs, law: &str, types: &[String]) -> Verdict {
    let t0 = types.first().cloned().unwrap_or_default();
    match law {
        "reflexive-same" => match ws.ty(&t0) {
            None => Verdict::Inconclusive("no-semantic-info".into()),
            Some(t) => {
                if ws.check(&t, &t) {
                    Verdict::Held
                } else {
                    Verdict::Violated(format!("check(T,T) rejected for T = {} (real type {})", t0, canon(&t, false).show()))
                }
            }
        },
        "reflexive-reparsed" => match two(ws, &t0) {
            Err(e) => Verdict::Inconclusive(e),
            Ok((a, b)) => {
                if canon(&a, false) != canon(&b, false) {
                    return Verdict::Inconclusive("same-text-different-type".into());
                }
                if ws.check(&a, &b) {
                    Verdict::Held
                } else {
                    Verdict::Violated(format!("check(T,T') rejected for two annotations `{}` (real type {})", t0, canon(&a, false).show()))
                }
            }
        },
        "any" | "unknown" => {
            let Some(top) = ws.ty(law) else { return Verdict::Inconclusive("no-semantic-info".into()) };
            let Some(t) = ws.ty(&t0) else { return Verdict::Inconclusive("no-semantic-info".into()) };
            if ws.check(&top, &t) {
                Verdict::Held
            } else {
                Verdict::Violated(format!("check({law}, T) rejected for T = {}", t0))
            }
        }
        "member-own" => {
            let Some(u) = ws.ty(&t0) else { return Verdict::Inconclusive("no-semantic-info".into()) };
            let ms = real_members(&u);
            if ms.is_empty() {
                return Verdict::Inconclusive("not-a-union".into());
            }
            for m in &ms {
                if !ws.check(&u, m) {
                    return Verdict::Violated(format!("union U = {} rejects its own member {}", t0, canon(m, false).show()));
                }
            }
            Verdict::Held
        }
        "member-annotated" => {
            let Some(mr) = types.get(1) else { return Verdict::Inconclusive("bad-case".into()) };
            let Some(u) = ws.ty(&t0) else { return Verdict::Inconclusive("no-semantic-info".into()) };
            let Some(m) = ws.ty(mr) else { return Verdict::Inconclusive("no-semantic-info".into()) };
            let members: Vec<Canon> = real_members(&u).iter().map(|x| canon(x, false)).collect();
            if members.is_empty() {
                return Verdict::Inconclusive("not-a-union".into());
            }
            let cm = canon(&m, false);
            // the separately annotated member may itself be a union (`A?` inside `A?|B`): every part must be a member
            if !cm.members().iter().all(|p| members.contains(p)) {
                return Verdict::Inconclusive("annotated-member-not-in-union".into());
            }
            if ws.check(&u, &m) {
                Verdict::Held
            } else {
                Verdict::Violated(format!("union U = {} rejects member {} written as its own annotation", t0, mr))
            }
        }
        "ancestor" => {
            let Some(cr) = types.get(1) else { return Verdict::Inconclusive("bad-case".into()) };
            let Some(a) = ws.ty(&t0) else { return Verdict::Inconclusive("no-semantic-info".into()) };
            let Some(c) = ws.ty(cr) else { return Verdict::Inconclusive("no-semantic-info".into()) };
            if ws.check(&a, &c) {
                Verdict::Held
            } else {
                Verdict::Violated(format!("class {} rejected where its ancestor {} is expected", cr, t0))
            }
        }
        "diag-reflexive" => eval_diag(ws, &[t0]).pop().unwrap_or(Verdict::Inconclusive("no-result".into())),
        _ => Verdict::Inconclusive(format!("unknown-law:{law}")),
    }
}

/// The diagnostics route for a list of annotations, one verdict each.
fn eval_diag(ws: &mut TypeWs, reprs: &[String]) -> Vec<Verdict> {
    let mut text = String::new();
    for (i, r) in reprs.iter().enumerate() {
        text.push_str(&format!("---@type {r}\nlocal a{i}\n---@type {r}\nlocal b{i} = a{i}\n"));
    }
    let fid = ws.def(&text);
    // the value type of `a{i}` at the assignment must really be T, otherwise the case says nothing
    let declared: Vec<(String, LuaType)> = ws.local_types(fid);
    let mut value_ok = vec![false; reprs.len()];
    if let Some(model) = ws.ws.analysis.compilation.get_semantic_model(fid) {
        for st in model.get_root().descendants::<LuaLocalStat>() {
            let Some(name) = st.get_local_name_list().next().and_then(|n| n.get_name_token()).map(|t| t.get_name_text().to_string()) else { continue };
            let Some(ix) = name.strip_prefix('b').and_then(|x| x.parse::<usize>().ok()) else { continue };
            let Some(expr) = st.get_value_exprs().next() else { continue };
            let Ok(vt) = model.infer_expr(expr) else { continue };
            if let Some((_, dt)) = declared.iter().find(|(n, _)| *n == format!("b{ix}")) {
                if ix < value_ok.len() && canon(&vt, false) == canon(dt, false) {
                    value_ok[ix] = true;
                }
            }
        }
    }
    let Some(lines) = ws.diag_lines(fid, DiagnosticCode::AssignTypeMismatch) else {
        return reprs.iter().map(|_| Verdict::Inconclusive("diagnose-file-none".into())).collect();
    };
    (0..reprs.len())
        .map(|i| {
            if !value_ok[i] {
                return Verdict::Inconclusive("diag:value-type-is-not-T".into());
            }
            match lines.iter().find(|(l, _)| *l as usize >= 4 * i && (*l as usize) < 4 * i + 4) {
                Some((_, msg)) => Verdict::Violated(format!("`---@type T local a; ---@type T local b = a` raises assign-type-mismatch for T = {}: {}", reprs[i], clip(msg, 200))),
                None => Verdict::Held,
            }
        })
        .collect()
}

fn member_reprs(t: &Ty) -> Vec<Ty> {
    match t {
        Ty::Union(ms) => ms.clone(),
        Ty::Opt(x) => vec![(**x).clone(), Ty::Prim("nil")],
        _ => vec![],
    }
}

struct Batch {
    hier: Hier,
    defs: String,
    ws: TypeWs,
}

impl Batch {
    fn new(rng: &mut Rng) -> Batch {
        let hier = Hier::generate(rng);
        let defs = hier.to_lua(None);
        let ws = TypeWs::new(&defs);
        Batch { hier, defs, ws }
    }
}

/// Shrink a failing single-type law, classify and report.
fn report_type_violation(ctx: &mut Ctx, b: &mut Batch, law: &str, t: &Ty, extra: Option<&Ty>) {
    let extra_s: Vec<String> = extra.iter().map(|e| e.print()).collect();
    let small = {
        let ws = &mut b.ws;
        let hier_ref = &b.hier;
        shrink_h(
            t,
            hier_ref,
            |c| {
                if !c.well_scoped(hier_ref) {
                    return false;
                }
                let mut args = vec![c.print()];
                if law == "member-annotated" {
                    // keep "some annotated member rejected"
                    return member_reprs(c).iter().any(|m| matches!(eval_law(ws, law, &[c.print(), m.print()]), Verdict::Violated(_)));
                }
                args.extend(extra_s.iter().cloned());
                matches!(eval_law(ws, law, &args), Verdict::Violated(_))
            },
            300,
        )
    };
    // re-evaluate the shrunk case in a *fresh* workspace holding only the definitions it needs
    let mut names = BTreeSet::new();
    small.names(&mut names);
    let defs = b.hier.to_lua(Some(&names));
    let mut fresh = TypeWs::new(&defs);
    let mut types = vec![small.print()];
    let mut member_skel = String::new();
    if law == "member-annotated" {
        let bad = member_reprs(&small).into_iter().find(|m| matches!(eval_law(&mut fresh, law, &[small.print(), m.print()]), Verdict::Violated(_)));
        match bad {
            Some(m) => {
                member_skel = m.outer_inner();
                types.push(m.print());
            }
            None => {
                ctx.inconclusive("shrunk-case-not-reproduced-in-fresh-workspace");
                return;
            }
        }
    }
    match eval_law(&mut fresh, law, &types) {
        Verdict::Violated(detail) => {
            // signature = law + outermost / most exotic inner constructor of the shrunk witness
            // (for member-annotated: of the rejected member, which is where the defect sits)
            let sig = if member_skel.is_empty() { format!("C16:{law}:{}", small.outer_inner()) } else { format!("C16:{law}:{member_skel}") };
            ctx.violated(&sig, &format!("{detail}; shrunk witness skeleton {}; original type {}", small.skeleton(), clip(&t.print(), 300)), json!({"law": law, "defs": defs, "types": types, "sig": sig}));
        }
        _ => ctx.inconclusive("shrunk-case-not-reproduced-in-fresh-workspace"),
    }
}

fn run_batch(ctx: &mut Ctx, rng: &mut Rng, depth: usize, per_batch: usize) {
    let mut b = Batch::new(rng);
    ctx.clause("batch");
    // ── hierarchy law ──
    let pairs = b.hier.ancestor_pairs();
    for (anc, desc, dist) in &pairs {
        let v = eval_law(&mut b.ws, "ancestor", &[anc.print(), desc.print()]);
        ctx.clause("law:ancestor");
        if !matches!(desc, Ty::Class(_)) {
            ctx.clause("law:ancestor:generic-descendant");
        }
        match v {
            Verdict::Held => ctx.held(fnv(format!("anc|{}|{}", anc.print(), desc.print()).as_bytes()) ^ fnv(b.defs.as_bytes()), *dist >= 2 || !matches!(anc, Ty::Class(_))),
            Verdict::Inconclusive(r) => ctx.inconclusive(&format!("ancestor:{r}")),
            Verdict::Violated(detail) => {
                let mut names: BTreeSet<String> = BTreeSet::new();
                anc.names(&mut names);
                desc.names(&mut names);
                let defs = b.hier.to_lua(Some(&names));
                let mut fresh = TypeWs::new(&defs);
                let types = vec![anc.print(), desc.print()];
                match eval_law(&mut fresh, "ancestor", &types) {
                    Verdict::Violated(_) => {
                        let dname = match desc {
                            Ty::Class(n) | Ty::Generic(n, _) => n.clone(),
                            _ => String::new(),
                        };
                        let shape = if b.hier.class(&dname).map(|c| c.parents.len() > 1).unwrap_or(false) { "multi-parent" } else { "single-parent" };
                        let sig = format!("C16:ancestor:ancestor={}:descendant={}:distance={}:{shape}", anc.skeleton(), desc.skeleton(), (*dist).min(3));
                        ctx.violated(&sig, &detail, json!({"law": "ancestor", "defs": defs, "types": types, "sig": sig}));
                    }
                    _ => ctx.inconclusive("ancestor:not-reproduced-in-fresh-workspace"),
                }
            }
        }
    }

    // ── per-type laws (fast path: one file per pass) ──
    let opts = GenOpts { depth, c17_subset: false, exotic: true, allow_any: true, allow_unknown: true, generic_alias: true };
    let tys: Vec<Ty> = (0..per_batch)
        .map(|_| {
            let d = rng.range(1, depth);
            gen_type(rng, &b.hier, &GenOpts { depth: d, ..opts.clone() })
        })
        .collect();
    let reprs: Vec<String> = tys.iter().map(|t| t.print()).collect();
    let first = b.ws.types(&reprs);
    let second = b.ws.types(&reprs);
    let any_t = b.ws.ty("any");
    let unk_t = b.ws.ty("unknown");
    let diag = eval_diag(&mut b.ws, &reprs);
    // annotated members, one extra file
    let mut mem_reprs: Vec<String> = Vec::new();
    let mut mem_of: Vec<(usize, Ty)> = Vec::new();
    for (i, t) in tys.iter().enumerate() {
        for m in member_reprs(t) {
            mem_reprs.push(m.print());
            mem_of.push((i, m));
        }
    }
    let mem_types = if mem_reprs.is_empty() { vec![] } else { b.ws.types(&mem_reprs) };

    for (i, t) in tys.iter().enumerate() {
        let fp = fnv(reprs[i].as_bytes());
        let nontrivial = t.nodes() >= 3;
        let (Some(a), Some(a2)) = (&first[i], &second[i]) else {
            ctx.inconclusive("no-semantic-info");
            continue;
        };
        let ca = canon(a, false);
        if ca.malformed() {
            // `table<X>` with one parameter etc.: only a mis-lexed annotation produces it
            ctx.inconclusive("malformed-type-from-annotation");
            continue;
        }
        if ca.has_opaque() {
            ctx.extra_add("types_with_opaque_parts", 1);
        }
        if matches!(ca, Canon::Prim("unknown") | Canon::Prim("any")) && !matches!(t, Ty::Prim(_)) {
            // e.g. `unknown[]` collapses to unknown: the laws still apply, but say little
            ctx.extra_add("degenerate_types", 1);
        }
        if ctx.want_sample() && nontrivial && i % 13 == 5 {
            ctx.sample(json!({"annotation": reprs[i], "real_type": ca.show(), "nodes": t.nodes()}));
        }
        // reflexive-same
        ctx.clause("law:reflexive-same");
        if b.ws.check(a, a) {
            ctx.held(fp ^ 1, nontrivial);
        } else {
            report_type_violation(ctx, &mut b, "reflexive-same", t, None);
        }
        // reflexive-reparsed
        ctx.clause("law:reflexive-reparsed");
        if canon(a2, false) != ca {
            ctx.inconclusive("same-text-different-type");
        } else if b.ws.check(a, a2) {
            ctx.held(fp ^ 2, nontrivial);
        } else {
            report_type_violation(ctx, &mut b, "reflexive-reparsed", t, None);
        }
        // any / unknown
        for (law, top) in [("any", &any_t), ("unknown", &unk_t)] {
            ctx.clause(&format!("law:{law}"));
            match top {
                Some(top) => {
                    if b.ws.check(top, a) {
                        ctx.held(fp ^ fnv(law.as_bytes()), nontrivial);
                    } else {
                        report_type_violation(ctx, &mut b, law, t, None);
                    }
                }
                None => ctx.inconclusive("no-semantic-info"),
            }
        }
        // member-own
        let ms = real_members(a);
        if !ms.is_empty() {
            ctx.clause("law:member-own");
            if ms.iter().all(|m| b.ws.check(a, m)) {
                ctx.held(fp ^ 5, nontrivial);
            } else {
                report_type_violation(ctx, &mut b, "member-own", t, None);
            }
        }
        // diag-reflexive
        ctx.clause("law:diag-reflexive");
        match &diag[i] {
            Verdict::Held => ctx.held(fp ^ 6, nontrivial),
            Verdict::Inconclusive(r) => ctx.inconclusive(r),
            Verdict::Violated(_) => report_type_violation(ctx, &mut b, "diag-reflexive", t, None),
        }
    }
    // member-annotated
    let mut reported: BTreeSet<usize> = BTreeSet::new();
    for (k, (i, m)) in mem_of.iter().enumerate() {
        let (Some(u), Some(mt)) = (&first[*i], mem_types.get(k).and_then(|x| x.as_ref())) else { continue };
        let members: Vec<Canon> = real_members(u).iter().map(|x| canon(x, false)).collect();
        if members.is_empty() {
            continue;
        }
        let cm = canon(mt, false);
        if !cm.members().iter().all(|p| members.contains(p)) {
            ctx.inconclusive("annotated-member-not-in-union");
            continue;
        }
        ctx.clause("law:member-annotated");
        if b.ws.check(u, mt) {
            ctx.held(fnv(format!("{}|{}", reprs[*i], m.print()).as_bytes()), tys[*i].nodes() >= 3);
        } else if reported.insert(*i) {
            report_type_violation(ctx, &mut b, "member-annotated", &tys[*i], Some(m));
        }
    }

    // ── union-batch law ──
    let n_union = (per_batch / 2).max(4);
    for _ in 0..n_union {
        let k = rng.range(1, 5);
        let mut elems: Vec<Elem> = Vec::new();
        for _ in 0..k {
            match rng.below(10) {
                0..=1 => elems.push(Elem::Expr(rng.pick(EXPRS).to_string())),
                2..=3 if !elems.is_empty() => {
                    // a textual duplicate of an earlier element (separately annotated)
                    let e = elems[rng.below(elems.len())].clone();
                    elems.push(e);
                }
                _ => {
                    let d = rng.range(1, depth.min(3));
                    elems.push(Elem::Ann(gen_type(rng, &b.hier, &GenOpts { depth: d, ..opts.clone() })));
                }
            }
        }
        ctx.clause("law:union-batch");
        let flat: Vec<(bool, String)> = elems.iter().map(|e| (matches!(e, Elem::Ann(_)), match e { Elem::Ann(t) => t.print(), Elem::Expr(s) => s.clone() })).collect();
        match eval_union_batch(&mut b.ws, &flat) {
            Verdict::Held => ctx.held(fnv(format!("ub|{:?}", flat).as_bytes()), k >= 2),
            Verdict::Inconclusive(r) => {
                // keep the reason stable: strip the numbers
                let r = r.split('(').next().unwrap_or(&r).to_string();
                ctx.inconclusive(&format!("union-batch:{r}"));
            }
            Verdict::Violated(_) => report_union_violation(ctx, &mut b, &elems),
        }
    }
}

fn flat(elems: &[Elem]) -> Vec<(bool, String)> {
    elems.iter().map(|e| (matches!(e, Elem::Ann(_)), match e { Elem::Ann(t) => t.print(), Elem::Expr(s) => s.clone() })).collect()
}

fn report_union_violation(ctx: &mut Ctx, b: &mut Batch, elems: &[Elem]) {
    let ws = &mut b.ws;
    let mut small = ddmin(elems.to_vec(), |p| matches!(eval_union_batch(ws, &flat(p)), Verdict::Violated(_)), 60);
    // shrink each annotated element over its AST
    for i in 0..small.len() {
        if let Elem::Ann(t) = small[i].clone() {
            let s = shrink(
                &t,
                |c| {
                    let mut v = small.clone();
                    v[i] = Elem::Ann(c.clone());
                    matches!(eval_union_batch(ws, &flat(&v)), Verdict::Violated(_))
                },
                120,
            );
            small[i] = Elem::Ann(s);
        }
    }
    let mut names = BTreeSet::new();
    for e in &small {
        if let Elem::Ann(t) = e {
            t.names(&mut names);
        }
    }
    let defs = b.hier.to_lua(Some(&names));
    let mut fresh = TypeWs::new(&defs);
    match eval_union_batch(&mut fresh, &flat(&small)) {
        Verdict::Violated(detail) => {
            let mut sk: Vec<String> = small.iter().map(|e| e.skel()).collect();
            sk.sort();
            let sig = format!("C16:union-batch:elems=[{}]", sk.join(";"));
            ctx.violated(
                &sig,
                &format!("batch [{}]: {detail}", small.iter().map(|e| e.show()).collect::<Vec<_>>().join(" ; ")),
                json!({"law": "union-batch", "defs": defs, "elems": small.iter().map(|e| e.to_json()).collect::<Vec<_>>(), "sig": sig}),
            );
        }
        _ => ctx.inconclusive("union-batch:not-reproduced-in-fresh-workspace"),
    }
}

fn replay(ctx: &mut Ctx, rep: Value) {
    let law = rep["law"].as_str().unwrap_or("").to_string();
    let defs = rep["defs"].as_str().unwrap_or("").to_string();
    let mut ws = TypeWs::new(&defs);
    let v = if law == "union-batch" {
        let elems: Vec<(bool, String)> = rep["elems"]
            .as_array()
            .cloned()
            .unwrap_or_default()
            .iter()
            .map(|e| match e.get("ann").and_then(|x| x.as_str()) {
                Some(a) => (true, a.to_string()),
                None => (false, e["expr"].as_str().unwrap_or("nil").to_string()),
            })
            .collect();
        println!("replay: law union-batch over {:?}", elems);
        eval_union_batch(&mut ws, &elems)
    } else {
        let types: Vec<String> = rep["types"].as_array().cloned().unwrap_or_default().iter().filter_map(|x| x.as_str().map(|s| s.to_string())).collect();
        println!("replay: law {law} over {:?}\ndefinitions:\n{defs}", types);
        eval_law(&mut ws, &law, &types)
    };
    match v {
        Verdict::Held => {
            println!("replay: held");
            ctx.held(fnv(rep.to_string().as_bytes()), true);
        }
        Verdict::Inconclusive(r) => {
            println!("replay: inconclusive ({r})");
            ctx.inconclusive(&r);
        }
        Verdict::Violated(d) => {
            println!("replay: VIOLATED — expected the law to hold; observed: {d}");
            let sig = rep["sig"].as_str().map(|s| s.to_string()).unwrap_or_else(|| format!("C16:{law}:replay"));
            ctx.violated(&sig, &d, rep);
        }
    }
}

pub fn run(ctx: &mut Ctx) {
    if let Some(rep) = ctx.replay.clone() {
        if let Err(p) = guarded(|| replay(ctx, rep.clone())) {
            println!("replay: PANIC {}", p.sig());
            ctx.violated(&format!("C16:panic:{}", p.sig()), &p.message, rep);
        }
        return;
    }
    let quick = ctx.is_quick();
    let per_batch = 40usize;
    let n = ctx.budget(400, 5000);
    for i in 0..n {
        if ctx.out_of_time() {
            break;
        }
        let mut rng = Rng::new(ctx.case_seed(i));
        let depth = if quick { 4 } else if i % 4 == 0 { 6 } else { 4 };
        let seed = ctx.case_seed(i);
        if let Err(p) = guarded(|| run_batch(ctx, &mut rng, depth, per_batch)) {
            // a panic inside type checking is C12's business; here it only means "no verdict"
            ctx.inconclusive(&format!("panic:{}", p.sig()));
            ctx.extra_set("last_panic_batch_seed", json!(seed));
        }
    }
}
