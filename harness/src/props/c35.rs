//! C35 — `emmylua_doc_cli --output-format json`: complete, nothing from libraries / std, reproducible.
//!
//! A generated workspace is written to disk together with a manifest of what its main root
//! declares (classes — some split over two files —, enums, aliases, globals, modules) and what a
//! library root declares. The shipped binary exports it P times in fresh processes. Clauses:
//! (a) all P outputs are byte-identical; (b) the exported (kind, name) lists equal the manifest
//! of the main root, each item once; (c) nothing of the library root or the std library appears.

use crate::proc::{self, Cmd};
use crate::report::{Ctx, clip};
use crate::rng::{Rng, fnv};
use serde_json::{Value, json};
use std::collections::{BTreeMap, BTreeSet};
use std::path::Path;

#[derive(Clone, Debug, PartialEq)]
struct Item {
    kind: String,   // class | enum | alias | global | module
    name: String,
    flavor: String, // structural variety of the declaration (signature discriminator)
    /// how many times the source declares it in the main root (globals assigned twice, classes split over files)
    sites: u32,
    /// false: the statement does not clearly require it (e.g. a file without `return` as "module")
    required: bool,
}

#[derive(Clone, Debug)]
struct DocWs {
    files: Vec<(String, String)>,
    libs: Vec<String>,
    main: Vec<Item>,
    lib: Vec<Item>,
}

const WORDS: &[&str] = &["Alpha", "Beta", "Gamma", "Delta", "Omega", "Sigma", "Kappa", "Theta", "Lambda", "Zeta", "Eta", "Iota", "Rho", "Tau", "Phi", "Chi"];

struct Gen<'a> {
    rng: &'a mut Rng,
    n: usize,
}

impl Gen<'_> {
    fn name(&mut self, prefix: &str) -> String {
        self.n += 1;
        format!("{prefix}{}{}", self.rng.pick(WORDS), self.n)
    }
}

/// Lua text declaring `item` (a fragment to be placed in some file).
fn decl_text(g: &mut Gen, kind: &str, name: &str, flavor: &str) -> String {
    match (kind, flavor) {
        ("class", "plain") => format!("---@class {name}\n---@field id integer\n---@field label string\nlocal {name} = {{}}\n\n---@param x integer\n---@return integer\nfunction {name}:scale(x) return x * 2 end\n\n"),
        ("class", "doc-only") => format!("---@class {name}\n---@field value number\n\n"),
        ("class", "inherits") => format!("---@class {name}Base\n---@field base boolean\n\n---@class {name}: {name}Base\n---@field extra string\n\n"),
        ("class", "generic") => format!("---@class {name}<T>\n---@field item T\n\n"),
        ("enum", "table") => format!("---@enum {name}\nlocal {name} = {{\n  First = 1,\n  Second = 2,\n  Third = 3,\n}}\n\n"),
        ("enum", "key") => format!("---@enum (key) {name}\nlocal {name} = {{\n  on = true,\n  off = false,\n}}\n\n"),
        ("alias", "union") => format!("---@alias {name} string|integer\n\n"),
        ("alias", "literals") => format!("---@alias {name}\n---| \"left\"\n---| \"right\"\n\n"),
        ("alias", "fun") => format!("---@alias {name} fun(x: integer): string\n\n"),
        ("global", "number") => format!("{name} = {}\n\n", g.rng.below(1000)),
        ("global", "string") => format!("{name} = \"text{}\"\n\n", g.rng.below(100)),
        ("global", "table") => format!("---Documented table\n{name} = {{\n  size = 3,\n  title = \"t\",\n}}\n\n"),
        ("global", "function") => format!("---@param a integer\nfunction {name}(a) return a end\n\n"),
        ("global", "typed") => format!("---@type integer[]\n{name} = {{}}\n\n"),
        ("global", "call-result") => format!("{name} = tostring(12)\n\n"),
        _ => String::new(),
    }
}

fn gen_doc_ws(rng: &mut Rng) -> DocWs {
    let mut g = Gen { rng, n: 0 };
    let with_lib = g.rng.below(3); // 0 none, 1 outside, 2 inside the main root
    let libs: Vec<String> = match with_lib {
        1 => vec!["extlib".into()],
        2 => vec!["ws/vendor".into()],
        _ => vec![],
    };
    let nfiles = g.rng.range(2, 7);
    let dirs = ["", "", "core/", "core/util/", "ui/"];
    let mut texts: Vec<(String, String)> = Vec::new();
    for i in 0..nfiles {
        let d = g.rng.pick(&dirs);
        let fname = if i == 1 && g.rng.bool() { format!("ws/pkg{i}/init.lua") } else { format!("ws/{d}m{i}.lua") };
        texts.push((fname, String::new()));
    }
    let mut main: Vec<Item> = Vec::new();
    let flav = |g: &mut Gen, kind: &str| -> &'static str {
        match kind {
            "class" => g.rng.pick(&["plain", "plain", "doc-only", "inherits", "generic"]),
            "enum" => g.rng.pick(&["table", "key"]),
            "alias" => g.rng.pick(&["union", "literals", "fun"]),
            _ => g.rng.pick(&["number", "string", "table", "function", "typed", "call-result"]),
        }
    };
    let nitems = g.rng.range(4, 14);
    for _ in 0..nitems {
        let kind = g.rng.pick(&["class", "class", "enum", "alias", "global", "global"]);
        let fl = flav(&mut g, kind);
        let name = g.name(match kind {
            "global" => "G",
            "class" => "C",
            "enum" => "E",
            _ => "A",
        });
        let fi = g.rng.below(texts.len());
        let t = decl_text(&mut g, kind, &name, fl);
        texts[fi].1.push_str(&t);
        main.push(Item { kind: kind.into(), name: name.clone(), flavor: fl.into(), sites: 1, required: true });
        if kind == "class" && fl == "inherits" {
            main.push(Item { kind: "class".into(), name: format!("{name}Base"), flavor: "doc-only".into(), sites: 1, required: true });
        }
    }
    // a class split across two files with (partial)
    if texts.len() >= 2 && g.rng.chance(2, 3) {
        let name = g.name("CSplit");
        let a = g.rng.below(texts.len());
        let b = (a + 1 + g.rng.below(texts.len() - 1)) % texts.len();
        texts[a].1.push_str(&format!("---@class (partial) {name}\n---@field first integer\n\n"));
        texts[b].1.push_str(&format!("---@class (partial) {name}\n---@field second string\n\n"));
        main.push(Item { kind: "class".into(), name, flavor: "partial-two-files".into(), sites: 2, required: true });
    }
    // a global assigned in two files
    if texts.len() >= 2 && g.rng.chance(1, 3) {
        let name = g.name("GTwice");
        let a = g.rng.below(texts.len());
        let b = (a + 1 + g.rng.below(texts.len() - 1)) % texts.len();
        texts[a].1.push_str(&format!("{name} = 1\n\n"));
        texts[b].1.push_str(&format!("{name} = 2\n\n"));
        main.push(Item { kind: "global".into(), name, flavor: "assigned-in-two-files".into(), sites: 2, required: true });
    }
    // module endings
    for (path, text) in texts.iter_mut() {
        let rel = path.strip_prefix("ws/").unwrap();
        let stem = rel.strip_suffix("/init.lua").or_else(|| rel.strip_suffix(".lua")).unwrap();
        let modname = stem.replace('/', ".");
        let (flavor, required) = match g.rng.below(6) {
            0 => {
                ("no-return", false)
            }
            1 => {
                text.push_str("return { version = 1, tag = \"x\" }\n");
                ("returns-table-literal", true)
            }
            2 => {
                text.push_str("return function(a) return a end\n");
                ("returns-function", true)
            }
            3 => {
                text.push_str("return 42\n");
                ("returns-number", true)
            }
            _ => {
                text.push_str("local M = {}\n\n---Does things\n---@param n integer\n---@return integer\nfunction M.run(n) return n end\n\nM.level = 3\n\nreturn M\n");
                ("returns-local-table", true)
            }
        };
        if text.is_empty() {
            text.push_str("-- empty module\n");
        }
        main.push(Item { kind: "module".into(), name: modname, flavor: flavor.into(), sites: 1, required });
    }
    // library root: same kinds, different names; plus one class that main extends with a partial declaration
    let mut lib: Vec<Item> = Vec::new();
    let mut files = texts;
    for l in &libs {
        let mut t = String::new();
        for _ in 0..g.rng.range(2, 5) {
            let kind = g.rng.pick(&["class", "enum", "alias", "global"]);
            let fl = flav(&mut g, kind);
            let name = g.name("Lib");
            t.push_str(&decl_text(&mut g, kind, &name, fl));
            lib.push(Item { kind: kind.into(), name: name.clone(), flavor: fl.into(), sites: 1, required: true });
            if kind == "class" && fl == "inherits" {
                lib.push(Item { kind: "class".into(), name: format!("{name}Base"), flavor: "doc-only".into(), sites: 1, required: true });
            }
        }
        // a class the library declares and the main workspace extends: declared in main => exported
        if g.rng.chance(2, 3) {
            let name = g.name("CShared");
            t.push_str(&format!("---@class (partial) {name}\n---@field from_library integer\n\n"));
            let mi = g.rng.below(files.iter().filter(|f| f.0.starts_with("ws/")).count());
            files[mi].1.push_str(&format!("\n---@class (partial) {name}\n---@field from_main string\n"));
            main.push(Item { kind: "class".into(), name, flavor: "partial-library-and-main".into(), sites: 1, required: true });
        }
        t.push_str("local L = {}\nfunction L.helper() end\nreturn L\n");
        files.push((format!("{l}/libmod.lua"), t));
        lib.push(Item { kind: "module".into(), name: "libmod".into(), flavor: "returns-local-table".into(), sites: 1, required: true });
    }
    DocWs { files, libs, main, lib }
}

impl DocWs {
    fn to_json(&self) -> Value {
        let items = |v: &Vec<Item>| v.iter().map(|i| json!({"kind": i.kind, "name": i.name, "flavor": i.flavor, "sites": i.sites, "required": i.required})).collect::<Vec<_>>();
        json!({"files": self.files.iter().map(|(p, c)| json!({"path": p, "content": c})).collect::<Vec<_>>(), "libs": self.libs, "main": items(&self.main), "lib": items(&self.lib)})
    }
    fn from_json(v: &Value) -> Option<DocWs> {
        let items = |x: &Value| -> Option<Vec<Item>> {
            Some(x.as_array()?.iter().filter_map(|i| Some(Item { kind: i["kind"].as_str()?.into(), name: i["name"].as_str()?.into(), flavor: i["flavor"].as_str()?.into(), sites: i["sites"].as_u64()? as u32, required: i["required"].as_bool()? })).collect())
        };
        Some(DocWs {
            files: v["files"].as_array()?.iter().filter_map(|f| Some((f["path"].as_str()?.to_string(), f["content"].as_str()?.to_string()))).collect(),
            libs: v["libs"].as_array()?.iter().filter_map(|s| s.as_str().map(|s| s.to_string())).collect(),
            main: items(&v["main"])?,
            lib: items(&v["lib"])?,
        })
    }
    fn materialize(&self, scratch: &Path) -> Result<(), String> {
        for d in ["ws", "extlib"] {
            let _ = std::fs::remove_dir_all(scratch.join(d));
        }
        std::fs::create_dir_all(scratch.join("ws")).map_err(|e| e.to_string())?;
        let mut all: Vec<(String, String)> = self.files.clone();
        let mut rc = json!({});
        if !self.libs.is_empty() {
            let libs: Vec<String> = self.libs.iter().map(|l| scratch.join(l).to_string_lossy().to_string()).collect();
            rc["workspace"] = json!({"library": libs});
        }
        // two severity overrides: the exported `config` section then contains a map with several keys
        rc["diagnostics"] = json!({"severity": {"unused": "warning", "undefined-global": "hint", "deprecated": "error", "syntax-error": "error"}, "globals": ["vim", "love", "jit"]});
        all.push(("ws/.emmyrc.json".into(), serde_json::to_string_pretty(&rc).unwrap()));
        for (rel, data) in all {
            let p = scratch.join(&rel);
            if let Some(parent) = p.parent() {
                std::fs::create_dir_all(parent).map_err(|e| e.to_string())?;
            }
            std::fs::write(&p, data).map_err(|e| e.to_string())?;
        }
        Ok(())
    }
    /// without the files in `drop` (and the manifest entries that only they declare)
    fn fp(&self) -> u64 {
        fnv(self.to_json().to_string().as_bytes())
    }
}

fn export_once(bin: &Path, scratch: &Path, to_file: bool) -> Result<(Vec<u8>, String), String> {
    let home = proc::fresh_home(&scratch.join("home"));
    let out_dir = scratch.join("out");
    let _ = std::fs::remove_dir_all(&out_dir);
    let mut c = Cmd::new(bin, &home).cwd(scratch).arg("--output-format").arg("json");
    if to_file {
        c = c.arg("--output").arg(out_dir.join("doc.json").to_string_lossy().to_string());
    } else {
        c = c.arg("--output").arg("stdout");
    }
    c = c.arg(scratch.join("ws").to_string_lossy().to_string());
    c.wall_limit_secs = 300.0;
    let o = proc::run(&c)?;
    if o.watchdog {
        return Err("watchdog".into());
    }
    if o.code != Some(0) {
        return Err(format!("doc-cli-failed:{}", o.status_str()));
    }
    let status = o.status_str();
    let mut bytes = if to_file { std::fs::read(out_dir.join("doc.json")).map_err(|e| format!("no-output-file:{e}"))? } else { o.stdout };
    // the stdout destination prints the document with `println!`, the file destination writes it
    // as is: the line terminator of the stdout form is not part of the document
    if !to_file && bytes.last() == Some(&b'\n') {
        bytes.pop();
    }
    Ok((bytes, status))
}

// ------------------------------------------------------------------------------------------------
// clause (a): byte identity, with a structural description of the difference

const SECTIONS: &[&str] = &["modules", "types", "globals", "config"];

/// Raw text of each top-level section of the pretty-printed document.
fn raw_sections(text: &str) -> BTreeMap<String, String> {
    let mut marks: Vec<(usize, &str)> = Vec::new();
    for s in SECTIONS {
        if let Some(p) = text.find(&format!("\n  \"{s}\":")) {
            marks.push((p, s));
        }
    }
    marks.sort();
    let mut out = BTreeMap::new();
    for (i, (p, s)) in marks.iter().enumerate() {
        let end = marks.get(i + 1).map(|m| m.0).unwrap_or(text.len());
        out.insert(s.to_string(), text[*p..end].to_string());
    }
    out
}

fn canon(v: &Value) -> String {
    // canonical text with sorted object keys
    match v {
        Value::Object(m) => {
            let mut keys: Vec<&String> = m.keys().collect();
            keys.sort();
            format!("{{{}}}", keys.iter().map(|k| format!("{k:?}:{}", canon(&m[*k]))).collect::<Vec<_>>().join(","))
        }
        Value::Array(a) => format!("[{}]", a.iter().map(canon).collect::<Vec<_>>().join(",")),
        other => other.to_string(),
    }
}

/// Where two parsed values differ, described without indices or names.
fn describe_diff(a: &Value, b: &Value, path: &str) -> String {
    if canon(a) == canon(b) {
        return format!("object-key-order@{path}");
    }
    match (a, b) {
        (Value::Array(x), Value::Array(y)) => {
            let mut cx: Vec<String> = x.iter().map(canon).collect();
            let mut cy: Vec<String> = y.iter().map(canon).collect();
            let same_seq = cx == cy;
            cx.sort();
            cy.sort();
            if !same_seq && cx == cy {
                return format!("list-order@{path}");
            }
            // pair elements by "name" (or position) and descend into the first differing pair
            let key = |v: &Value| v.get("name").and_then(|n| n.as_str()).map(|s| format!("{}:{s}", v.get("type").and_then(|t| t.as_str()).unwrap_or("")));
            let mut by_name: BTreeMap<String, Vec<&Value>> = BTreeMap::new();
            for e in y {
                if let Some(k) = key(e) {
                    by_name.entry(k).or_default().push(e);
                }
            }
            for e in x {
                if let Some(k) = key(e) {
                    if let Some(cands) = by_name.get(&k) {
                        if cands.len() == 1 && canon(e) != canon(cands[0]) {
                            return describe_diff(e, cands[0], &format!("{path}[]"));
                        }
                    }
                }
            }
            format!("content@{path}")
        }
        (Value::Object(x), Value::Object(y)) => {
            let kx: BTreeSet<&String> = x.keys().collect();
            let ky: BTreeSet<&String> = y.keys().collect();
            if kx != ky {
                return format!("keys@{path}");
            }
            for k in kx {
                if canon(&x[k]) != canon(&y[k]) {
                    return describe_diff(&x[k], &y[k], &format!("{path}.{k}"));
                }
            }
            // values equal up to key order
            for k in x.keys() {
                if x[k].to_string() != y[k].to_string() {
                    return describe_diff(&x[k], &y[k], &format!("{path}.{k}"));
                }
            }
            format!("object-key-order@{path}")
        }
        _ => format!("content@{path}"),
    }
}

/// One finding per section whose raw text differs between two outputs.
fn byte_diff_findings(a: &[u8], b: &[u8]) -> Vec<(String, String)> {
    let (ta, tb) = (String::from_utf8_lossy(a).to_string(), String::from_utf8_lossy(b).to_string());
    let (sa, sb) = (raw_sections(&ta), raw_sections(&tb));
    let (va, vb): (Option<Value>, Option<Value>) = (serde_json::from_str(&ta).ok(), serde_json::from_str(&tb).ok());
    let mut out = Vec::new();
    for s in SECTIONS {
        let (ra, rb) = (sa.get(*s), sb.get(*s));
        if ra == rb {
            continue;
        }
        let how = match (&va, &vb) {
            (Some(x), Some(y)) => describe_diff(&x[*s], &y[*s], s),
            _ => "unparsable".to_string(),
        };
        let first = ra.and_then(|ra| rb.map(|rb| (ra, rb))).map(|(ra, rb)| {
            let p = ra.bytes().zip(rb.bytes()).position(|(x, y)| x != y).unwrap_or(ra.len().min(rb.len()));
            let mut s0 = p.saturating_sub(60);
            while !ra.is_char_boundary(s0) {
                s0 -= 1;
            }
            format!("run A …{:?}… vs run B …{:?}…", clip(&ra[s0..], 140), clip(rb.get(s0..).unwrap_or(""), 140))
        });
        out.push((format!("bytes-differ:section={s}:{how}"), first.unwrap_or_default()));
    }
    if out.is_empty() && a != b {
        out.push(("bytes-differ:section=other".into(), format!("lengths {} vs {}", a.len(), b.len())));
    }
    out
}

// ------------------------------------------------------------------------------------------------
// clauses (b), (c): completeness against the manifest

fn exported_items(doc: &Value) -> Result<Vec<(String, String)>, String> {
    let mut v = Vec::new();
    for t in doc["types"].as_array().ok_or("no-types-array")? {
        let kind = t["type"].as_str().ok_or("type-without-tag")?;
        v.push((kind.to_string(), t["name"].as_str().ok_or("type-without-name")?.to_string()));
    }
    for g in doc["globals"].as_array().ok_or("no-globals-array")? {
        v.push(("global".to_string(), g["name"].as_str().ok_or("global-without-name")?.to_string()));
    }
    for m in doc["modules"].as_array().ok_or("no-modules-array")? {
        v.push(("module".to_string(), m["name"].as_str().ok_or("module-without-name")?.to_string()));
    }
    Ok(v)
}

fn completeness_findings(ws: &DocWs, bytes: &[u8]) -> Vec<(String, String)> {
    let mut out = Vec::new();
    let doc: Value = match serde_json::from_slice(bytes) {
        Ok(d) => d,
        Err(e) => return vec![("malformed:not-json".into(), format!("{e}; output starts {:?}", clip(&String::from_utf8_lossy(bytes), 200)))],
    };
    let items = match exported_items(&doc) {
        Ok(i) => i,
        Err(e) => return vec![(format!("malformed:{e}"), String::new())],
    };
    let mut count: BTreeMap<(String, String), u32> = BTreeMap::new();
    for it in &items {
        *count.entry(it.clone()).or_insert(0) += 1;
    }
    for m in &ws.main {
        let c = count.get(&(m.kind.clone(), m.name.clone())).copied().unwrap_or(0);
        if c == 0 && m.required {
            out.push((format!("missing:kind={}:flavor={}", m.kind, m.flavor), format!("{} `{}` is declared in the main workspace but not exported", m.kind, m.name)));
        } else if c > 1 {
            out.push((format!("duplicated:kind={}:flavor={}", m.kind, m.flavor), format!("{} `{}` is exported {c} times (declared at {} site(s) in the main workspace)", m.kind, m.name, m.sites)));
        }
    }
    for ((kind, name), c) in &count {
        if ws.main.iter().any(|m| &m.kind == kind && &m.name == name) {
            continue;
        }
        let origin = if ws.lib.iter().any(|l| &l.kind == kind && &l.name == name) { "library" } else { "std-or-unknown" };
        out.push((format!("foreign:kind={kind}:origin={origin}"), format!("{kind} `{name}` exported {c}x but the main workspace does not declare it")));
    }
    out
}

struct Eval {
    findings: Vec<(String, String)>,
    outputs: usize,
    bytes: usize,
    items: usize,
}

fn eval(bin: &Path, ws: &DocWs, scratch: &Path, p: usize) -> Result<Eval, String> {
    ws.materialize(scratch)?;
    let mut outs: Vec<Vec<u8>> = Vec::new();
    for i in 0..p {
        let (b, _) = export_once(bin, scratch, i % 3 == 2)?;
        outs.push(b);
    }
    let mut findings = Vec::new();
    for o in &outs[1..] {
        if o != &outs[0] {
            for f in byte_diff_findings(&outs[0], o) {
                if !findings.iter().any(|g: &(String, String)| g.0 == f.0) {
                    findings.push(f);
                }
            }
        }
    }
    // completeness is judged on every output (the lists may differ between runs)
    for o in &outs {
        for f in completeness_findings(ws, o) {
            if !findings.iter().any(|g: &(String, String)| g.0 == f.0) {
                findings.push(f);
            }
        }
    }
    let items = serde_json::from_slice::<Value>(&outs[0]).ok().and_then(|d| exported_items(&d).ok()).map(|v| v.len()).unwrap_or(0);
    Ok(Eval { findings, outputs: outs.len(), bytes: outs[0].len(), items })
}

/// Remove files (with the manifest entries they carry) while the finding persists.
fn shrink(bin: &Path, ws: &DocWs, scratch: &Path, sig: &str, p: usize, budget: usize) -> DocWs {
    let rebuild = |files: &[(String, String)]| -> DocWs {
        let all: String = files.iter().filter(|(p, _)| p.starts_with("ws/") && !ws.libs.iter().any(|l| p.starts_with(&format!("{l}/")))).map(|f| f.1.as_str()).collect::<Vec<_>>().join("\n");
        let libtext: String = files.iter().filter(|(p, _)| ws.libs.iter().any(|l| p.starts_with(&format!("{l}/")))).map(|f| f.1.as_str()).collect::<Vec<_>>().join("\n");
        let has = |text: &str, i: &Item| -> u32 {
            match i.kind.as_str() {
                "module" => 0,
                "global" => (text.matches(&format!("\n{} = ", i.name)).count() + text.matches(&format!("function {}(", i.name)).count() + if text.starts_with(&format!("{} = ", i.name)) { 1 } else { 0 }) as u32,
                "class" => (text.matches(&format!("@class {}\n", i.name)).count() + text.matches(&format!("@class {}:", i.name)).count() + text.matches(&format!("@class {}<", i.name)).count() + text.matches(&format!("@class (partial) {}\n", i.name)).count()) as u32,
                "enum" => (text.matches(&format!("@enum {}\n", i.name)).count() + text.matches(&format!("@enum (key) {}\n", i.name)).count()) as u32,
                _ => (text.matches(&format!("@alias {} ", i.name)).count() + text.matches(&format!("@alias {}\n", i.name)).count()) as u32,
            }
        };
        let mut main: Vec<Item> = Vec::new();
        for i in &ws.main {
            if i.kind == "module" {
                let file_a = format!("ws/{}.lua", i.name.replace('.', "/"));
                let file_b = format!("ws/{}/init.lua", i.name.replace('.', "/"));
                if files.iter().any(|(p, _)| *p == file_a || *p == file_b) {
                    main.push(i.clone());
                }
            } else {
                let n = has(&all, i);
                if n > 0 {
                    main.push(Item { sites: n, ..i.clone() });
                }
            }
        }
        let lib: Vec<Item> = ws.lib.iter().filter(|i| i.kind == "module" && files.iter().any(|(p, _)| p.ends_with("/libmod.lua")) || i.kind != "module" && has(&libtext, i) > 0).cloned().collect();
        DocWs { files: files.to_vec(), libs: ws.libs.clone(), main, lib }
    };
    let files = crate::util::ddmin(
        ws.files.clone(),
        |fs| {
            if !fs.iter().any(|(p, _)| p.starts_with("ws/")) {
                return false;
            }
            let cand = rebuild(fs);
            matches!(eval(bin, &cand, scratch, p), Ok(e) if e.findings.iter().any(|f| f.0 == sig))
        },
        budget,
    );
    rebuild(&files)
}

pub fn run(ctx: &mut Ctx) {
    let bin = match proc::repo_bin(&ctx.work, "emmylua_doc_cli") {
        Ok(b) => b,
        Err(e) => {
            ctx.inconclusive(&e);
            return;
        }
    };
    let scratch = proc::scratch_dir(&ctx.work, "c35", ctx.shard);
    let scratch = scratch.canonicalize().unwrap_or(scratch);
    if let Some(rep) = ctx.replay.clone() {
        match DocWs::from_json(&rep["ws"]) {
            Some(ws) => {
                let p = rep["p"].as_u64().unwrap_or(8) as usize;
                println!("replay: {} files, {} manifest items, {} fresh exports", ws.files.len(), ws.main.len(), p.max(8));
                println!("expected: byte-identical outputs listing exactly the main-workspace items of the manifest");
                match eval(&bin, &ws, &scratch, p.max(8)) {
                    Ok(e) if e.findings.is_empty() => {
                        println!("observed: {} identical outputs of {} bytes, {} items, manifest satisfied", e.outputs, e.bytes, e.items);
                        ctx.held(ws.fp(), true);
                    }
                    Ok(e) => {
                        for (sig, d) in &e.findings {
                            println!("observed: VIOLATED {sig}: {d}");
                            ctx.violated(&format!("C35:{sig}"), d, rep.clone());
                        }
                    }
                    Err(r) => {
                        println!("replay: inconclusive ({r})");
                        ctx.inconclusive(&r);
                    }
                }
            }
            None => ctx.inconclusive("replay-malformed"),
        }
        let _ = std::fs::remove_dir_all(&scratch);
        return;
    }
    let n = ctx.budget(2, 40);
    let p = if ctx.is_quick() { 6 } else { 12 };
    let mut shrunk: BTreeSet<String> = BTreeSet::new();
    for i in 0..n {
        if ctx.out_of_time() {
            break;
        }
        let mut rng = Rng::new(ctx.case_seed(i));
        let ws = gen_doc_ws(&mut rng);
        match eval(&bin, &ws, &scratch, p) {
            Err(r) => ctx.inconclusive(&r),
            Ok(e) => {
                ctx.clause("a:byte-identity");
                ctx.clause("b:manifest-complete");
                if !ws.lib.is_empty() {
                    ctx.clause("c:library-excluded");
                }
                ctx.clause("c:std-excluded");
                ctx.extra_add("exports_run", e.outputs as u64);
                ctx.extra_add("manifest_items", ws.main.len() as u64);
                let nontrivial = ws.main.iter().filter(|m| m.kind != "module").count() >= 3 && ws.main.iter().filter(|m| m.kind == "module" && m.required).count() >= 2;
                if e.findings.is_empty() {
                    ctx.held(ws.fp(), nontrivial);
                    if ctx.want_sample() && ctx.samples.len() < 3 {
                        ctx.sample(json!({"files": ws.files.iter().map(|f| f.0.clone()).collect::<Vec<_>>(), "main_items": ws.main.iter().map(|m| format!("{} {} ({})", m.kind, m.name, m.flavor)).collect::<Vec<_>>(), "library_items": ws.lib.len(), "outputs": e.outputs, "bytes": e.bytes}));
                    }
                    continue;
                }
                ctx.evaluations += 1;
                for (sig, detail) in &e.findings {
                    let full = format!("C35:{sig}");
                    if shrunk.contains(&full) {
                        *ctx.sig_counts.entry(full).or_insert(0) += 1;
                        continue;
                    }
                    shrunk.insert(full.clone());
                    let is_bytes = sig.starts_with("bytes-differ");
                    // byte differences: the signature is structural already and every shrinking test costs
                    // several fresh processes, so only the thorough tier minimises those witnesses
                    let (small, detail2) = if is_bytes && ctx.is_quick() {
                        (ws.clone(), detail.clone())
                    } else {
                        let pp = if is_bytes { 6 } else { 1 };
                        let small = shrink(&bin, &ws, &scratch, sig, pp, if is_bytes { 6 } else { 8 });
                        let d = match eval(&bin, &small, &scratch, pp) {
                            Ok(e2) => e2.findings.into_iter().find(|f| &f.0 == sig).map(|f| f.1).unwrap_or_else(|| detail.clone()),
                            Err(_) => detail.clone(),
                        };
                        (small, d)
                    };
                    ctx.add_violation(&full, &format!("{detail2} (witness: {} files, {} manifest items; found with {} files, {} fresh processes)", small.files.len(), small.main.len(), ws.files.len(), p), json!({"ws": small.to_json(), "p": p}));
                }
            }
        }
    }
    let _ = std::fs::remove_dir_all(&scratch);
}
