//! C15 — flow-narrowed types always contain the runtime value's type.
//!
//! G-flow program with probes → executed in luars (`__probe(k, x)` records `type(x)`) →
//! `SemanticModel::infer_expr` of the probe argument → coarse, conservative concretisation γ →
//! every *reached* probe must satisfy runtime type ∈ γ(inferred). `never` ↦ ∅, anything
//! unrecognised ↦ ⊤. This file also hosts the analysis glue shared with C41.

use crate::gens::flow::{self, K, Printed, Program, Stmt};
use crate::luavm::{self, Outcome};
use crate::report::{Ctx, clip};
use crate::rng::{Rng, fnv};
use crate::util::guarded;
use emmylua_code_analysis::{LuaType, RenderLevel, VirtualWorkspace, humanize_type};
use emmylua_parser::{LuaAstNode, LuaExpr, LuaTokenKind};
use rowan::TextSize;
use serde_json::{Value, json};
use std::collections::{BTreeMap, BTreeSet};

// ───────────────────────────── γ ─────────────────────────────

pub const T_NIL: u16 = 1;
pub const T_BOOLEAN: u16 = 2;
pub const T_NUMBER: u16 = 4;
pub const T_STRING: u16 = 8;
pub const T_TABLE: u16 = 16;
pub const T_FUNCTION: u16 = 32;
pub const T_TOP: u16 = 0xffff;

pub fn type_bit(name: &str) -> u16 {
    match name {
        "nil" => T_NIL,
        "boolean" => T_BOOLEAN,
        "number" => T_NUMBER,
        "string" => T_STRING,
        "table" => T_TABLE,
        "function" => T_FUNCTION,
        _ => 0x4000,
    }
}

/// Conservative concretisation: the set of Lua runtime types a value of this static type may
/// have. Unknown variants map to ⊤ so that they can never cause an alarm.
pub fn gamma(t: &LuaType) -> u16 {
    match t {
        LuaType::Never => 0,
        LuaType::Nil => T_NIL,
        LuaType::Boolean | LuaType::BooleanConst(_) | LuaType::DocBooleanConst(_) => T_BOOLEAN,
        LuaType::Integer | LuaType::Number | LuaType::IntegerConst(_) | LuaType::FloatConst(_) | LuaType::DocIntegerConst(_) => T_NUMBER,
        LuaType::String | LuaType::StringConst(_) | LuaType::DocStringConst(_) => T_STRING,
        LuaType::Table | LuaType::TableConst(_) | LuaType::Array(_) | LuaType::Tuple(_) | LuaType::Object(_) | LuaType::TableGeneric(_) => T_TABLE,
        LuaType::Function | LuaType::DocFunction(_) | LuaType::Signature(_) => T_FUNCTION,
        LuaType::Union(u) => u.into_vec().iter().fold(0, |acc, x| acc | gamma(x)),
        _ => T_TOP,
    }
}

pub fn gamma_text(g: u16) -> String {
    if g == T_TOP {
        return "⊤".into();
    }
    if g == 0 {
        return "∅".into();
    }
    let mut v = Vec::new();
    for (b, n) in [(T_NIL, "nil"), (T_BOOLEAN, "boolean"), (T_NUMBER, "number"), (T_STRING, "string"), (T_TABLE, "table"), (T_FUNCTION, "function")] {
        if g & b != 0 {
            v.push(n);
        }
    }
    format!("{{{}}}", v.join(","))
}

// ───────────────────────────── analysis glue ─────────────────────────────

#[derive(Clone, Debug)]
pub struct Inferred {
    /// None = infer_expr returned an error (not judged)
    pub gamma: Option<u16>,
    pub text: String,
}

#[derive(Clone, Debug)]
pub struct Diag {
    pub code: String,
    pub line: u32,
    pub col_start: u32,
    pub col_end: u32,
    pub message: String,
}

/// One analysis instance with the std library loaded, reused across cases (the case file is
/// replaced each time; generated programs define no globals).
pub struct Analyzer {
    ws: VirtualWorkspace,
}

impl Analyzer {
    pub fn new() -> Result<Self, String> {
        guarded(|| Analyzer { ws: VirtualWorkspace::new_with_init_std_lib() }).map_err(|p| format!("panic:{}", p.sig()))
    }

    /// infer_expr of the name expression at each offset + diagnostics (when `want_diags`).
    pub fn analyse(&mut self, text: &str, offsets: &[usize], want_diags: bool) -> Result<(Vec<Inferred>, Vec<Diag>), String> {
        let ws = &mut self.ws;
        let r = guarded(|| -> Result<(Vec<Inferred>, Vec<Diag>), String> {
            let file_id = ws.def_file("flow_case.lua", text);
            let model = ws.analysis.compilation.get_semantic_model(file_id).ok_or("no semantic model")?;
            if let Some(errs) = model.get_file_parse_error() {
                if !errs.is_empty() {
                    return Err(format!("parse-error:{}", errs.len()));
                }
            }
            let root = model.get_root().syntax().clone();
            let db = model.get_db();
            let mut out = Vec::with_capacity(offsets.len());
            for &off in offsets {
                let tok = root.token_at_offset(TextSize::new(off as u32)).right_biased().ok_or(format!("no token at {off}"))?;
                if usize::from(tok.text_range().start()) != off || tok.kind() != LuaTokenKind::TkName.into() {
                    return Err(format!("token at {off} is {:?}", tok.kind()));
                }
                let expr = tok.parent().and_then(LuaExpr::cast).ok_or(format!("no name expr at {off}"))?;
                out.push(match model.infer_expr(expr) {
                    Ok(t) => Inferred { gamma: Some(gamma(&t)), text: humanize_type(db, &t, RenderLevel::Detailed) },
                    Err(e) => Inferred { gamma: None, text: format!("infer-error:{e:?}") },
                });
            }
            drop(model);
            let mut diags = Vec::new();
            if want_diags {
                if let Some(ds) = ws.analysis.diagnose_file(file_id, tokio_util::sync::CancellationToken::new()) {
                    for d in ds {
                        let code = match &d.code {
                            Some(lsp_types::NumberOrString::String(s)) => s.clone(),
                            Some(lsp_types::NumberOrString::Number(n)) => n.to_string(),
                            None => String::new(),
                        };
                        diags.push(Diag { code, line: d.range.start.line, col_start: d.range.start.character, col_end: if d.range.end.line == d.range.start.line { d.range.end.character } else { u32::MAX }, message: d.message.clone() });
                    }
                }
            }
            Ok((out, diags))
        });
        match r {
            Ok(x) => x,
            Err(p) => Err(format!("panic:{}", p.sig())),
        }
    }
}

// ───────────────────────────── judging one program ─────────────────────────────

#[derive(Clone, Debug)]
pub struct ProbeFailure {
    pub k: u32,
    pub var: u8,
    pub runtime: &'static str,
    pub inferred: String,
    pub never: bool,
    pub path: Vec<String>,
    pub loop_depth: u32,
    pub after_loops: Vec<&'static str>,
}

#[derive(Clone, Debug)]
pub struct DiagFailure {
    pub k: u32,
    pub var: u8,
    pub code: String,
    pub message: String,
    pub runtime: &'static str,
    pub loop_kind: &'static str,
}

#[derive(Clone, Debug, Default)]
pub struct Judged {
    pub probes: usize,
    pub reached: usize,
    pub judged: usize,
    pub infer_errors: usize,
    pub top: usize,
    pub failures: Vec<ProbeFailure>,
    pub diag_failures: Vec<DiagFailure>,
    pub uses_judged: usize,
    pub runtime_by_probe: BTreeMap<u32, BTreeSet<&'static str>>,
}

pub const STEPS: u64 = 100_000;

/// Execute + analyse + compare. Err(reason) = inconclusive for this program.
pub fn judge_text(an: &mut Analyzer, pr: &Printed, want_diags: bool) -> Result<Judged, String> {
    let run = luavm::run_probed(&pr.text, STEPS);
    match &run.outcome {
        Outcome::Finished => {}
        Outcome::CompileError(m) => return Err(format!("gen-invalid: {}", clip(m, 100))),
        Outcome::RuntimeError(m) => return Err(format!("runtime-error: {}", clip(m, 100))),
        Outcome::StepLimit => return Err("step-limit".into()),
    }
    let mut rt: BTreeMap<u32, BTreeSet<&'static str>> = BTreeMap::new();
    for ev in &run.events {
        rt.entry(ev.k as u32).or_default().insert(ev.ty);
    }
    let offsets: Vec<usize> = pr.probes.iter().map(|p| p.offset).collect();
    let (inf, diags) = an.analyse(&pr.text, &offsets, want_diags)?;
    let mut j = Judged { probes: pr.probes.len(), ..Default::default() };
    for (i, site) in pr.probes.iter().enumerate() {
        let Some(types) = rt.get(&site.k) else { continue };
        j.reached += 1;
        let Some(g) = inf[i].gamma else {
            j.infer_errors += 1;
            continue;
        };
        if g == T_TOP {
            j.top += 1;
        }
        j.judged += 1;
        for ty in types {
            if g & type_bit(ty) == 0 {
                j.failures.push(ProbeFailure {
                    k: site.k,
                    var: site.var,
                    runtime: ty,
                    inferred: inf[i].text.clone(),
                    never: g == 0,
                    path: site.path.clone(),
                    loop_depth: site.loop_depth,
                    after_loops: site.after_loops.clone(),
                });
                break;
            }
        }
    }
    if want_diags {
        for u in &pr.uses {
            if !u.guaranteed {
                continue;
            }
            let Some(types) = rt.get(&u.k) else { continue };
            // the execution must confirm what the exit condition promises
            if types.contains("nil") {
                return Err("template-broken: guaranteed use saw nil".into());
            }
            j.uses_judged += 1;
            for d in &diags {
                // the statement promises no *nil* or *never-typed* diagnostic for the variable:
                // need-check-nil whose range is exactly the variable token, or a call-non-callable
                // that talks about `never` (other union members, e.g. `true` from the widening of
                // a `false` initialiser, are imprecision, not this property)
                let about_var = d.col_start == u.col && d.col_end == u.col + 1;
                let relevant = (d.code == "need-check-nil" && about_var) || (d.code == "call-non-callable" && d.message.contains("`never`"));
                if d.line == u.line && relevant {
                    j.diag_failures.push(DiagFailure { k: u.k, var: u.var, code: d.code.clone(), message: d.message.clone(), runtime: types.iter().next().copied().unwrap_or("?"), loop_kind: u.loop_kind });
                }
            }
        }
    }
    j.runtime_by_probe = rt;
    Ok(j)
}

// ───────────────────────────── C15 specifics ─────────────────────────────

fn has_reassign_in_branch(b: &[Stmt], depth: u32) -> bool {
    b.iter().any(|s| match &s.kind {
        K::Assign { .. } => depth > 0,
        K::If { arms, els } => arms.iter().any(|(_, b)| has_reassign_in_branch(b, depth + 1)) || els.as_ref().is_some_and(|b| has_reassign_in_branch(b, depth + 1)),
        K::Do(b) => has_reassign_in_branch(b, depth),
        _ => false,
    })
}

fn has_kind(b: &[Stmt], f: &dyn Fn(&K) -> bool) -> bool {
    b.iter().any(|s| {
        f(&s.kind)
            || match &s.kind {
                K::If { arms, els } => arms.iter().any(|(_, b)| has_kind(b, f)) || els.as_ref().is_some_and(|b| has_kind(b, f)),
                K::Do(b) => has_kind(b, f),
                K::While { body, .. } | K::Repeat { body, .. } | K::NumFor { body, .. } | K::GenFor { body, .. } => has_kind(body, f),
                _ => false,
            }
    })
}

/// Signature of a (shrunk) failing program — structural only (no names, literals, type names).
/// The shrinker actively tries to remove every "special" construct (it inlines condition
/// aliases, gives under-initialised locals an explicit `nil`, drops empty `else` branches), so
/// what is still present in the witness is essential to the failure:
///  * `witness-needs`: subset of {`empty-else` (an `if … else end` with an empty else block),
///    `uninitialised-local` (`local x` / `local x, y = v`), `alias` (`local c = <guard>`)};
///  * `at`: `branch` (probe inside a guard that mentions the variable), `after-merge` (probe
///    follows an `if` whose branches assign the variable), `plain` otherwise;
///  * `inferred`: `never` or `narrower`.
pub fn signature_c15(p: &Program, f: &ProbeFailure) -> String {
    let (needs, at, shapes) = witness_features(p, f);
    // for a probe inside a guard: the innermost guard shape that mentions the variable
    // (only when the witness needs none of the special constructs: with them, the construct —
    // not the guard — is what characterises the failure, and e.g. an `any`-typed variable breaks
    // under every guard shape)
    let at = if at == "branch" && needs.is_empty() { format!("branch({})", shapes.last().cloned().unwrap_or_default()) } else { at.to_string() };
    let inferred = if f.never { "never" } else { "narrower" };
    if needs.is_empty() {
        // the excluded runtime type is causal here (the open finding of this family loses nil / false)
        let cls = if f.never { "never".to_string() } else { inferred_class(&f.inferred) };
        format!("C15:runtime-type-excluded:witness-needs=[]:runtime={}:at={at}:inferred={cls}", f.runtime)
    } else {
        // with a special construct present, the position of the probe is not a discriminator
        // (keeps the set of signatures closed: 7 subsets x 2)
        format!("C15:runtime-type-excluded:witness-needs=[{}]:inferred={inferred}", needs.join(","))
    }
}

/// Coarse class of an inferred type rendering (closed set).
fn inferred_class(t: &str) -> String {
    let t = t.trim();
    if t.contains('|') || t.starts_with('(') {
        return "union".into();
    }
    match t {
        "nil" | "boolean" | "integer" | "number" | "string" | "table" | "function" | "any" | "unknown" => t.to_string(),
        "true" | "false" => "boollit".into(),
        _ if t.starts_with('"') || t.starts_with('\'') => "strlit".into(),
        _ if t.chars().next().map(|c| c.is_ascii_digit() || c == '-').unwrap_or(false) => "numlit".into(),
        _ if t.starts_with("fun") => "function".into(),
        _ if t.starts_with('{') || t.starts_with("table") => "table".into(),
        _ => "other".into(),
    }
}

/// (needs, at, guard shapes on the variable)
pub fn witness_features(p: &Program, f: &ProbeFailure) -> (Vec<&'static str>, &'static str, Vec<String>) {
    let mut aliases: BTreeMap<u8, flow::Cond> = BTreeMap::new();
    collect_aliases(&p.body, &mut aliases);
    let mut guards: Vec<(bool, flow::Cond)> = Vec::new();
    let mut found = Vec::new();
    find_guards(&p.body, f.k, &mut guards, &mut found);
    let mut shapes: Vec<String> = Vec::new();
    for (taken, c) in &found {
        let mut vs = BTreeSet::new();
        c.vars(&mut vs);
        let mut al = BTreeSet::new();
        c.aliases(&mut al);
        for a in &al {
            if let Some(ac) = aliases.get(a) {
                ac.vars(&mut vs);
            }
        }
        if vs.contains(&f.var) {
            let raw = format!("{}:{}", if *taken { "then" } else { "else" }, c.shape());
            shapes.push(normalise_path_elem(&raw));
        }
    }
    let mut decl_forms = BTreeSet::new();
    for v in 0..4u8 {
        collect_decl_forms(&p.body, v, &mut decl_forms);
    }
    let mut needs = Vec::new();
    if has_empty_else(&p.body) {
        needs.push("empty-else");
    }
    if decl_forms.contains("multi-local-missing-value") || decl_forms.contains("no-initialiser") {
        needs.push("uninitialised-local");
    }
    // an alias definition that no condition uses is just a read of its variables
    if alias_used_in_conditions(&p.body) {
        needs.push("alias");
    }
    let at = if !shapes.is_empty() {
        "branch"
    } else if after_merge_with_assign(&p.body, f.k, f.var) {
        "after-merge"
    } else {
        "plain"
    };
    let _ = last_assign_is_copy(&p.body, f.k, f.var);
    (needs, at, shapes)
}

fn alias_used_in_conditions(b: &[Stmt]) -> bool {
    let uses = |c: &flow::Cond| {
        let mut a = BTreeSet::new();
        c.aliases(&mut a);
        !a.is_empty()
    };
    b.iter().any(|s| match &s.kind {
        K::If { arms, els } => arms.iter().any(|(c, bb)| uses(c) || alias_used_in_conditions(bb)) || els.as_ref().is_some_and(|e| alias_used_in_conditions(e)),
        K::Do(bb) => alias_used_in_conditions(bb),
        K::While { cond, body } | K::Repeat { body, cond } => uses(cond) || alias_used_in_conditions(body),
        K::NumFor { body, .. } | K::GenFor { body, .. } => alias_used_in_conditions(body),
        _ => false,
    })
}

pub fn has_empty_else(b: &[Stmt]) -> bool {
    b.iter().any(|s| match &s.kind {
        K::If { arms, els } => els.as_ref().is_some_and(|e| e.is_empty() || has_empty_else(e)) || arms.iter().any(|(_, bb)| has_empty_else(bb)),
        K::Do(bb) => has_empty_else(bb),
        K::While { body, .. } | K::Repeat { body, .. } | K::NumFor { body, .. } | K::GenFor { body, .. } => has_empty_else(body),
        _ => false,
    })
}

fn collect_aliases(b: &[Stmt], out: &mut BTreeMap<u8, flow::Cond>) {
    for s in b {
        match &s.kind {
            K::AliasDef { alias, cond } => {
                out.insert(*alias, cond.clone());
            }
            K::If { arms, els } => {
                for (_, bb) in arms {
                    collect_aliases(bb, out);
                }
                if let Some(bb) = els {
                    collect_aliases(bb, out);
                }
            }
            K::Do(bb) => collect_aliases(bb, out),
            K::While { body, .. } | K::Repeat { body, .. } | K::NumFor { body, .. } | K::GenFor { body, .. } => collect_aliases(body, out),
            _ => {}
        }
    }
}

/// guards (with polarity) enclosing probe `k`; `found` is filled when the probe is reached
fn find_guards(b: &[Stmt], k: u32, stack: &mut Vec<(bool, flow::Cond)>, found: &mut Vec<(bool, flow::Cond)>) -> bool {
    for s in b {
        match &s.kind {
            K::Probe { k: pk, .. } | K::Use { k: pk, .. } if *pk == k => {
                *found = stack.clone();
                return true;
            }
            K::If { arms, els } => {
                let base = stack.len();
                for (c, bb) in arms {
                    stack.push((true, c.clone()));
                    if find_guards(bb, k, stack, found) {
                        return true;
                    }
                    stack.pop();
                    stack.push((false, c.clone()));
                }
                if let Some(bb) = els {
                    if find_guards(bb, k, stack, found) {
                        return true;
                    }
                }
                stack.truncate(base);
            }
            K::Do(bb) => {
                if find_guards(bb, k, stack, found) {
                    return true;
                }
            }
            K::While { cond, body } => {
                stack.push((true, cond.clone()));
                if find_guards(body, k, stack, found) {
                    return true;
                }
                stack.pop();
            }
            K::Repeat { body, .. } | K::NumFor { body, .. } | K::GenFor { body, .. } => {
                if find_guards(body, k, stack, found) {
                    return true;
                }
            }
            _ => {}
        }
    }
    false
}

fn normalise_path_elem(e: &str) -> String {
    let mut cur = e.to_string();
    loop {
        let next = normalise_once(&cur);
        if next == cur {
            return cur;
        }
        cur = next;
    }
}

fn normalise_once(e: &str) -> String {
    // an element is "else:S1/else:S2/then:S" (elseif chains) — normalise each part
    e.split('/')
        .map(|part| {
            if let Some(rest) = part.strip_prefix("then:not(") {
                if let Some(inner) = rest.strip_suffix(')') {
                    return format!("else:{inner}");
                }
            }
            if let Some(rest) = part.strip_prefix("else:not(") {
                if let Some(inner) = rest.strip_suffix(')') {
                    return format!("then:{inner}");
                }
            }
            part.to_string()
        })
        .collect::<Vec<_>>()
        .join("/")
}

fn collect_decl_forms(b: &[Stmt], var: u8, out: &mut BTreeSet<&'static str>) {
    for s in b {
        match &s.kind {
            K::Local { vars, inits } => {
                if let Some(i) = vars.iter().position(|v| *v == var) {
                    out.insert(match inits.get(i) {
                        Some(flow::Rhs::Lit(_)) => "literal",
                        Some(flow::Rhs::Var(_)) => "copy",
                        None if vars.len() > 1 && !inits.is_empty() => "multi-local-missing-value",
                        None => "no-initialiser",
                    });
                }
            }
            K::If { arms, els } => {
                for (_, b) in arms {
                    collect_decl_forms(b, var, out);
                }
                if let Some(b) = els {
                    collect_decl_forms(b, var, out);
                }
            }
            K::Do(b) => collect_decl_forms(b, var, out),
            K::While { body, .. } | K::Repeat { body, .. } | K::NumFor { body, .. } | K::GenFor { body, .. } => collect_decl_forms(body, var, out),
            _ => {}
        }
    }
}

/// Is probe `k` preceded, in its own block, by an `if` whose branches assign `var`?
fn after_merge_with_assign(b: &[Stmt], k: u32, var: u8) -> bool {
    let mut seen_if_assign = false;
    for s in b {
        match &s.kind {
            K::Probe { k: pk, .. } | K::Use { k: pk, .. } if *pk == k => return seen_if_assign,
            K::If { arms, els } => {
                let mut a = BTreeSet::new();
                for (_, bb) in arms {
                    flow::assigned_vars(bb, &mut a);
                    if after_merge_with_assign(bb, k, var) {
                        return true;
                    }
                }
                if let Some(bb) = els {
                    flow::assigned_vars(bb, &mut a);
                    if after_merge_with_assign(bb, k, var) {
                        return true;
                    }
                }
                if a.contains(&var) {
                    seen_if_assign = true;
                }
            }
            K::Do(bb) => {
                if after_merge_with_assign(bb, k, var) {
                    return true;
                }
            }
            K::While { body, .. } | K::Repeat { body, .. } | K::NumFor { body, .. } | K::GenFor { body, .. } => {
                if after_merge_with_assign(body, k, var) {
                    return true;
                }
            }
            K::Assign { vars, .. } if vars.contains(&var) => seen_if_assign = false,
            _ => {}
        }
    }
    false
}

/// Is the textually last assignment / declaration of `var` before probe `k` a copy from a variable?
fn last_assign_is_copy(b: &[Stmt], k: u32, var: u8) -> bool {
    fn walk(b: &[Stmt], k: u32, var: u8, last: &mut Option<bool>) -> bool {
        for s in b {
            match &s.kind {
                K::Probe { k: pk, .. } | K::Use { k: pk, .. } if *pk == k => return true,
                K::Assign { vars, rhss: vals } | K::Local { vars, inits: vals } => {
                    if let Some(i) = vars.iter().position(|v| *v == var) {
                        *last = Some(matches!(vals.get(i), Some(flow::Rhs::Var(_))));
                    }
                }
                K::If { arms, els } => {
                    for (_, bb) in arms {
                        if walk(bb, k, var, last) {
                            return true;
                        }
                    }
                    if let Some(bb) = els {
                        if walk(bb, k, var, last) {
                            return true;
                        }
                    }
                }
                K::Do(bb) => {
                    if walk(bb, k, var, last) {
                        return true;
                    }
                }
                K::While { body, .. } | K::Repeat { body, .. } | K::NumFor { body, .. } | K::GenFor { body, .. } => {
                    if walk(body, k, var, last) {
                        return true;
                    }
                }
                _ => {}
            }
        }
        false
    }
    let mut last = None;
    walk(b, k, var, &mut last);
    last == Some(true)
}

fn count_kind(b: &[Stmt], f: &dyn Fn(&K) -> bool) -> usize {
    b.iter()
        .map(|s| {
            (if f(&s.kind) { 1 } else { 0 })
                + match &s.kind {
                    K::If { arms, els } => arms.iter().map(|(_, b)| count_kind(b, f)).sum::<usize>() + els.as_ref().map(|b| count_kind(b, f)).unwrap_or(0),
                    K::Do(b) => count_kind(b, f),
                    K::While { body, .. } | K::Repeat { body, .. } | K::NumFor { body, .. } | K::GenFor { body, .. } => count_kind(body, f),
                    _ => 0,
                }
        })
        .sum()
}

/// Generic shrinker: ddmin over statements then structural reductions, `fails` decides.
pub fn shrink(p: &Program, fails: &mut dyn FnMut(&Program) -> bool, budget: usize) -> Program {
    let ids = flow::stmt_ids(p);
    let mut check = |q: &Program| flow::well_scoped(q) && fails(q);
    let kept = crate::util::ddmin(ids, |keep| check(&flow::retain(p, &keep.iter().copied().collect())), budget);
    let mut cur = flow::retain(p, &kept.into_iter().collect());
    let mut tests = 0;
    let mut n = 0;
    while tests < budget {
        match flow::reduce_nth(&cur, n) {
            None => break,
            Some(cand) => {
                tests += 1;
                if cand != cur && check(&cand) {
                    cur = cand;
                    n = 0;
                } else {
                    n += 1;
                }
            }
        }
    }
    // a last statement-level pass (reductions may have made more statements removable)
    let ids = flow::stmt_ids(&cur);
    let base = cur.clone();
    let kept = crate::util::ddmin(ids, |keep| check(&flow::retain(&base, &keep.iter().copied().collect())), budget / 2);
    let last = flow::retain(&base, &kept.into_iter().collect());
    if check(&last) { last } else { cur }
}

pub fn replay_value(pr: &Printed, sig: &str, want_diags: bool) -> Value {
    json!({
        "text": pr.text,
        "sig": sig,
        "want_diags": want_diags,
        "probes": pr.probes.iter().map(|p| json!({"k": p.k, "var": flow::VARS[p.var as usize], "offset": p.offset, "loop_depth": p.loop_depth, "after_loops": p.after_loops, "path": p.path})).collect::<Vec<_>>(),
        "uses": pr.uses.iter().map(|u| json!({"k": u.k, "var": flow::VARS[u.var as usize], "line": u.line, "col": u.col, "guaranteed": u.guaranteed, "loop_kind": u.loop_kind})).collect::<Vec<_>>(),
    })
}

/// Rebuild the printed sites from a replay record (the program text is replayed verbatim).
pub fn printed_from_replay(rep: &Value) -> Printed {
    let mut pr = Printed { text: rep["text"].as_str().unwrap_or("").to_string(), ..Default::default() };
    let leak = |s: &str| -> &'static str {
        match s {
            "while" => "while",
            "repeat" => "repeat",
            "numeric-for" => "numeric-for",
            "generic-for" => "generic-for",
            _ => "none",
        }
    };
    let var_idx = |s: &str| flow::VARS.iter().position(|v| *v == s).unwrap_or(0) as u8;
    for p in rep["probes"].as_array().cloned().unwrap_or_default() {
        pr.probes.push(flow::ProbeSite {
            k: p["k"].as_u64().unwrap_or(0) as u32,
            var: var_idx(p["var"].as_str().unwrap_or("x")),
            offset: p["offset"].as_u64().unwrap_or(0) as usize,
            path: p["path"].as_array().map(|a| a.iter().map(|x| x.as_str().unwrap_or("").to_string()).collect()).unwrap_or_default(),
            loop_depth: p["loop_depth"].as_u64().unwrap_or(0) as u32,
            after_loops: p["after_loops"].as_array().map(|a| a.iter().map(|x| leak(x.as_str().unwrap_or(""))).collect()).unwrap_or_default(),
        });
    }
    for u in rep["uses"].as_array().cloned().unwrap_or_default() {
        pr.uses.push(flow::UseSite {
            k: u["k"].as_u64().unwrap_or(0) as u32,
            var: var_idx(u["var"].as_str().unwrap_or("x")),
            form: flow::UseForm::Index,
            col: u["col"].as_u64().unwrap_or(0) as u32,
            guaranteed: u["guaranteed"].as_bool().unwrap_or(false),
            line: u["line"].as_u64().unwrap_or(0) as u32,
            loop_kind: leak(u["loop_kind"].as_str().unwrap_or("")),
        });
    }
    pr
}

fn run_replay(ctx: &mut Ctx, rep: Value) {
    let pr = printed_from_replay(&rep);
    let sig = rep["sig"].as_str().unwrap_or("C15:runtime-type-excluded").to_string();
    println!("replay program:\n{}", pr.text);
    let mut an = match Analyzer::new() {
        Ok(a) => a,
        Err(e) => {
            println!("replay: analyzer unavailable: {e}");
            ctx.inconclusive("analyzer-init");
            return;
        }
    };
    match judge_text(&mut an, &pr, false) {
        Err(e) => {
            println!("replay: inconclusive: {e}");
            ctx.inconclusive("replay-inconclusive");
        }
        Ok(j) => {
            for (k, tys) in &j.runtime_by_probe {
                println!("  probe {k}: runtime {:?}", tys);
            }
            if j.failures.is_empty() {
                println!("replay: held ({} probes reached)", j.reached);
                ctx.held(fnv(pr.text.as_bytes()), true);
            } else {
                let d: Vec<String> = j.failures.iter().map(|f| format!("probe {} ({}): runtime {} but inferred `{}`", f.k, flow::VARS[f.var as usize], f.runtime, f.inferred)).collect();
                println!("replay: VIOLATED {sig}: {}", d.join("; "));
                ctx.violated(&sig, &d.join("; "), rep);
            }
        }
    }
}

pub fn run(ctx: &mut Ctx) {
    crate::util::private_home(&ctx.work, "c15");
    if let Some(rep) = ctx.replay.clone() {
        run_replay(ctx, rep);
        return;
    }
    let mut an = match Analyzer::new() {
        Ok(a) => a,
        Err(e) => {
            ctx.inconclusive(&format!("analyzer-init:{e}"));
            return;
        }
    };
    let n = ctx.budget(3000, 120_000);
    let (mut probes, mut reached) = (0u64, 0u64);
    for i in 0..n {
        if ctx.out_of_time() {
            break;
        }
        let mut rng = Rng::new(ctx.case_seed(i));
        let size = rng.range(6, 16);
        let prog = flow::gen_flow(&mut rng, size);
        let pr = flow::print(&prog, false);
        let j = match judge_text(&mut an, &pr, false) {
            Ok(j) => j,
            Err(e) => {
                let class = e.split(':').next().unwrap_or("judge").to_string();
                ctx.inconclusive(&class);
                ctx.extra_set("last_inconclusive", json!({"why": clip(&e, 200), "text": clip(&pr.text, 600)}));
                continue;
            }
        };
        probes += j.probes as u64;
        reached += j.reached as u64;
        ctx.clause_n("probe:reached-and-judged", j.judged as u64);
        ctx.extra_add("probes_infer_error", j.infer_errors as u64);
        ctx.extra_add("probes_gamma_top", j.top as u64);
        if j.failures.is_empty() {
            let guarded_reached = pr.probes.iter().filter(|p| !p.path.is_empty() && j.runtime_by_probe.contains_key(&p.k)).count();
            let mut shape: Vec<String> = pr.probes.iter().filter(|p| j.runtime_by_probe.contains_key(&p.k)).map(|p| p.path.join(">")).collect();
            shape.sort();
            ctx.held(fnv(shape.join("|").as_bytes()), j.judged >= 6 && guarded_reached >= 1);
            if ctx.want_sample() && i % 61 == 7 {
                ctx.sample(json!({"probes": j.probes, "reached": j.reached, "judged": j.judged, "text": clip(&pr.text, 1200)}));
            }
            continue;
        }
        // shrink: some reached probe still fails
        let mut pred = |q: &Program| {
            let qp = flow::print(q, false);
            matches!(judge_text(&mut an, &qp, false), Ok(j) if !j.failures.is_empty())
        };
        let small = shrink(&prog, &mut pred, 250);
        let spr = flow::print(&small, false);
        // confirm in a fresh analysis instance (no state carried over from earlier cases)
        let confirmed = Analyzer::new().and_then(|mut fresh| judge_text(&mut fresh, &spr, false));
        match confirmed {
            Ok(j2) if !j2.failures.is_empty() => {
                let f = &j2.failures[0];
                let sig = signature_c15(&small, f);
                let detail = format!("probe {} of `{}`: runtime type {} but inferred `{}` (γ excludes it); shrunk program:\n{}", f.k, flow::VARS[f.var as usize], f.runtime, f.inferred, clip(&spr.text, 700));
                ctx.violated(&sig, &detail, replay_value(&spr, &sig, false));
            }
            Ok(_) => ctx.inconclusive("not-reproducible-in-fresh-analysis"),
            Err(e) => ctx.inconclusive(&format!("confirm:{}", e.split(':').next().unwrap_or(""))),
        }
    }
    ctx.extra_set("reached_share", json!(if probes > 0 { reached as f64 / probes as f64 } else { 0.0 }));
}
