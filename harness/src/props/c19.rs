//! C19 — diagnostic suppression comments affect exactly their scope.
//!
//! Metamorphic monitor: D(P) with every code enabled, then D(P') where P' is P plus ONE
//! `---@diagnostic <kind>[: codes]` comment. The expected D(P') is computed from D(P) by line
//! arithmetic and the scoping rules of the property statement only; no checker is modelled.
//!
//! Also hosts the small helpers shared by C19/C20/C21 (fresh analysis, diagnostic tuples).

use crate::report::{Ctx, clip};
use crate::rng::{Rng, fnv};
use crate::util::{PanicInfo, ddmin, guarded};
use emmylua_code_analysis::{DiagnosticCode, EmmyLuaAnalysis, Emmyrc, FileId, file_path_to_uri};
use serde::{Deserialize, Serialize};
use serde_json::{Value, json};
use std::collections::BTreeMap;
use std::path::PathBuf;
use std::sync::Arc;
use tokio_util::sync::CancellationToken;

// ───────────────────────────── shared helpers (C19, C20, C21) ─────────────────────────────

#[derive(Clone, Debug, PartialEq, Eq, PartialOrd, Ord)]
pub struct Diag {
    pub sl: u32,
    pub sc: u32,
    pub el: u32,
    pub ec: u32,
    pub code: String,
    /// 0 = no severity, 1 error … 4 hint
    pub sev: u8,
    pub msg: String,
}

impl Diag {
    pub fn show(&self) -> String {
        format!("{}:{}-{}:{} {} sev{} {:?}", self.sl, self.sc, self.el, self.ec, self.code, self.sev, clip(&self.msg, 60))
    }
}

pub fn sev_num(s: Option<lsp_types::DiagnosticSeverity>) -> u8 {
    match s {
        Some(x) if x == lsp_types::DiagnosticSeverity::ERROR => 1,
        Some(x) if x == lsp_types::DiagnosticSeverity::WARNING => 2,
        Some(x) if x == lsp_types::DiagnosticSeverity::INFORMATION => 3,
        Some(x) if x == lsp_types::DiagnosticSeverity::HINT => 4,
        Some(_) => 9,
        None => 0,
    }
}

pub fn to_diag(d: &lsp_types::Diagnostic) -> Diag {
    let code = match &d.code {
        Some(lsp_types::NumberOrString::String(s)) => s.clone(),
        Some(lsp_types::NumberOrString::Number(n)) => format!("#{n}"),
        None => String::new(),
    };
    Diag {
        sl: d.range.start.line,
        sc: d.range.start.character,
        el: d.range.end.line,
        ec: d.range.end.character,
        code,
        sev: sev_num(d.severity),
        msg: d.message.clone(),
    }
}

/// Every diagnostic code name known to the tree under test (without the `none` catch-all).
pub fn code_names() -> Vec<String> {
    DiagnosticCode::all().iter().map(|c| c.get_name().to_string()).filter(|n| n != "none").collect()
}

/// Default Emmyrc with every code listed in `diagnostics.enables` (and nothing disabled).
pub fn emmyrc_all_enabled() -> Emmyrc {
    let mut e = Emmyrc::default();
    for c in DiagnosticCode::all() {
        if c.get_name() != "none" {
            e.diagnostics.enables.push(c);
        }
    }
    e
}

pub const WS_MAIN: &str = "/vws/main";

/// A fresh analysis with `emmyrc` applied and `/vws/main` as the main workspace root.
pub fn fresh_analysis(emmyrc: Emmyrc, std: bool) -> EmmyLuaAnalysis {
    let mut a = EmmyLuaAnalysis::new();
    a.update_config(Arc::new(emmyrc));
    if std {
        a.init_std_lib(None);
    }
    a.add_main_workspace(PathBuf::from(WS_MAIN));
    a
}

pub fn set_file(a: &mut EmmyLuaAnalysis, path: &str, text: &str) -> Option<FileId> {
    let uri = file_path_to_uri(&PathBuf::from(path))?;
    a.update_file_by_uri(&uri, Some(text.to_string()))
}

pub fn diagnose(a: &EmmyLuaAnalysis, fid: FileId) -> Option<Vec<lsp_types::Diagnostic>> {
    a.diagnose_file(fid, CancellationToken::new())
}

/// One file, fresh analysis, no std library. None = `diagnose_file` returned None.
pub fn diagnose_single(text: &str, emmyrc: Emmyrc) -> Option<Vec<Diag>> {
    let mut a = fresh_analysis(emmyrc, false);
    let fid = set_file(&mut a, "/vws/main/t.lua", text)?;
    let mut v: Vec<Diag> = diagnose(&a, fid)?.iter().map(to_diag).collect();
    v.sort();
    Some(v)
}

// ───────────────────────────────────── program model ─────────────────────────────────────

#[derive(Clone, Debug, Serialize, Deserialize)]
enum Item {
    /// one statement occupying one or more whole lines (a first line may be a doc comment);
    /// `trail`: the suppression comment is appended to the (single) line
    Stmt { lines: Vec<String>, trail: bool },
    Blk(Blk),
    /// the suppression comment on a line of its own
    Mark,
}

#[derive(Clone, Debug, Serialize, Deserialize)]
struct Blk {
    segs: Vec<Seg>,
    close: String,
    /// table constructor: lines inside are not a Lua block of their own
    table: bool,
}

#[derive(Clone, Debug, Serialize, Deserialize)]
struct Seg {
    head: String,
    trail: bool,
    body: Vec<Item>,
}

#[derive(Clone, Copy, Debug, PartialEq, Eq, Serialize, Deserialize)]
enum Kind {
    NextLine,
    Line,
    Disable,
}

impl Kind {
    fn word(self) -> &'static str {
        match self {
            Kind::NextLine => "disable-next-line",
            Kind::Line => "disable-line",
            Kind::Disable => "disable",
        }
    }
}

#[derive(Clone, Debug, Serialize, Deserialize)]
struct Case {
    root: Vec<Item>,
    /// 0 none, 1 two spaces, 2 tab, 3 four spaces
    indent: u8,
    /// own-line comment: 0 = indentation of its block, 1 = column 0, 2 = one level deeper
    mark_indent: u8,
    kind: Kind,
    /// empty = no code list
    codes: Vec<String>,
    tight: bool,
    crlf: bool,
    final_newline: bool,
}

struct BInfo {
    parent: usize,
    first: usize,
    /// inclusive; first > last for an empty block
    last: isize,
}

struct Rendered {
    /// lines of P'
    lines: Vec<String>,
    /// the same line without the trailing comment (P) — differs only on the trail line
    base: Vec<String>,
    blk: Vec<usize>,
    comment_like: Vec<bool>,
    until: Vec<bool>,
    blocks: Vec<BInfo>,
    mark_line: Option<usize>,
    trailing: bool,
    mark_blk: usize,
    marks: usize,
    /// number of non-comment lines directly or indirectly inside the block that holds the comment
    mark_blk_stmts: usize,
}

fn ind(case: &Case, depth: usize) -> String {
    let unit = match case.indent {
        0 => "",
        1 => "  ",
        2 => "\t",
        _ => "    ",
    };
    unit.repeat(depth)
}

fn comment_text(case: &Case) -> String {
    let mut s = format!("---@diagnostic {}", case.kind.word());
    if !case.codes.is_empty() {
        s.push_str(if case.tight { ":" } else { ": " });
        s.push_str(&case.codes.join(if case.tight { "," } else { ", " }));
    }
    s
}

fn push_line(r: &mut Rendered, text: String, base: String, blk: usize) {
    r.comment_like.push(base.trim_start().starts_with("--"));
    r.until.push(base.trim_start().starts_with("until"));
    r.lines.push(text);
    r.base.push(base);
    r.blk.push(blk);
}

fn walk(case: &Case, items: &[Item], depth: usize, cur: usize, r: &mut Rendered) {
    for it in items {
        match it {
            Item::Stmt { lines, trail } => {
                for (i, l) in lines.iter().enumerate() {
                    let b = if l.is_empty() { String::new() } else { format!("{}{}", ind(case, depth), l) };
                    if *trail && i + 1 == lines.len() {
                        r.mark_line = Some(r.lines.len());
                        r.trailing = true;
                        r.mark_blk = cur;
                        r.marks += 1;
                        push_line(r, format!("{} {}", b, comment_text(case)), b, cur);
                    } else {
                        push_line(r, b.clone(), b, cur);
                    }
                }
            }
            Item::Mark => {
                let d = match case.mark_indent {
                    0 => depth,
                    1 => 0,
                    _ => depth + 1,
                };
                r.mark_line = Some(r.lines.len());
                r.trailing = false;
                r.mark_blk = cur;
                r.marks += 1;
                let t = format!("{}{}", ind(case, d), comment_text(case));
                push_line(r, t.clone(), t, cur);
            }
            Item::Blk(b) => {
                for seg in &b.segs {
                    let h = format!("{}{}", ind(case, depth), seg.head);
                    if seg.trail {
                        r.mark_line = Some(r.lines.len());
                        r.trailing = true;
                        r.mark_blk = cur;
                        r.marks += 1;
                        push_line(r, format!("{} {}", h, comment_text(case)), h, cur);
                    } else {
                        push_line(r, h.clone(), h, cur);
                    }
                    if b.table {
                        walk(case, &seg.body, depth + 1, cur, r);
                    } else {
                        let id = r.blocks.len();
                        r.blocks.push(BInfo { parent: cur, first: r.lines.len(), last: -1 });
                        walk(case, &seg.body, depth + 1, id, r);
                        r.blocks[id].last = r.lines.len() as isize - 1;
                    }
                }
                let c = format!("{}{}", ind(case, depth), b.close);
                push_line(r, c.clone(), c, cur);
            }
        }
    }
}

fn render(case: &Case) -> Rendered {
    let mut r = Rendered {
        lines: vec![],
        base: vec![],
        blk: vec![],
        comment_like: vec![],
        until: vec![],
        blocks: vec![BInfo { parent: 0, first: 0, last: -1 }],
        mark_line: None,
        trailing: false,
        mark_blk: 0,
        marks: 0,
        mark_blk_stmts: 0,
    };
    walk(case, &case.root, 0, 0, &mut r);
    r.blocks[0].last = r.lines.len() as isize - 1;
    let b = &r.blocks[r.mark_blk];
    let mut n = 0;
    let mut i = b.first as isize;
    while i <= b.last {
        let iu = i as usize;
        if Some(iu) != r.mark_line.filter(|_| !r.trailing) && !r.base[iu].trim().is_empty() {
            n += 1;
        }
        i += 1;
    }
    r.mark_blk_stmts = n;
    r
}

fn join(case: &Case, lines: &[String]) -> String {
    let sep = if case.crlf { "\r\n" } else { "\n" };
    let mut s = lines.join(sep);
    if case.final_newline {
        s.push_str(sep);
    }
    s
}

// ─────────────────────────────────────── generator ───────────────────────────────────────

const GLOBALS: &[&str] = &["foo", "bar", "Baz", "qux_1", "undefinedThing", "print", "g", "名字", "cfg", "M"];
const LOCALS: &[&str] = &["a", "b", "x", "y", "tmp", "v1", "res"];

fn g(rng: &mut Rng) -> &'static str {
    rng.pick(GLOBALS)
}
fn l(rng: &mut Rng) -> &'static str {
    rng.pick(LOCALS)
}

fn cond(rng: &mut Rng) -> String {
    match rng.below(6) {
        0 => g(rng).to_string(),
        1 => format!("{} == 1", g(rng)),
        2 => "true".into(),
        3 => format!("not {}", g(rng)),
        4 => format!("{}() > 2", g(rng)),
        _ => format!("{} and {}", g(rng), g(rng)),
    }
}

pub fn stmt(rng: &mut Rng) -> Vec<String> {
    let s = match rng.below(33) {
        // statements that already carry a scoped suppression comment of their own (part of the base
        // program): the inserted comment then has to coexist with other suppression actions
        30 => return vec!["---@diagnostic disable-next-line: unused".into(), format!("local {} = 1", l(rng))],
        31 => return vec!["---@diagnostic disable-next-line: undefined-global".into(), format!("{}()", g(rng))],
        32 => return vec![format!("{}() ---@diagnostic disable-line: undefined-global", g(rng))],
        0..=4 => format!("{}()", g(rng)),
        5 => format!("{}({})", g(rng), g(rng)),
        6..=8 => format!("local {} = 1", l(rng)),
        9 => format!("local {} = {}", l(rng), g(rng)),
        10 => format!("{}.x = 1", g(rng)),
        11 => format!("local {} = {}.y.z", l(rng), g(rng)),
        12 => format!("local {} = {{ a = 1, a = 2 }}", l(rng)),
        13 => format!("local {}, {} = 1", l(rng), l(rng)),
        14 => format!("print({})", g(rng)),
        15 => {
            let n = l(rng);
            return vec![format!("local {n} = nil"), format!("{n}.x = 1")];
        }
        16 => return vec!["---@type integer".into(), format!("local {} = \"s\"", l(rng))],
        17 => {
            let n = l(rng);
            return vec![format!("local {n} <const> = 1"), format!("{n} = 2")];
        }
        18 => "do return end".into(),
        19 => format!("{} = {}", g(rng), g(rng)),
        20 => String::new(),
        21 => format!("local function {}() end", l(rng)),
        22 => format!("{}:method({})", g(rng), g(rng)),
        23 => format!("local {} = {} and {} or 1", l(rng), g(rng), g(rng)),
        24 => format!("for _ = 1, {} do end", g(rng)),
        25 => {
            let n = l(rng);
            return vec!["---@param p integer".into(), format!("local function {n}(p) end"), format!("{n}(\"s\")")];
        }
        26 => format!("{}[{}] = {}", g(rng), g(rng), g(rng)),
        27 => format!("local {} = {{ 1, 2, [1] = 3 }}", l(rng)),
        28 => format!("{}({}, function() return {} end)", g(rng), g(rng), g(rng)),
        _ => format!("{} = {} + 1", g(rng), l(rng)),
    };
    vec![s]
}

fn field(rng: &mut Rng) -> String {
    match rng.below(8) {
        0 => "a = 1,".into(),
        1 => "a = 2,".into(),
        2 => format!("b = {},", g(rng)),
        3 => format!("{},", g(rng)),
        4 => "[1] = 1,".into(),
        5 => "[1] = 2,".into(),
        6 => format!("c = function() return {} end,", g(rng)),
        _ => format!("{} = {}(),", l(rng), g(rng)),
    }
}

fn gen_items(rng: &mut Rng, depth: usize, budget: &mut isize, in_table: bool) -> Vec<Item> {
    let n = if depth == 0 { rng.range(2, 7) } else { rng.range(0, 4) };
    let mut out = Vec::new();
    for _ in 0..n {
        if *budget <= 0 {
            break;
        }
        if in_table {
            if depth < 3 && rng.chance(1, 8) {
                *budget -= 2;
                let body = gen_items(rng, depth + 1, budget, false);
                out.push(Item::Blk(Blk { segs: vec![Seg { head: "f = function()".into(), trail: false, body }], close: "end,".into(), table: false }));
            } else {
                *budget -= 1;
                out.push(Item::Stmt { lines: vec![field(rng)], trail: false });
            }
            continue;
        }
        if depth < 3 && rng.chance(3, 10) {
            *budget -= 2;
            out.push(Item::Blk(gen_blk(rng, depth, budget)));
        } else {
            let lines = stmt(rng);
            *budget -= lines.len() as isize;
            out.push(Item::Stmt { lines, trail: false });
        }
    }
    out
}

fn gen_blk(rng: &mut Rng, depth: usize, budget: &mut isize) -> Blk {
    let seg = |head: String, body: Vec<Item>| Seg { head, trail: false, body };
    match rng.below(12) {
        0 | 1 => Blk { segs: vec![seg("do".into(), gen_items(rng, depth + 1, budget, false))], close: "end".into(), table: false },
        2 | 3 => {
            let mut segs = vec![seg(format!("if {} then", cond(rng)), gen_items(rng, depth + 1, budget, false))];
            if rng.chance(1, 3) {
                *budget -= 1;
                segs.push(seg(format!("elseif {} then", cond(rng)), gen_items(rng, depth + 1, budget, false)));
            }
            if rng.bool() {
                *budget -= 1;
                segs.push(seg("else".into(), gen_items(rng, depth + 1, budget, false)));
            }
            Blk { segs, close: "end".into(), table: false }
        }
        4 => Blk { segs: vec![seg(format!("while {} do", cond(rng)), gen_items(rng, depth + 1, budget, false))], close: "end".into(), table: false },
        5 => Blk { segs: vec![seg(format!("for i = 1, {} do", g(rng)), gen_items(rng, depth + 1, budget, false))], close: "end".into(), table: false },
        6 => Blk { segs: vec![seg(format!("for k, v in pairs({}) do", g(rng)), gen_items(rng, depth + 1, budget, false))], close: "end".into(), table: false },
        7 => Blk { segs: vec![seg("repeat".into(), gen_items(rng, depth + 1, budget, false))], close: format!("until {}", cond(rng)), table: false },
        8 => Blk { segs: vec![seg(format!("local function {}(p, q)", l(rng)), gen_items(rng, depth + 1, budget, false))], close: "end".into(), table: false },
        9 => match rng.below(3) {
            0 => Blk { segs: vec![seg(format!("function {}.m(p)", g(rng)), gen_items(rng, depth + 1, budget, false))], close: "end".into(), table: false },
            1 => Blk { segs: vec![seg(format!("local {} = function()", l(rng)), gen_items(rng, depth + 1, budget, false))], close: "end".into(), table: false },
            _ => Blk { segs: vec![seg(format!("{}(function()", g(rng)), gen_items(rng, depth + 1, budget, false))], close: "end)".into(), table: false },
        },
        _ => {
            let (h, c) = if rng.chance(2, 3) { (format!("local {} = {{", l(rng)), "}".to_string()) } else { (format!("{}({{", g(rng)), "})".to_string()) };
            Blk { segs: vec![seg(h, gen_items(rng, depth + 1, budget, true))], close: c, table: true }
        }
    }
}

/// all places where the comment can go: (path to the body vector, index) / trailing targets
#[derive(Clone, Debug)]
enum Place {
    Own { path: Vec<(usize, usize)>, idx: usize, real_depth: usize },
    TrailStmt { path: Vec<(usize, usize)>, idx: usize },
    TrailHead { path: Vec<(usize, usize)>, idx: usize, seg: usize },
}

fn places(items: &[Item], path: &mut Vec<(usize, usize)>, real_depth: usize, out: &mut Vec<Place>) {
    for idx in 0..=items.len() {
        out.push(Place::Own { path: path.clone(), idx, real_depth });
    }
    for (idx, it) in items.iter().enumerate() {
        match it {
            Item::Stmt { lines, .. } => {
                if lines.len() == 1 && !lines[0].is_empty() && !lines[0].starts_with("--") {
                    out.push(Place::TrailStmt { path: path.clone(), idx });
                }
            }
            Item::Blk(b) => {
                for (si, seg) in b.segs.iter().enumerate() {
                    out.push(Place::TrailHead { path: path.clone(), idx, seg: si });
                    path.push((idx, si));
                    places(&seg.body, path, if b.table { real_depth } else { real_depth + 1 }, out);
                    path.pop();
                }
            }
            Item::Mark => {}
        }
    }
}

fn body_mut<'a>(root: &'a mut Vec<Item>, path: &[(usize, usize)]) -> &'a mut Vec<Item> {
    let mut cur = root;
    for (i, s) in path {
        cur = match &mut cur[*i] {
            Item::Blk(b) => &mut b.segs[*s].body,
            _ => unreachable!("path leads through a block"),
        };
    }
    cur
}

fn apply_place(root: &mut Vec<Item>, p: &Place) {
    match p {
        Place::Own { path, idx, .. } => body_mut(root, path).insert(*idx, Item::Mark),
        Place::TrailStmt { path, idx } => {
            if let Item::Stmt { trail, .. } = &mut body_mut(root, path)[*idx] {
                *trail = true;
            }
        }
        Place::TrailHead { path, idx, seg } => {
            if let Item::Blk(b) = &mut body_mut(root, path)[*idx] {
                b.segs[*seg].trail = true;
            }
        }
    }
}

fn gen_case(rng: &mut Rng, all_codes: &[String], announce: &mut dyn FnMut(&Value)) -> Option<Case> {
    let mut budget: isize = rng.range(6, 36) as isize;
    let root = gen_items(rng, 0, &mut budget, false);
    let mut case = Case {
        root,
        indent: if rng.chance(2, 5) { 0 } else { rng.range(1, 3) as u8 },
        mark_indent: match rng.below(10) {
            0..=5 => 0,
            6..=8 => 1,
            _ => 2,
        },
        kind: Kind::NextLine,
        codes: vec![],
        tight: rng.chance(1, 4),
        crlf: rng.chance(1, 10),
        final_newline: !rng.chance(1, 4),
    };
    // D(P) of the plain program decides which codes are interesting for the list
    let plain = join(&case, &render(&case).base);
    announce(&json!({"plain_text": plain}));
    let base = guarded(|| diagnose_single(&plain, emmyrc_all_enabled())).ok()??;
    let mut present: Vec<String> = base.iter().map(|d| d.code.clone()).collect();
    present.sort();
    present.dedup();

    let mut all = Vec::new();
    places(&case.root, &mut vec![], 0, &mut all);
    let kind = match rng.below(100) {
        0..=34 => Kind::NextLine,
        35..=59 => Kind::Line,
        _ => Kind::Disable,
    };
    let cands: Vec<&Place> = match kind {
        Kind::NextLine => all.iter().filter(|p| matches!(p, Place::Own { .. })).collect(),
        Kind::Line => {
            let trail = rng.chance(7, 10);
            all.iter().filter(|p| matches!(p, Place::Own { .. }) != trail).collect()
        }
        Kind::Disable => {
            let nested = rng.chance(6, 10);
            let v: Vec<&Place> = all.iter().filter(|p| matches!(p, Place::Own { real_depth, .. } if (*real_depth > 0) == nested)).collect();
            if v.is_empty() { all.iter().filter(|p| matches!(p, Place::Own { .. })).collect() } else { v }
        }
    };
    if cands.is_empty() {
        return None;
    }
    let place = cands[rng.below(cands.len())].clone();
    apply_place(&mut case.root, &place);
    case.kind = kind;
    if !rng.chance(35, 100) {
        let n = rng.range(1, 3);
        for _ in 0..n {
            let c = if !present.is_empty() && rng.chance(3, 4) { present[rng.below(present.len())].clone() } else { all_codes[rng.below(all_codes.len())].clone() };
            if !case.codes.contains(&c) {
                case.codes.push(c);
            }
        }
    }
    Some(case)
}

// ───────────────────────────────────────── oracle ─────────────────────────────────────────

/// codes whose checker inspects the doc comment attached to a statement: inserting any comment
/// line legitimately changes them, so they are left out of the comparison
const DOC_SENSITIVE: &[&str] = &["incomplete-signature-doc", "missing-global-doc", "undefined-doc-param"];

#[derive(Debug)]
enum Outcome {
    Held { base: usize, hidden: usize, kept_listed: usize, f8_probe: bool, other_kept: usize },
    Inapplicable(&'static str),
    Inconclusive(String),
    Violated { clause: &'static str, sig: String, detail: String },
    Panic(PanicInfo),
}

fn last_touched(d: &Diag) -> u32 {
    if d.ec == 0 && d.el > d.sl { d.el - 1 } else { d.el }
}

fn is_ancestor(r: &Rendered, anc: usize, mut b: usize) -> bool {
    // strict ancestor
    while b != 0 {
        b = r.blocks[b].parent;
        if b == anc {
            return true;
        }
    }
    false
}

fn evaluate(case: &Case, verbose: bool) -> Outcome {
    let r = render(case);
    if r.marks != 1 {
        return Outcome::Inapplicable("no-single-mark");
    }
    let m = r.mark_line.unwrap();
    let n = r.lines.len();
    // a comment that would merge with an existing comment below it has an ambiguous "comment line"
    if m + 1 < n && r.comment_like[m + 1] {
        return Outcome::Inapplicable("adjacent-comment");
    }
    if m > 0 && r.comment_like[m - 1] {
        return Outcome::Inapplicable("adjacent-comment");
    }
    let p_lines: Vec<String> = if r.trailing { r.base.clone() } else { r.base.iter().enumerate().filter(|(i, _)| *i != m).map(|(_, s)| s.clone()).collect() };
    let p = join(case, &p_lines);
    let p2 = join(case, &r.lines);
    let res = guarded(|| (diagnose_single(&p, emmyrc_all_enabled()), diagnose_single(&p2, emmyrc_all_enabled())));
    let (dp, dp2) = match res {
        Err(pi) => return Outcome::Panic(pi),
        Ok((Some(a), Some(b))) => (a, b),
        Ok(_) => return Outcome::Inconclusive("diagnose-none".into()),
    };
    let keep_code = |d: &Diag| !DOC_SENSITIVE.contains(&d.code.as_str());
    let shift = |l: u32| if !r.trailing && l as usize >= m { l + 1 } else { l };
    let base: Vec<Diag> = dp.iter().filter(|d| keep_code(d)).map(|d| Diag { sl: shift(d.sl), el: shift(d.el), ..d.clone() }).collect();
    let mut obs: BTreeMap<(u32, u32, u32, u32, String), usize> = BTreeMap::new();
    for d in dp2.iter().filter(|d| keep_code(d)) {
        *obs.entry((d.sl, d.sc, d.el, d.ec, d.code.clone())).or_insert(0) += 1;
    }
    // scope in P' line numbers (inclusive)
    let (s0, s1): (isize, isize) = match case.kind {
        Kind::NextLine => (m as isize, m as isize + 1),
        Kind::Line => (m as isize, m as isize),
        Kind::Disable => {
            if r.mark_blk == 0 {
                (0, n as isize - 1)
            } else {
                (r.blocks[r.mark_blk].first as isize, r.blocks[r.mark_blk].last)
            }
        }
    };
    let listed = |code: &str| case.codes.is_empty() || case.codes.iter().any(|c| c == code);
    let kindw = case.kind.word();
    let codesw = if case.codes.is_empty() { "all" } else { "listed" };
    let mut hidden = 0;
    let mut kept_listed = 0;
    let mut other_kept = 0;
    let mut f8_probe = false;
    let mut viol: Option<(&'static str, String, String)> = None;
    if verbose {
        println!("--- P' ({} lines, comment on line {m}, scope {s0}..={s1}) ---", n);
        for (i, l) in r.lines.iter().enumerate() {
            println!("{i:3} | {l}");
        }
        println!("--- D(P) shifted ---");
        for d in &base {
            println!("  {}", d.show());
        }
        println!("--- D(P') ---");
        for d in &dp2 {
            println!("  {}", d.show());
        }
    }
    for d in &base {
        let s = d.sl as isize;
        let e = last_touched(d) as isize;
        let key = (d.sl, d.sc, d.el, d.ec, d.code.clone());
        let present = match obs.get_mut(&key) {
            Some(c) if *c > 0 => {
                *c -= 1;
                true
            }
            _ => false,
        };
        let in_scope = s >= s0 && s <= s1;
        let overlaps = !in_scope && s < s0 && e >= s0;
        // `until <cond>` belongs to the repeat statement syntactically but to the body's scope semantically
        let until_of_scope = case.kind == Kind::Disable && (s as usize) < n && r.until[s as usize] && s == s1 + 1;
        let col = if d.sc == 0 { "col0" } else { "col+" };
        let bd = r.blk.get(s as usize).copied().unwrap_or(0);
        let wher = if bd == r.mark_blk {
            "same"
        } else if is_ancestor(&r, bd, r.mark_blk) {
            "ancestor"
        } else if is_ancestor(&r, r.mark_blk, bd) {
            "descendant"
        } else {
            "other"
        };
        let rel = if s > s1 {
            format!("after+{}", (s - s1).min(3))
        } else if s < s0 {
            format!("before-{}", (s0 - s).min(3))
        } else {
            "in-scope".to_string()
        };
        // line-scoped kinds: distance and column matter, block relation does not;
        // block-scoped `disable`: block relation and whether the block has statements matter
        let place = if case.kind == Kind::Disable {
            // outside the block = ancestor or sibling block: both are just "outside"
            let body = if r.mark_blk_stmts > 0 { "with-stmts" } else { "comment-only" };
            if rel == "in-scope" { format!("rel=in-scope:blk={wher}:body={body}") } else { format!("rel=outside-block:body={body}") }
        } else {
            format!("rel={rel}:{col}")
        };
        if !listed(&d.code) {
            // other codes are unaffected
            if present {
                other_kept += 1;
            } else if viol.is_none() {
                viol = Some((
                    "other-code-hidden",
                    format!("C19:other-code-hidden:kind={kindw}:{place}"),
                    format!("{} is not in the code list {:?} but disappeared", d.show(), case.codes),
                ));
            }
        } else if in_scope {
            if !present {
                hidden += 1;
            } else if viol.is_none() {
                let at = match case.kind {
                    Kind::NextLine => format!("line+{}", s - m as isize),
                    Kind::Line => "same-line".to_string(),
                    Kind::Disable => format!("{}-{}", wher, if (s as usize) < m { "before-comment" } else { "after-comment" }),
                };
                viol = Some((
                    "not-hidden",
                    format!("C19:not-hidden:kind={kindw}:codes={codesw}:at={at}"),
                    format!("{} starts inside the scope (lines {s0}..={s1}) but is still reported", d.show()),
                ));
            }
        } else if overlaps || until_of_scope {
            // a range that starts before the scope and reaches into it: either answer accepted
        } else {
            if present {
                kept_listed += 1;
                if s == s1 + 1 && d.sc == 0 {
                    f8_probe = true;
                }
            } else if viol.is_none() {
                viol = Some((
                    "hidden-outside-scope",
                    format!("C19:hidden-outside-scope:kind={kindw}:codes={codesw}:{place}"),
                    format!("{} lies outside the scope (lines {s0}..={s1} of P') but disappeared", d.show()),
                ));
            }
        }
    }
    let extras: Vec<String> = obs.iter().filter(|(_, c)| **c > 0).map(|(k, _)| format!("{}:{} {}", k.0, k.1, k.4)).collect();
    if !extras.is_empty() {
        let on_comment = obs.iter().filter(|(_, c)| **c > 0).all(|(k, _)| k.0 as usize == m);
        let code = obs.iter().find(|(_, c)| **c > 0).map(|(k, _)| k.4.clone()).unwrap_or_default();
        if verbose {
            println!("extras (not derivable from D(P)): {extras:?}");
        }
        return Outcome::Inconclusive(format!("{}:{code}", if on_comment { "diag-on-comment-line" } else { "new-diagnostic" }));
    }
    match viol {
        Some((clause, sig, detail)) => {
            // the shrinker must not turn a block that has statements into a comment-only block (or vice versa):
            // those are different situations (and different root causes on the pinned tree)
            let clause: &'static str = match (case.kind, clause, r.mark_blk_stmts > 0) {
                (Kind::Disable, "hidden-outside-scope", true) => "hidden-outside-scope/with-stmts",
                (Kind::Disable, "hidden-outside-scope", false) => "hidden-outside-scope/comment-only",
                (Kind::Disable, "other-code-hidden", true) => "other-code-hidden/with-stmts",
                (Kind::Disable, "other-code-hidden", false) => "other-code-hidden/comment-only",
                (_, c, _) => c,
            };
            Outcome::Violated { clause, sig, detail }
        }
        None => Outcome::Held { base: base.len(), hidden, kept_listed, f8_probe, other_kept },
    }
}

// ──────────────────────────────────────── shrinking ───────────────────────────────────────

fn count_removable(items: &[Item], n: &mut usize) {
    for it in items {
        match it {
            Item::Mark => {}
            Item::Stmt { trail, .. } => {
                if !*trail {
                    *n += 1;
                }
            }
            Item::Blk(b) => {
                *n += 1;
                for s in &b.segs {
                    count_removable(&s.body, n);
                }
            }
        }
    }
}

fn has_mark(items: &[Item]) -> bool {
    items.iter().any(|it| match it {
        Item::Mark => true,
        Item::Stmt { trail, .. } => *trail,
        Item::Blk(b) => b.segs.iter().any(|s| s.trail || has_mark(&s.body)),
    })
}

/// keep[i] for the i-th removable item in pre-order; a block carrying the mark is always kept
fn prune(items: &[Item], keep: &[bool], n: &mut usize) -> Vec<Item> {
    let mut out = Vec::new();
    for it in items {
        match it {
            Item::Mark => out.push(Item::Mark),
            Item::Stmt { trail, .. } => {
                if *trail {
                    out.push(it.clone());
                } else {
                    let k = keep[*n];
                    *n += 1;
                    if k {
                        out.push(it.clone());
                    }
                }
            }
            Item::Blk(b) => {
                let k = keep[*n];
                *n += 1;
                let must = b.segs.iter().any(|s| s.trail || has_mark(&s.body));
                let segs: Vec<Seg> = b.segs.iter().map(|s| Seg { head: s.head.clone(), trail: s.trail, body: prune(&s.body, keep, n) }).collect();
                if k || must {
                    out.push(Item::Blk(Blk { segs, close: b.close.clone(), table: b.table }));
                }
            }
        }
    }
    out
}

/// replace the `target`-th block (pre-order) by the items of its bodies
fn hoist(items: &[Item], target: &mut isize) -> Vec<Item> {
    let mut out = Vec::new();
    for it in items {
        match it {
            Item::Blk(b) => {
                let me = *target == 0;
                *target -= 1;
                // a block whose head carries the trailing comment cannot be dissolved
                if me && !b.segs.iter().any(|s| s.trail) {
                    for s in &b.segs {
                        out.extend(hoist(&s.body, target));
                    }
                } else {
                    let segs = b.segs.iter().map(|s| Seg { head: s.head.clone(), trail: s.trail, body: hoist(&s.body, target) }).collect();
                    out.push(Item::Blk(Blk { segs, close: b.close.clone(), table: b.table }));
                }
            }
            other => out.push(other.clone()),
        }
    }
    out
}

/// drop the `target`-th non-first segment (elseif / else branch) that does not carry the comment
fn drop_seg(items: &[Item], target: &mut isize) -> Vec<Item> {
    let mut out = Vec::new();
    for it in items {
        match it {
            Item::Blk(b) => {
                let mut segs = Vec::new();
                for (i, s) in b.segs.iter().enumerate() {
                    if i > 0 && !s.trail && !has_mark(&s.body) {
                        let me = *target == 0;
                        *target -= 1;
                        if me {
                            continue;
                        }
                    }
                    segs.push(Seg { head: s.head.clone(), trail: s.trail, body: drop_seg(&s.body, target) });
                }
                out.push(Item::Blk(Blk { segs, close: b.close.clone(), table: b.table }));
            }
            other => out.push(other.clone()),
        }
    }
    out
}

fn count_blocks(items: &[Item]) -> usize {
    items
        .iter()
        .map(|it| match it {
            Item::Blk(b) => 1 + b.segs.iter().map(|s| count_blocks(&s.body)).sum::<usize>(),
            _ => 0,
        })
        .sum()
}

fn shrink(case: &Case, clause: &'static str) -> Case {
    let mut total = 0;
    count_removable(&case.root, &mut total);
    let ids: Vec<usize> = (0..total).collect();
    let test = |kept: &[usize]| -> bool {
        let mut keep = vec![false; total];
        for k in kept {
            keep[*k] = true;
        }
        let mut n = 0;
        let c = Case { root: prune(&case.root, &keep, &mut n), ..case.clone() };
        matches!(evaluate(&c, false), Outcome::Violated { clause: cl, .. } if cl == clause)
    };
    // ddmin refuses the empty list; try it first
    let kept = if test(&[]) { vec![] } else { ddmin(ids, |k| test(k), 300) };
    let mut keep = vec![false; total];
    for k in &kept {
        keep[*k] = true;
    }
    let mut n = 0;
    let mut c = Case { root: prune(&case.root, &keep, &mut n), ..case.clone() };
    let still = |t: &Case| matches!(evaluate(t, false), Outcome::Violated { clause: cl, .. } if cl == clause);
    // structural simplification: drop else-branches, dissolve blocks (bounded fixpoint)
    for _round in 0..6 {
        let mut changed = false;
        let mut k = 0;
        while k < 12 {
            let mut t = k as isize;
            let root = drop_seg(&c.root, &mut t);
            if t >= 0 {
                break;
            }
            let cand = Case { root, ..c.clone() };
            if still(&cand) {
                c = cand;
                changed = true;
            } else {
                k += 1;
            }
        }
        let mut k = 0;
        while k < count_blocks(&c.root) {
            let mut t = k as isize;
            let cand = Case { root: hoist(&c.root, &mut t), ..c.clone() };
            if count_blocks(&cand.root) < count_blocks(&c.root) && still(&cand) {
                c = cand;
                changed = true;
            } else {
                k += 1;
            }
        }
        if !changed {
            break;
        }
    }
    // normalise presentation knobs when they do not matter
    for f in [
        |c: &mut Case| c.codes.clear(),
        |c: &mut Case| c.crlf = false,
        |c: &mut Case| c.final_newline = true,
        |c: &mut Case| c.tight = false,
        |c: &mut Case| c.mark_indent = 0,
        |c: &mut Case| c.indent = 0,
        |c: &mut Case| {
            if c.codes.len() > 1 {
                c.codes.truncate(1)
            }
        },
        |c: &mut Case| {
            if c.codes.len() > 1 {
                c.codes.remove(0);
            }
        },
    ] {
        let mut t = c.clone();
        f(&mut t);
        if matches!(evaluate(&t, false), Outcome::Violated { clause: cl, .. } if cl == clause) {
            c = t;
        }
    }
    c
}

// ────────────────────────────────────────── run ──────────────────────────────────────────

fn case_json(case: &Case) -> Value {
    let r = render(case);
    json!({"case": serde_json::to_value(case).unwrap_or(Value::Null), "text_with_comment": join(case, &r.lines)})
}

pub fn run(ctx: &mut Ctx) {
    if let Some(rep) = ctx.replay.clone() {
        if let Some(t) = rep["plain_text"].as_str() {
            let t0 = crate::util::thread_cpu();
            let d = guarded(|| diagnose_single(t, emmyrc_all_enabled()));
            println!("plain text diagnosed in {:.3}s cpu: {:?}", crate::util::thread_cpu() - t0, d.map(|x| x.map(|v| v.len())));
            return;
        }
        if let Some(t) = rep["tree_of"].as_str() {
            // debugging aid: dump the syntax tree of a text
            let tree = emmylua_parser::LuaParser::parse(t, emmylua_parser::ParserConfig::default());
            println!("{:#?}", tree.get_red_root());
            return;
        }
        let case: Case = match serde_json::from_value(rep["case"].clone()) {
            Ok(c) => c,
            Err(e) => {
                println!("replay: cannot decode case: {e}");
                ctx.inconclusive("bad-replay");
                return;
            }
        };
        match evaluate(&case, true) {
            Outcome::Held { .. } => {
                println!("replay: held");
                ctx.held(0, true);
            }
            Outcome::Violated { sig, detail, .. } => {
                println!("replay: VIOLATED {sig}: {detail}");
                ctx.violated(&sig, &detail, rep);
            }
            Outcome::Panic(p) => {
                println!("replay: PANIC {}", p.sig());
                ctx.violated(&format!("C19:panic:{}", p.sig()), &p.message, rep);
            }
            Outcome::Inapplicable(r) => {
                println!("replay: inapplicable {r}");
                ctx.inconclusive(r);
            }
            Outcome::Inconclusive(r) => {
                println!("replay: inconclusive {r}");
                ctx.inconclusive(&r);
            }
        }
        return;
    }
    let all_codes = code_names();
    ctx.extra_set("known_codes", json!(all_codes.len()));
    let mut classes: BTreeMap<String, (usize, Option<String>, bool)> = BTreeMap::new();
    let n = ctx.budget(12_000, 150_000);
    for i in 0..n {
        if ctx.out_of_time() {
            break;
        }
        let mut rng = Rng::new(ctx.case_seed(i));
        let Some(case) = gen_case(&mut rng, &all_codes, &mut |v| ctx.announce(v)) else {
            ctx.extra_add("gen_skipped", 1);
            continue;
        };
        let kindw = case.kind.word();
        ctx.announce(&json!({"case": serde_json::to_value(&case).unwrap_or(Value::Null)}));
        match evaluate(&case, false) {
            Outcome::Held { base, hidden, kept_listed, f8_probe, other_kept } => {
                if hidden > 0 {
                    ctx.clause(&format!("hide:{kindw}"));
                }
                if kept_listed > 0 {
                    ctx.clause(&format!("keep-outside:{kindw}"));
                }
                if other_kept > 0 {
                    ctx.clause("other-codes-kept");
                }
                if f8_probe {
                    ctx.clause(&format!("col0-after-scope:{kindw}"));
                }
                let r = render(&case);
                let text = join(&case, &r.lines);
                let nontrivial = base >= 3 && (hidden > 0 || kept_listed > 0);
                ctx.held(fnv(text.as_bytes()), nontrivial);
                if ctx.want_sample() && nontrivial && i % 211 == 7 {
                    ctx.sample(json!({"kind": kindw, "codes": case.codes, "base_diagnostics": base, "hidden": hidden, "kept_with_listed_code": kept_listed, "text": clip(&text, 600)}));
                }
            }
            Outcome::Inapplicable(r) => ctx.extra_add(&format!("inapplicable:{r}"), 1),
            Outcome::Inconclusive(r) => ctx.inconclusive(&r),
            Outcome::Panic(p) => {
                ctx.violated(&format!("C19:panic:{}", p.sig()), &format!("{} at {}", p.message, p.location), case_json(&case));
            }
            Outcome::Violated { clause, sig: presig, detail: predetail } => {
                // Shrinking costs ~100 analyses. Once five witnesses of the same pre-shrink class
                // (clause, kind, relative position) have all shrunk to one signature, later members of the
                // class are counted under that signature without being shrunk again.
                let class = format!("{clause}|{}", presig.split(':').filter(|p| !p.starts_with("codes=")).collect::<Vec<_>>().join(":"));
                if let Some((n, Some(sig), true)) = classes.get(&class).cloned() {
                    if n >= 5 {
                        ctx.violated(&sig, &format!("{predetail} (not shrunk: same class as {n} earlier shrunk witnesses)"), case_json(&case));
                        continue;
                    }
                }
                let small = shrink(&case, clause);
                match evaluate(&small, false) {
                    Outcome::Violated { sig, detail, .. } => {
                        let r = render(&small);
                        ctx.violated(&sig, &format!("{detail}; shrunk program:\n{}", join(&small, &r.lines)), case_json(&small));
                        let e = classes.entry(class).or_insert((0, None, true));
                        e.0 += 1;
                        match &e.1 {
                            None => e.1 = Some(sig),
                            Some(prev) if *prev != sig => e.2 = false,
                            _ => {}
                        }
                    }
                    other => {
                        ctx.inconclusive(&format!("shrink-unstable:{:?}", std::mem::discriminant(&other)));
                    }
                }
            }
        }
    }
}
