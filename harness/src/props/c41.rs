//! C41 — narrowing after loops accounts for what the loop body does.
//!
//! Same machinery as C15 with G-loop programs. Judged:
//!  (a) `post-loop-probe`: a reached probe *after* a loop (outside every loop) whose runtime type
//!      is not in γ(inferred type);
//!  (b) `post-loop-diag`: a `need-check-nil` / `call-non-callable` diagnostic at a use site right
//!      after a loop whose exit condition statically guarantees the variable
//!      (`while not v do … v = L … end; use(v)` and the three sibling templates), confirmed
//!      non-nil by the execution.
//! Probes inside loop bodies are recorded for reference only (`inloop_*` counters): the property
//! statement speaks about the state after the loop.

use super::c15::{Analyzer, Judged, ProbeFailure, judge_text, printed_from_replay, replay_value, shrink};
use crate::gens::flow::{self, K, Program, Stmt};
use crate::luavm;
use crate::report::{Ctx, clip};
use crate::rng::{Rng, fnv};
use serde_json::{Value, json};
use std::collections::BTreeSet;

/// Shrinking costs ~250 executions+analyses per case; on a tree where a quarter of the cases
/// violate, the number of shrunk witnesses per shard is capped (16 shards ⇒ ≤ 640 per run).
const MAX_SHRINKS_PER_SHARD: u32 = 40;

fn post_loop_failures(j: &Judged) -> Vec<&ProbeFailure> {
    j.failures.iter().filter(|f| f.loop_depth == 0 && !f.after_loops.is_empty()).collect()
}

/// loops of the program in pre-order: (kind, cond shape, has break, assigns var?, sid)
fn loops_of(b: &[Stmt], var: u8, out: &mut Vec<(String, String, bool, bool, u32)>) {
    for s in b {
        let (kind, cond, body): (&str, String, &Vec<Stmt>) = match &s.kind {
            K::While { cond, body } => ("while", if matches!(cond, flow::Cond::LitTrue) { "literal-true".to_string() } else { "dynamic-cond".to_string() }, body),
            K::Repeat { body, .. } => ("repeat", "until".to_string(), body),
            K::NumFor { to, body, .. } => ("numeric-for", if matches!(to, flow::Bound::Lit(_)) { "literal-bounds".into() } else { "local-bound".into() }, body),
            K::GenFor { body, .. } => ("generic-for", "iter".into(), body),
            K::If { arms, els } => {
                for (_, b) in arms {
                    loops_of(b, var, out);
                }
                if let Some(b) = els {
                    loops_of(b, var, out);
                }
                continue;
            }
            K::Do(b) => {
                loops_of(b, var, out);
                continue;
            }
            _ => continue,
        };
        let mut assigned = BTreeSet::new();
        flow::assigned_vars(body, &mut assigned);
        out.push((kind.to_string(), cond, has_break(body), assigned.contains(&var), s.sid));
        loops_of(body, var, out);
    }
}

/// sid of the last loop statement that precedes probe `k` in the probe's own block chain
fn last_top_level_loop_before(b: &[Stmt], k: u32) -> Option<u32> {
    let mut last = None;
    for s in b {
        match &s.kind {
            K::Probe { k: pk, .. } | K::Use { k: pk, .. } if *pk == k => return last,
            _ if flow::loop_kind(&s.kind).is_some() => last = Some(s.sid),
            K::If { arms, els } => {
                for (_, bb) in arms {
                    if contains_probe(bb, k) {
                        return last_top_level_loop_before(bb, k).or(last);
                    }
                }
                if let Some(bb) = els {
                    if contains_probe(bb, k) {
                        return last_top_level_loop_before(bb, k).or(last);
                    }
                }
            }
            K::Do(bb) => {
                if contains_probe(bb, k) {
                    return last_top_level_loop_before(bb, k).or(last);
                }
            }
            _ => {}
        }
    }
    None
}

fn contains_probe(b: &[Stmt], k: u32) -> bool {
    b.iter().any(|s| match &s.kind {
        K::Probe { k: pk, .. } | K::Use { k: pk, .. } => *pk == k,
        K::If { arms, els } => arms.iter().any(|(_, bb)| contains_probe(bb, k)) || els.as_ref().is_some_and(|bb| contains_probe(bb, k)),
        K::Do(bb) => contains_probe(bb, k),
        K::While { body, .. } | K::Repeat { body, .. } | K::NumFor { body, .. } | K::GenFor { body, .. } => contains_probe(body, k),
        _ => false,
    })
}

fn count_breaks(b: &[Stmt]) -> usize {
    b.iter()
        .map(|s| match &s.kind {
            K::Break => 1,
            K::If { arms, els } => arms.iter().map(|(_, b)| count_breaks(b)).sum::<usize>() + els.as_ref().map(|b| count_breaks(b)).unwrap_or(0),
            K::Do(b) => count_breaks(b),
            _ => 0,
        })
        .sum()
}

/// number of `break`s that belong to the loop statement `sid`
fn count_breaks_of(b: &[Stmt], sid: u32) -> usize {
    for s in b {
        let body = match &s.kind {
            K::While { body, .. } | K::Repeat { body, .. } | K::NumFor { body, .. } | K::GenFor { body, .. } => {
                if s.sid == sid {
                    return count_breaks(body);
                }
                Some(body)
            }
            _ => None,
        };
        let n = match &s.kind {
            K::If { arms, els } => arms.iter().map(|(_, b)| count_breaks_of(b, sid)).sum::<usize>() + els.as_ref().map(|b| count_breaks_of(b, sid)).unwrap_or(0),
            K::Do(b) => count_breaks_of(b, sid),
            _ => body.map(|b| count_breaks_of(b, sid)).unwrap_or(0),
        };
        if n > 0 {
            return n;
        }
    }
    0
}

fn has_break(b: &[Stmt]) -> bool {
    b.iter().any(|s| match &s.kind {
        K::Break => true,
        K::If { arms, els } => arms.iter().any(|(_, b)| has_break(b)) || els.as_ref().is_some_and(|b| has_break(b)),
        K::Do(b) => has_break(b),
        _ => false, // a break inside a nested loop belongs to that loop
    })
}

/// Structural signature from the shrunk witness: loop kinds with their condition shape, whether
/// the body assigns the probed variable, whether it breaks, whether the body ran at all, and
/// whether the inferred type was `never`.
fn signature_probe(p: &Program, f: &ProbeFailure) -> String {
    let mut loops = Vec::new();
    loops_of(&p.body, f.var, &mut loops);
    // iterations per loop from a marked run
    let marked = flow::print(p, true);
    let run = luavm::run_probed(&marked.text, super::c15::STEPS);
    // only the outermost loop that directly precedes the probe names the signature (witnesses
    // that need several loops are compositions of the same exit-edge problems)
    let last_top = last_top_level_loop_before(&p.body, f.k);
    let mut parts = Vec::new();
    for (kind, cond, brk, assigns, sid) in &loops {
        if last_top.is_some() && Some(*sid) != last_top {
            continue;
        }
        let iters = run.events.iter().filter(|e| e.k == 1_000_000 + *sid as i64).count();
        // `assigns` (does the body assign the probed variable itself, or only a variable it is
        // later copied from) is not a discriminator of the root cause; `break` matters only where
        // the breaks are the loop's exits
        let _ = assigns;
        parts.push(format!(
            "{kind}({cond}){}:{}",
            if *brk && cond == "literal-true" {
                // one exit edge or several (a witness that needs several breaks points at the
                // merge of the break edges rather than at the back edge)
                if count_breaks_of(&p.body, *sid) > 1 { ":multi-break" } else { ":break" }
            } else {
                ""
            },
            if iters == 0 { "zero-iterations" } else { "iterated" }
        ));
    }
    format!("C41:post-loop-probe:{}:inferred={}", parts.join("+"), if f.never { "never" } else { "excludes-runtime-type" })
}

fn run_replay(ctx: &mut Ctx, rep: Value) {
    let pr = printed_from_replay(&rep);
    let sig = rep["sig"].as_str().unwrap_or("C41").to_string();
    println!("replay program:\n{}", pr.text);
    let mut an = match Analyzer::new() {
        Ok(a) => a,
        Err(e) => {
            println!("replay: analyzer unavailable: {e}");
            ctx.inconclusive("analyzer-init");
            return;
        }
    };
    match judge_text(&mut an, &pr, true) {
        Err(e) => {
            println!("replay: inconclusive: {e}");
            ctx.inconclusive("replay-inconclusive");
        }
        Ok(j) => {
            for (k, tys) in &j.runtime_by_probe {
                println!("  probe {k}: runtime {:?}", tys);
            }
            let pf = post_loop_failures(&j);
            let mut d: Vec<String> = pf.iter().map(|f| format!("post-loop probe {} ({}): runtime {} but inferred `{}`", f.k, flow::VARS[f.var as usize], f.runtime, f.inferred)).collect();
            for f in &j.diag_failures {
                d.push(format!("use {} ({}): diagnostic {} \"{}\" although the loop exit condition guarantees a value (runtime {})", f.k, flow::VARS[f.var as usize], f.code, f.message, f.runtime));
            }
            let is_diag_sig = sig.contains("post-loop-diag");
            let relevant = if is_diag_sig { !j.diag_failures.is_empty() } else { !pf.is_empty() };
            if relevant {
                println!("replay: VIOLATED {sig}: {}", d.join("; "));
                ctx.violated(&sig, &d.join("; "), rep);
            } else {
                println!("replay: held");
                ctx.held(fnv(pr.text.as_bytes()), true);
            }
        }
    }
}

pub fn run(ctx: &mut Ctx) {
    crate::util::private_home(&ctx.work, "c41");
    if let Some(rep) = ctx.replay.clone() {
        run_replay(ctx, rep);
        return;
    }
    let mut an = match Analyzer::new() {
        Ok(a) => a,
        Err(e) => {
            ctx.inconclusive(&format!("analyzer-init:{e}"));
            return;
        }
    };
    let n = ctx.budget(2000, 80_000);
    let mut shrinks = 0u32;
    let mut pre_seen: std::collections::BTreeMap<String, u32> = std::collections::BTreeMap::new();
    for i in 0..n {
        if ctx.out_of_time() {
            break;
        }
        let mut rng = Rng::new(ctx.case_seed(i));
        let size = rng.range(4, 10);
        let prog = flow::gen_loop(&mut rng, size);
        let pr = flow::print(&prog, false);
        let j = match judge_text(&mut an, &pr, true) {
            Ok(j) => j,
            Err(e) => {
                let class = e.split(':').next().unwrap_or("judge").to_string();
                ctx.inconclusive(&class);
                ctx.extra_set("last_inconclusive", json!({"why": clip(&e, 200), "text": clip(&pr.text, 800)}));
                continue;
            }
        };
        let post_reached = pr.probes.iter().filter(|p| p.loop_depth == 0 && !p.after_loops.is_empty() && j.runtime_by_probe.contains_key(&p.k)).count();
        ctx.clause_n("post-loop-probe:reached", post_reached as u64);
        ctx.clause_n("post-loop-diag:guaranteed-uses", j.uses_judged as u64);
        let inloop_bad = j.failures.iter().filter(|f| f.loop_depth > 0).count();
        let preloop_bad = j.failures.iter().filter(|f| f.loop_depth == 0 && f.after_loops.is_empty()).count();
        ctx.extra_add("inloop_probe_unsound(reference-only)", inloop_bad as u64);
        ctx.extra_add("preloop_probe_unsound(C15-territory)", preloop_bad as u64);
        for k in ["while", "repeat", "numeric-for", "generic-for"] {
            if pr.probes.iter().any(|p| p.after_loops.contains(&k)) {
                ctx.clause(&format!("loop-kind:{k}"));
            }
        }
        let pf = post_loop_failures(&j);
        if pf.is_empty() && j.diag_failures.is_empty() {
            let mut shape: Vec<String> = pr.probes.iter().filter(|p| j.runtime_by_probe.contains_key(&p.k)).map(|p| format!("{}@{}", p.path.join(">"), p.after_loops.join("+"))).collect();
            shape.sort();
            ctx.held(fnv(shape.join("|").as_bytes()), post_reached >= 2);
            if ctx.want_sample() && i % 53 == 11 {
                ctx.sample(json!({"post_loop_probes_reached": post_reached, "guaranteed_uses": j.uses_judged, "text": clip(&pr.text, 1200)}));
            }
            continue;
        }
        let mut first = true;
        // cheap pre-classification of the unshrunk case: classes that already have enough shrunk
        // witnesses in this shard are not shrunk again, so that rarer classes get their turn
        let pre = if let Some(f) = pf.first() {
            let mut loops = Vec::new();
            loops_of(&prog.body, f.var, &mut loops);
            let last = last_top_level_loop_before(&prog.body, f.k);
            let l = loops.iter().find(|l| Some(l.4) == last).map(|l| format!("{}({}){}", l.0, l.1, if l.2 { ":break" } else { "" })).unwrap_or_default();
            format!("probe:{l}:{}", if f.never { "never" } else { "excl" })
        } else {
            format!("diag:{}:{}", j.diag_failures[0].loop_kind, j.diag_failures[0].code)
        };
        let seen = pre_seen.entry(pre).or_insert(0u32);
        *seen += 1;
        if *seen > 4 {
            ctx.inconclusive("violating-case-not-shrunk(class already has 4 shrunk witnesses in this shard)");
            continue;
        }
        if shrinks >= MAX_SHRINKS_PER_SHARD {
            // volume bound only: enough shrunk witnesses in this shard; the case is not judged further
            ctx.inconclusive("violating-case-not-shrunk(per-shard cap reached)");
            continue;
        }
        shrinks += 1;
        // (a) probe clause
        if !pf.is_empty() {
            let mut pred = |q: &Program| {
                let qp = flow::print(q, false);
                // do not let the shrinker drift into C15's empty-else finding
                !super::c15::has_empty_else(&q.body) && matches!(judge_text(&mut an, &qp, false), Ok(j) if !post_loop_failures(&j).is_empty())
            };
            let small = shrink(&prog, &mut pred, 250);
            let spr = flow::print(&small, false);
            match Analyzer::new().and_then(|mut fresh| judge_text(&mut fresh, &spr, false)) {
                Ok(j2) if !post_loop_failures(&j2).is_empty() => {
                    let f = post_loop_failures(&j2)[0].clone();
                    // is the loop needed at all? If the witness still fails with every loop
                    // removed, this is plain flow narrowing (C15), not a loop-exit problem.
                    let no_loops = strip_loops(&small);
                    let flow_only = flow::well_scoped(&no_loops)
                        && matches!(judge_text(&mut an, &flow::print(&no_loops, false), false), Ok(j3) if !j3.failures.is_empty());
                    if flow_only {
                        ctx.inconclusive("flow-bug-not-loop-related(C15-territory)");
                        ctx.extra_set("last_c15_territory", json!(clip(&spr.text, 500)));
                        continue;
                    }
                    let sig = signature_probe(&small, &f);
                    let detail = format!("post-loop probe {} of `{}`: runtime type {} but inferred `{}`; shrunk program:\n{}", f.k, flow::VARS[f.var as usize], f.runtime, f.inferred, clip(&spr.text, 700));
                    ctx.violated(&sig, &detail, replay_value(&spr, &sig, false));
                    first = false;
                }
                Ok(_) => ctx.inconclusive("not-reproducible-in-fresh-analysis"),
                Err(e) => ctx.inconclusive(&format!("confirm:{}", e.split(':').next().unwrap_or(""))),
            }
        }
        // (b) diagnostic clause
        if !j.diag_failures.is_empty() {
            let code = j.diag_failures[0].code.clone();
            let mut pred = |q: &Program| {
                let qp = flow::print(q, false);
                template_intact(q) && matches!(judge_text(&mut an, &qp, true), Ok(j) if j.diag_failures.iter().any(|d| d.code == code))
            };
            // template statements must stay together: shrink only what surrounds them
            let small = shrink(&prog, &mut pred, 250);
            let spr = flow::print(&small, false);
            match Analyzer::new().and_then(|mut fresh| judge_text(&mut fresh, &spr, true)) {
                Ok(j2) if j2.diag_failures.iter().any(|d| d.code == code) => {
                    let f = j2.diag_failures.iter().find(|d| d.code == code).unwrap().clone();
                    // the shrunk witness must still be one of the statically-guaranteed templates
                    if !template_intact(&small) {
                        ctx.inconclusive("diag-witness-lost-template");
                    } else {
                        let sig = format!("C41:post-loop-diag:{}:{}", f.loop_kind, f.code);
                        let detail = format!("use of `{}` after the loop gets `{}` (\"{}\") although the exit condition guarantees a value (runtime {}); shrunk program:\n{}", flow::VARS[f.var as usize], f.code, f.message, f.runtime, clip(&spr.text, 700));
                        if first {
                            ctx.violated(&sig, &detail, replay_value(&spr, &sig, true));
                            first = false;
                        } else {
                            ctx.add_violation(&sig, &detail, replay_value(&spr, &sig, true));
                        }
                    }
                }
                Ok(_) => ctx.inconclusive("not-reproducible-in-fresh-analysis"),
                Err(e) => ctx.inconclusive(&format!("confirm:{}", e.split(':').next().unwrap_or(""))),
            }
        }
        let _ = first;
    }
}

/// The program with every loop statement removed (with its body).
fn strip_loops(p: &Program) -> Program {
    fn rb(b: &[Stmt]) -> Vec<Stmt> {
        b.iter()
            .filter(|s| flow::loop_kind(&s.kind).is_none())
            .map(|s| Stmt {
                sid: s.sid,
                kind: match &s.kind {
                    K::If { arms, els } => K::If { arms: arms.iter().map(|(c, b)| (c.clone(), rb(b))).collect(), els: els.as_ref().map(|b| rb(b)) },
                    K::Do(b) => K::Do(rb(b)),
                    other => other.clone(),
                },
            })
            .collect()
    }
    Program { body: rb(&p.body) }
}

/// Every guaranteed use is still directly preceded by a loop whose exit condition tests exactly
/// that variable (`not v` / `v == nil` for while, `v` / `v ~= nil` for repeat), the loop has no
/// break, the body assigns the variable only from literals of one non-nil (truthy) type L, and
/// the statement before the loop (counter definitions aside) sets the variable to nil / nothing /
/// false (truthiness forms only) / a literal of L's type. Under these conditions "v is not nil
/// (and has L's type) after the loop" follows statically from the exit condition.
fn template_intact(p: &Program) -> bool {
    fn pre_ok(b: &[Stmt], loop_idx: usize, var: u8, lit_ty: Option<&'static str>, truthy_form: bool) -> bool {
        let mut i = loop_idx;
        while i > 0 {
            i -= 1;
            match &b[i].kind {
                K::CounterDef(_) => continue,
                K::Local { vars, inits } if vars.len() == 1 && vars[0] == var => {
                    return inits.is_empty() || inits.len() == 1 && rhs_ok(&inits[0], lit_ty, truthy_form);
                }
                K::Assign { vars, rhss } if vars.len() == 1 && vars[0] == var => return rhs_ok(&rhss[0], lit_ty, truthy_form),
                _ => return false,
            }
        }
        false
    }
    fn rhs_ok(r: &flow::Rhs, lit_ty: Option<&'static str>, truthy_form: bool) -> bool {
        match r {
            flow::Rhs::Lit(flow::Lit::Nil) => true,
            flow::Rhs::Lit(flow::Lit::False) => truthy_form,
            flow::Rhs::Lit(l) => l.truthy() && Some(l.lua_type()) == lit_ty,
            _ => false,
        }
    }
    fn check_block(b: &[Stmt]) -> bool {
        for (i, s) in b.iter().enumerate() {
            let ok = match &s.kind {
                K::Use { var, guaranteed: true, .. } => {
                    if i == 0 {
                        false
                    } else {
                        match &b[i - 1].kind {
                            K::While { cond, body } => {
                                let (exit_ok, truthy_form) = match cond {
                                    flow::Cond::Not(c) => (matches!(**c, flow::Cond::Truthy(v) if v == *var), true),
                                    flow::Cond::EqNil { var: v, neg: false, .. } => (v == var, false),
                                    _ => (false, false),
                                };
                                let (lits_ok, ty) = assigns_only_non_nil_literals(body, *var);
                                exit_ok && !has_break(body) && lits_ok && pre_ok(b, i - 1, *var, ty, truthy_form)
                            }
                            K::Repeat { body, cond } => {
                                let (exit_ok, truthy_form) = match cond {
                                    flow::Cond::Truthy(v) => (v == var, true),
                                    flow::Cond::EqNil { var: v, neg: true, .. } => (v == var, false),
                                    _ => (false, false),
                                };
                                let (lits_ok, ty) = assigns_only_non_nil_literals(body, *var);
                                // a repeat body always runs once: it must actually assign the variable
                                exit_ok && !has_break(body) && lits_ok && ty.is_some() && pre_ok(b, i - 1, *var, ty, truthy_form)
                            }
                            _ => false,
                        }
                    }
                }
                K::If { arms, els } => arms.iter().all(|(_, b)| check_block(b)) && els.as_ref().is_none_or(|b| check_block(b)),
                K::Do(b) => check_block(b),
                K::While { body, .. } | K::Repeat { body, .. } | K::NumFor { body, .. } | K::GenFor { body, .. } => check_block(body),
                _ => true,
            };
            if !ok {
                return false;
            }
        }
        true
    }
    check_block(&p.body)
}

fn assigns_only_non_nil_literals(b: &[Stmt], var: u8) -> (bool, Option<&'static str>) {
    let mut types = BTreeSet::new();
    fn rec(b: &[Stmt], var: u8, types: &mut BTreeSet<&'static str>) -> bool {
        b.iter().all(|s| match &s.kind {
            K::Assign { vars, rhss } => vars.iter().zip(rhss.iter()).all(|(v, r)| {
                if *v != var {
                    return true;
                }
                match r {
                    flow::Rhs::Lit(l) if l.truthy() => {
                        types.insert(l.lua_type());
                        true
                    }
                    _ => false,
                }
            }),
            K::Local { vars, .. } => !vars.contains(&var),
            K::If { arms, els } => arms.iter().all(|(_, b)| rec(b, var, types)) && els.as_ref().is_none_or(|b| rec(b, var, types)),
            K::Do(b) => rec(b, var, types),
            K::While { body, .. } | K::Repeat { body, .. } | K::NumFor { body, .. } | K::GenFor { body, .. } => rec(body, var, types),
            _ => true,
        })
    }
    let ok = rec(b, var, &mut types) && types.len() <= 1;
    (ok, types.iter().next().copied())
}
