//! C04 — parse results do not depend on earlier parses (shared node cache in the Vfs).

use crate::corpus::Corpus;
use crate::gens::soup;
use crate::report::{Ctx, clip};
use crate::rng::{Rng, fnv};
use crate::util::guarded;
use emmylua_code_analysis::{Emmyrc, EmmyrcLuaVersion, Vfs, file_path_to_uri};
use emmylua_parser::{LuaParser, LuaSyntaxTree};
use rowan::NodeCache;
use serde_json::{Value, json};
use std::path::PathBuf;
use std::sync::Arc;

const VERSIONS: [EmmyrcLuaVersion; 9] = [
    EmmyrcLuaVersion::Lua51,
    EmmyrcLuaVersion::LuaJIT,
    EmmyrcLuaVersion::LuaJIT2,
    EmmyrcLuaVersion::LuaJIT3,
    EmmyrcLuaVersion::Lua52,
    EmmyrcLuaVersion::Lua53,
    EmmyrcLuaVersion::Lua54,
    EmmyrcLuaVersion::Lua55,
    EmmyrcLuaVersion::LuaLatest,
];

fn render(tree: &LuaSyntaxTree) -> String {
    // kinds, ranges and token texts of the whole red tree + the error list
    format!("{:#?}\n{:?}", tree.get_red_root(), tree.get_errors())
}

fn emmyrc_for(version: usize, special: bool) -> Arc<Emmyrc> {
    let mut rc = Emmyrc::default();
    rc.runtime.version = VERSIONS[version % VERSIONS.len()];
    if special {
        rc.runtime.require_like_function.push("import".to_string());
    }
    Arc::new(rc)
}

/// One step of a history: (file slot, text, optional config switch before it)
#[derive(Clone)]
struct Step {
    slot: usize,
    text: String,
    cfg: Option<(usize, bool)>,
}

fn step_json(s: &Step) -> Value {
    json!({"slot": s.slot, "text": s.text, "cfg": s.cfg.map(|(v, sp)| json!([v, sp]))})
}

fn step_from(v: &Value) -> Step {
    Step {
        slot: v["slot"].as_u64().unwrap_or(0) as usize,
        text: v["text"].as_str().unwrap_or("").to_string(),
        cfg: v["cfg"].as_array().map(|a| (a[0].as_u64().unwrap_or(0) as usize, a[1].as_bool().unwrap_or(false))),
    }
}

/// Runs a history; returns Err((step index, description)) at the first step whose stored tree
/// differs from a fresh parse of the same text with the same (current) configuration.
fn run_history(steps: &[Step], cfg0: (usize, bool)) -> Result<usize, (usize, String)> {
    let mut vfs = Vfs::new();
    let mut cfg = cfg0;
    let mut rc = emmyrc_for(cfg.0, cfg.1);
    vfs.update_config(rc.clone());
    let mut shared_nodes = 0usize;
    for (i, st) in steps.iter().enumerate() {
        if let Some(c) = st.cfg {
            cfg = c;
            rc = emmyrc_for(cfg.0, cfg.1);
            vfs.update_config(rc.clone());
        }
        let path = PathBuf::from(format!("/c04/file{}.lua", st.slot));
        let uri = file_path_to_uri(&path).expect("uri");
        let fid = vfs.set_file_content(&uri, Some(st.text.clone()));
        let stored = vfs.get_syntax_tree(&fid).expect("tree stored");
        let mut fresh_cache = NodeCache::default();
        let fresh = LuaParser::parse(&st.text, rc.get_parse_config(&mut fresh_cache));
        let a = render(stored);
        let b = render(&fresh);
        if a != b {
            // first differing line for the report
            let (mut la, mut lb) = (a.lines(), b.lines());
            let mut n = 0;
            let mut diff = String::new();
            loop {
                match (la.next(), lb.next()) {
                    (Some(x), Some(y)) if x == y => n += 1,
                    (x, y) => {
                        diff = format!("line {n}: via-cache {:?} vs fresh {:?}", x, y);
                        break;
                    }
                }
            }
            return Err((i, diff));
        }
        // the stored tree must also still be lossless
        if stored.get_red_root().text().to_string() != st.text {
            return Err((i, "stored tree text differs from the submitted text".into()));
        }
        shared_nodes += 1;
    }
    Ok(shared_nodes)
}

fn near_duplicate(rng: &mut Rng, base: &str) -> String {
    match rng.below(6) {
        0 => base.to_string(),
        1 => soup::mutate(rng, base),
        2 => format!("{base}\nlocal extra_{} = {}\n", rng.below(5), rng.below(3)),
        3 => format!("do\n{base}\nend\n"),
        4 => {
            // move one line
            let mut lines: Vec<&str> = base.lines().collect();
            if lines.len() > 2 {
                let i = rng.below(lines.len());
                let l = lines.remove(i);
                let j = rng.below(lines.len());
                lines.insert(j, l);
            }
            lines.join("\n")
        }
        _ => format!("function wrap_{}()\n{base}\nend\n", rng.below(3)),
    }
}

fn gen_history(rng: &mut Rng, corpus: &Corpus, len: usize, switches: bool) -> (Vec<Step>, (usize, bool)) {
    let nbase = rng.range(1, 3);
    let bases: Vec<String> = (0..nbase)
        .map(|_| if rng.chance(1, 6) { soup::soup(rng, 30) } else { corpus.pick(rng).to_string() })
        .collect();
    let cfg0 = (rng.below(9), rng.chance(1, 4));
    let mut steps = Vec::new();
    for _ in 0..len {
        let b = rng.below(bases.len());
        let text = near_duplicate(rng, &bases[b]);
        let cfg = if switches && rng.chance(1, 8) { Some((rng.below(9), rng.chance(1, 4))) } else { None };
        steps.push(Step { slot: rng.below(4), text, cfg });
    }
    (steps, cfg0)
}

fn judge(ctx: &mut Ctx, steps: Vec<Step>, cfg0: (usize, bool), shrink: bool) {
    let r = guarded(|| run_history(&steps, cfg0));
    match r {
        Ok(Ok(n)) => {
            ctx.clause_n("steps-compared", n as u64);
            let mut h = 0u64;
            for s in &steps {
                h = h.wrapping_mul(31).wrapping_add(fnv(s.text.as_bytes()));
            }
            ctx.held(h, steps.len() >= 4);
            if ctx.want_sample() && steps.len() >= 4 && h % 97 == 0 {
                ctx.sample(json!({"steps": steps.len(), "cfg0": [cfg0.0, cfg0.1], "config_switches": steps.iter().filter(|s| s.cfg.is_some()).count(),
                    "first_texts": steps.iter().take(3).map(|s| clip(&s.text, 100)).collect::<Vec<_>>()}));
            }
        }
        Ok(Err((i, d))) => {
            let small = if shrink {
                crate::util::ddmin(steps.clone(), |ss| matches!(guarded(|| run_history(ss, cfg0)), Ok(Err(_))), 200)
            } else {
                steps.clone()
            };
            let d2 = match guarded(|| run_history(&small, cfg0)) {
                Ok(Err((_, d))) => d,
                _ => d,
            };
            let has_switch = small.iter().any(|s| s.cfg.is_some());
            let sig = format!("C04:tree-differs-from-fresh-parse:{}", if has_switch { "after-config-switch" } else { "same-config" });
            ctx.violated(&sig, &format!("step {i} of {}: {d2}; shrunk to {} steps", steps.len(), small.len()),
                json!({"cfg0": [cfg0.0, cfg0.1], "steps": small.iter().map(step_json).collect::<Vec<_>>()}));
        }
        Err(p) => ctx.violated(&format!("C04:panic:{}", p.sig()), &format!("{} at {}", p.message, p.location),
            json!({"cfg0": [cfg0.0, cfg0.1], "steps": steps.iter().map(step_json).collect::<Vec<_>>()})),
    }
}

pub fn run(ctx: &mut Ctx) {
    if let Some(rep) = ctx.replay.clone() {
        let steps: Vec<Step> = rep["steps"].as_array().map(|a| a.iter().map(step_from).collect()).unwrap_or_default();
        let cfg0 = (rep["cfg0"][0].as_u64().unwrap_or(8) as usize, rep["cfg0"][1].as_bool().unwrap_or(false));
        judge(ctx, steps, cfg0, false);
        println!("replay: {} violation signature(s): {:?}", ctx.sig_counts.len(), ctx.sig_counts.keys().collect::<Vec<_>>());
        return;
    }
    let corpus = Corpus::load(&ctx.repo);
    if corpus.is_empty() {
        ctx.inconclusive("corpus-empty");
        return;
    }
    let n = ctx.budget(800, 20000);
    let len = if ctx.is_quick() { 30 } else { 60 };
    for i in 0..n {
        if ctx.out_of_time() {
            break;
        }
        let mut rng = Rng::new(ctx.case_seed(i));
        let switches = i % 2 == 1;
        let (steps, cfg0) = gen_history(&mut rng, &corpus, len, switches);
        ctx.clause(if switches { "history:with-config-switches" } else { "history:same-config" });
        judge(ctx, steps, cfg0, true);
    }
}
