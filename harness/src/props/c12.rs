//! C12 — indexing and semantic queries never crash on any program.
//!
//! Per case: index a small file set through the production entry point, diagnose every file
//! with every diagnostic code enabled, and query semantic info / declaration / inferred type /
//! rendered type for every token and expression. Oracle: no panic (catch_unwind + hook), no
//! abort (announce file + isolated replay by the driver), CPU time within a generous budget.

use crate::corpus::Corpus;
use crate::gens::soup;
use crate::report::{Ctx, clip};
use crate::rng::{Rng, fnv};
use crate::util::{on_stack, thread_cpu};
use emmylua_code_analysis::{
    DiagnosticCode, EmmyLuaAnalysis, Emmyrc, EmmyrcLuaVersion, RenderLevel, SemanticDeclLevel, file_path_to_uri, humanize_type,
};
use emmylua_parser::{LuaAstNode, LuaExpr};
use serde_json::{Value, json};
use std::path::PathBuf;
use std::sync::Arc;
use tokio_util::sync::CancellationToken;

const STACK: usize = 2 << 20;
const CPU_BUDGET_S: f64 = 30.0;

const VERSIONS: [EmmyrcLuaVersion; 6] = [
    EmmyrcLuaVersion::Lua51,
    EmmyrcLuaVersion::LuaJIT,
    EmmyrcLuaVersion::Lua52,
    EmmyrcLuaVersion::Lua53,
    EmmyrcLuaVersion::Lua54,
    EmmyrcLuaVersion::LuaLatest,
];

const ADVERSARIAL: &[&str] = &[
    "---@alias A A[]\n---@type A\nlocal a\nlocal b = a[1][2]\n",
    "---@alias A B\n---@alias B A\n---@type A\nlocal x = nil\nprint(x.y)\n",
    "---@alias A A|A?\n---@param p A\nfunction f(p) return p end\nlocal r = f(1)\n",
    "---@class A: B\n---@class B: A\n---@field x integer\n---@type A\nlocal a\nprint(a.x, a.y, a:z())\n",
    "---@class A: A\n---@type A\nlocal a\nprint(a.q)\n",
    "---@class A<T>: A<T[]>\n---@type A<integer>\nlocal a\nprint(a.x)\n",
    "---@class G<T>\n---@field v T\n---@type G<G<G<G<integer>>>>\nlocal g\nprint(g.v.v.v.v.v)\n",
    "---@class X: Unknown1, Unknown2\n---@type X\nlocal x\nx.a = 1\nprint(x.a)\n",
    "---@generic T: T\n---@param a T\n---@return T\nlocal function id(a) return a end\nlocal r = id(id)\nprint(r(r))\n",
    "---@generic T\n---@param a T[]\n---@return T\nlocal function first(a) return a[1] end\nlocal r = first(first)\nlocal s = first({first, {}})\n",
    "---@generic K, V\n---@param t table<K, V>\n---@return fun(): K, V\nlocal function it(t) end\nfor k, v in it(it) do print(k, v) end\n",
    "---@class O\n---@operator add(O): O\n---@operator call(O): O\n---@operator unm: O\n---@type O\nlocal o\nlocal p = -o + o + o(o)(o)\n",
    "---@enum E\nlocal E = { A = 1, B = E, C = E.A }\n---@type E\nlocal e = E.Z\n",
    "---@enum (key) K\nlocal K = { a = K }\n---@param k K\nfunction fk(k) end\nfk('a') fk(K.a) fk(K)\n",
    "---@type table<table<string, table>, fun(a: fun(b: fun(c: fun())))>\nlocal t\nt[t][t] = t\n",
    "---@class P\n---@field [string] P\n---@field [integer] P?\n---@type P\nlocal p\nprint(p.a.b.c[1][2].d)\n",
    "---@cast x +string, -nil\n---@cast\n---@cast y\nlocal x ---@type integer?\n---@cast x -integer\nprint(x)\n",
    "---@overload fun(a: integer): string\n---@overload fun(a: string): integer\n---@overload fun(): T\nfunction ov(a) end\nlocal r = ov(ov(ov()))\n",
    "---@param ... T...\n---@return T...\n---@generic T\nfunction va(...) return ... end\nlocal a, b, c = va(va(1, 2), va())\n",
    "---@type { a: { a: { a: { [1]: integer } } } }\nlocal d\nlocal e = d.a.a.a[1] + d.a.a[1]\n",
    "---@type [integer, [string, [boolean, []]]]\nlocal tu\nlocal z = tu[2][2][2][1]\n",
    "---@type fun(...: integer...): (integer...)\nlocal fv\nlocal q, w = fv(fv())\n",
    "---@class M\nlocal M = {}\nM.__index = M\nsetmetatable(M, M)\nfunction M:new() return setmetatable({}, self) end\nlocal m = M:new():new().x.y\n",
    "local t = setmetatable({}, { __index = function(t, k) return t[k] end, __call = t })\nt()()()\n",
    "local a = a\nlocal b = b.c.d\nlocal function r() return r() end\nlocal x = r()()\nlocal y = require('self')\n",
    "---@module 'x'\n---@meta x\nreturn require('x')\n",
    "---@type string\n---@type integer\n---@class C\n---@enum C\n---@alias C C\nlocal C = C\n",
    "---@namespace N\n---@using N\n---@class N.N\n---@type N.N.N\nlocal n\n",
    "---@type keyof X\nlocal k\n---@type X extends Y and Z or W\nlocal c\n---@type `T`\nlocal tpl\n---@type -1\nlocal neg\n",
    "---@return_cast x string\n---@param x any\nfunction isstr(x) end\nlocal v ---@type integer|string\nif isstr(v) then print(v) else print(v) end\n",
    "---@diagnostic disable\n---@diagnostic enable: nope\n---@diagnostic disable-next-line: x, y,\n---@diagnostic\nlocal _ = 1\n",
    "---@see A#b\n---@deprecated\n---@async\n---@nodiscard\n---@version >5.1, JIT, <5.4\n---@source f.lua:1:2\nlocal function meta() end\nmeta()\n",
    "---@attribute x(a: integer)\n---@[x(1)]\n---@[deprecated(\"m\")]\n---@[\nlocal function attr() end\n",
    "goto done\nlocal z <const> = 1\nlocal w <close> = nil\n::done::\n::done::\ngoto nowhere\nz = 2\n",
    "for i = 1, 'x', {} do local i <const> = i; i = i + 1 end\nfor k, v in 1, 2, 3, 4 do end\nfor _ in nil do end\n",
    "local s = ('x'):rep(3):upper():nope():len()\nlocal n = #s .. #n\nlocal b = not not nil == (1 < 'a')\n",
    "return function(...) local a, b = ..., select('#', ...) return a(b, ...)(...) end, ...\n",
    "---@alias A<T> A<T> extends string and T or never\n---@generic T\n---@param v T\n---@return A<T>\nfunction f(v) end\nX = f(1)\n",
    "---@alias R<T> R<T[]>\n---@alias Q<T> T extends any and Q<T> or T\n---@type R<integer>\nlocal r\n---@type Q<string>\nlocal q\nprint(r[1], q.x)\n",
];

/// Type declarations that refer to themselves (directly, mutually, through generics, through
/// inheritance) …
const RECURSIVE_DECLS: &[(&str, &str)] = &[
    ("---@alias Loop Loop|string\n", "Loop"),
    ("---@alias Arr Arr[]\n", "Arr"),
    ("---@alias P Q\n---@alias Q P?\n", "P"),
    ("---@alias Opt Opt?\n", "Opt"),
    ("---@alias Fn fun(a: Fn): Fn\n", "Fn"),
    ("---@alias Tbl table<Tbl, Tbl>\n", "Tbl"),
    ("---@alias Tup [Tup, Tup?]\n", "Tup"),
    ("---@alias G<T> G<T[]>|T\n", "G<integer>"),
    ("---@alias C<T> T extends string and C<T> or C<T[]>\n", "C<string>"),
    ("---@class Self: Self\n---@field next Self\n", "Self"),
    ("---@class X1: Y1\n---@class Y1: X1\n---@field f X1\n", "X1"),
    ("---@class Gen<T>: Gen<Gen<T>>\n---@field v T\n", "Gen<string>"),
    ("---@class Op\n---@operator add(Op): Op\n---@operator call(Op): Op\n---@operator index(Op): Op\n---@operator concat(Op): Op\n", "Op"),
    ("---@enum En\nEn = { A = 1, B = En }\n", "En"),
];

/// … and every way a value of such a type can be used.
const USAGES: &[&str] = &[
    "local i = 1\nlocal r = v[i]\n",
    "local r = v[v]\n",
    "local r = v.field.field\n",
    "local r = v[1][2][3]\n",
    "local r = v()\nlocal s = v(v)(v)\n",
    "local r = v:method(v)\n",
    "local r = v + v\nlocal s = -v\nlocal t = v .. v\nlocal u = #v\n",
    "local r = v == v\nlocal s = v < v\nlocal t = not v\nlocal u = v and v or v\n",
    "for k, x in pairs(v) do local y = x[k] end\nfor _, x in ipairs(v) do end\nfor x in v do end\n",
    "if v then local w = v.a elseif type(v) == 'string' then local w = v:upper() else local w = v[1] end\n",
    "---@param p T\n---@generic T\n---@return T\nlocal function id(p) return p end\nlocal r = id(v)\nlocal s = id(v).x\n",
    "---@type T\nlocal w = v\nw = v\nv.x = w\nv[1] = v\n",
    "local function f(...) return ... end\nlocal a, b = f(v, v)\nlocal t = { v, x = v, [v] = v }\nlocal r = t.x.y\n",
    "---@cast v -nil\n---@cast v +string\nlocal r = v\nlocal s = v --[[@as T]]\n",
    "local r = setmetatable({}, { __index = v })\nlocal s = r.x\nlocal t = setmetatable(v, v)\n",
];

/// One recursive declaration x one usage (enumerated exhaustively in every run).
fn recursive_case(d: usize, u: usize) -> String {
    let (decl, tyname) = RECURSIVE_DECLS[d % RECURSIVE_DECLS.len()];
    let mut t = String::from(decl);
    t.push_str(&format!("---@type {tyname}\nlocal v\n"));
    t.push_str(&USAGES[u % USAGES.len()].replace("---@type T", &format!("---@type {tyname}")).replace("--[[@as T]]", &format!("--[[@as {tyname}]]")));
    t
}

/// Annotation types, well-formed and malformed (wrong arity for built-in and declared generics, empty
/// forms), paired exhaustively in every type-check position (family "type-matrix").
const MATRIX_TYPES: &[&str] = &[
    "table<string, number>", "table<string>", "table<>", "table<string, number, boolean>", "table", "table<K2, V2>",
    "string[]", "string[][]", "[integer, string]", "[]", "[integer]", "{ a: integer }", "{}", "{ [string]: boolean }", "{ [1]: string, a?: nil }",
    "fun()", "fun(a: integer): string", "fun(...: integer): ...", "fun<T>(a: T): T", "async fun(): integer",
    "G2<integer, string>", "G2<integer>", "G2", "G2<integer, string, boolean>", "G2<G2<integer>, G2>", "G1<string>", "G1<>", "G1<string, string>",
    "A", "B", "A|B", "A & B", "A?", "A[]", "keyof A", "A.x", "Undefined1", "Undefined1<integer>",
    "integer", "integer?", "number|string", "\"lit\"", "1", "-1", "true", "nil", "any", "unknown", "never", "void", "self", "`T`", "T...", "...integer",
    "E1", "E1[]", "Al", "Al<integer>", "std.Nullable<string>", "std.Nullable", "std.Partial<A>", "std.Partial",
];

fn matrix_case(a: usize, b: usize) -> String {
    let d = MATRIX_TYPES[a % MATRIX_TYPES.len()];
    let s = MATRIX_TYPES[b % MATRIX_TYPES.len()];
    format!(
        "---@class G2<K, V>\n---@field k K\n---@field v V\n---@class G1<T>: G2<T, T>\n---@class A\n---@field x integer\n---@class B: A\n---@enum E1\nlocal E1 = {{ a = 1 }}\n---@alias Al<T> T | T[]\n\
---@type {d}\nlocal dst\n---@type {s}\nlocal src\ndst = src\n---@param p {d}\nlocal function use(p) return p end\nuse(src)\nlocal r0 = use(src)\n---@return {d}\nlocal function ret() return src end\n\
local c = src --[[@as {d}]]\n---@type ({d})[]\nlocal arr = {{ src }}\n---@type table<string, {d}>\nlocal map = {{ k = src }}\n---@class H\n---@field f {d}\n---@type H\nlocal h = {{ f = src }}\nh.f = src\n\
---@generic T\n---@param x T\n---@param y T\n---@return T\nlocal function same(x, y) return x end\nlocal r1 = same(dst, src)\n---@cast dst {s}\nlocal r2 = dst == src\nfor k, v in pairs(src) do local w = dst[k] end\nlocal r3 = src[1]\nlocal r4 = src.k\n"
    )
}

struct Case {
    files: Vec<(String, String)>, // (relative path, text)
    version: usize,
    strict: u8,
    family: &'static str,
}

fn gen_case(rng: &mut Rng, corpus: &Corpus) -> Case {
    let nfiles = rng.range(1, 3);
    let mut files = Vec::new();
    // recursive-types cases run in a child process each (and are re-run under gdb when they die):
    // a small share is enough, every (declaration, usage) pair is reached within a few runs
    let family: &'static str = match rng.below(10) {
        0..=3 => "corpus-mutant",
        4..=5 => "adversarial",
        6 => "corpus",
        7..=8 => "annot-soup",
        _ => "splice",
    };
    for i in 0..nfiles {
        let text = match family {
            "corpus-mutant" => {
                let b = corpus.pick(rng);
                soup::mutate(rng, b)
            }
            "adversarial" => {
                let mut t = rng.pick(ADVERSARIAL).to_string();
                if rng.bool() {
                    t.push_str(rng.pick(ADVERSARIAL));
                }
                if rng.chance(1, 3) {
                    t = soup::mutate(rng, &t);
                }
                t
            }
            "corpus" => corpus.pick(rng).to_string(),
            "annot-soup" => {
                // annotation-heavy soup: doc tags on their own lines, glued to simple statements
                let n = rng.range(3, 25);
                let mut t = String::new();
                for _ in 0..n {
                    match rng.below(4) {
                        0 | 1 => {
                            t.push_str(rng.pick(soup::DOC_TAGS));
                            t.push('\n');
                        }
                        2 => {
                            t.push_str(rng.pick(&["local x = 1\n", "local function f(a, ...) return a end\n", "x = x.y:z()\n", "return x\n", "local t = { a = 1, [2] = f }\n", "function M.f(self) end\n", "for k, v in pairs(t) do end\n", "if x then x = nil end\n"]));
                        }
                        _ => {
                            t.push_str(&soup::soup(rng, 6));
                            t.push('\n');
                        }
                    }
                }
                t
            }
            _ => {
                // splice two corpus files at a token boundary
                let a = corpus.pick(rng).to_string();
                let b = corpus.pick(rng);
                let pa = soup::split_keep_ws(&a);
                let pb = soup::split_keep_ws(b);
                let ca = rng.below(pa.len().max(1));
                let cb = rng.below(pb.len().max(1));
                let mut t: String = pa[..ca].concat();
                t.push_str(&pb[cb..].concat());
                t
            }
        };
        let name = if i == 0 { "main.lua".to_string() } else if rng.bool() { format!("mod{i}.lua") } else { format!("lib/sub{i}/init.lua") };
        files.push((name, text));
    }
    Case { files, version: rng.below(VERSIONS.len()), strict: rng.below(32) as u8, family }
}

fn case_json(c: &Case) -> Value {
    // signature the driver uses if the worker dies on this case (a stack overflow escapes catch_unwind): the
    // kinds of self-referential declarations the case contains — the open finding of this property is about
    // exactly those, an abort of a case without any is always a new violation
    let abort_sig = format!("C12:abort:stack-overflow:recursive-decls={}", recursive_decl_class(&c.files));
    json!({"files": c.files.iter().map(|(n, t)| json!([n, t])).collect::<Vec<_>>(), "version": c.version, "strict": c.strict, "family": c.family, "abort_sig": abort_sig})
}

/// "alias-self", "class-cycle", "alias-class-same-name" (joined by '+') or "none".
fn recursive_decl_class(files: &[(String, String)]) -> String {
    use std::collections::{BTreeMap, BTreeSet};
    let word = |s: &str| -> String { s.chars().take_while(|c| c.is_alphanumeric() || *c == '_' || *c == '.').collect() };
    let has_word = |hay: &str, w: &str| -> bool {
        let mut i = 0;
        while let Some(p) = hay[i..].find(w) {
            let s = i + p;
            let e = s + w.len();
            let before = hay[..s].chars().next_back().map(|c| c.is_alphanumeric() || c == '_').unwrap_or(false);
            let after = hay[e..].chars().next().map(|c| c.is_alphanumeric() || c == '_').unwrap_or(false);
            if !before && !after {
                return true;
            }
            i = e;
        }
        false
    };
    let mut aliases: BTreeSet<String> = BTreeSet::new();
    let mut classes: BTreeMap<String, Vec<String>> = BTreeMap::new();
    let mut alias_self = false;
    let mut alias_bodies: Vec<(String, String)> = Vec::new();
    for (_, t) in files {
        for line in t.lines() {
            let l = line.trim_start();
            if let Some(rest) = l.strip_prefix("---@alias") {
                let rest = rest.trim_start();
                let name = word(rest);
                if name.is_empty() {
                    continue;
                }
                let body = &rest[name.len()..];
                // skip the generic parameter list
                let body = if body.starts_with('<') { body.split_once('>').map(|x| x.1).unwrap_or("") } else { body };
                if has_word(body, &name) {
                    alias_self = true;
                }
                alias_bodies.push((name.clone(), body.to_string()));
                aliases.insert(name);
            } else if let Some(rest) = l.strip_prefix("---@class").or_else(|| l.strip_prefix("---@enum")) {
                let rest = rest.trim_start();
                let rest = if rest.starts_with('(') { rest.split_once(')').map(|x| x.1.trim_start()).unwrap_or("") } else { rest };
                let name = word(rest);
                if name.is_empty() {
                    continue;
                }
                let after = &rest[name.len()..];
                let after = if after.starts_with('<') { after.split_once('>').map(|x| x.1).unwrap_or("") } else { after };
                let supers: Vec<String> = after.trim_start().strip_prefix(':').map(|s| s.split(',').map(|x| word(x.trim())).filter(|x| !x.is_empty()).collect()).unwrap_or_default();
                classes.entry(name).or_default().extend(supers);
            }
        }
    }
    // aliases that reach themselves through other aliases (`R<T> = Q<T>`, `Q<T> = … R<T[]> …`)
    for (start, _) in &alias_bodies {
        let mut seen = BTreeSet::new();
        let mut stack = vec![start.clone()];
        while let Some(n) = stack.pop() {
            for (a, body) in &alias_bodies {
                if *a != n {
                    continue;
                }
                for (b, _) in &alias_bodies {
                    if has_word(body, b) {
                        if b == start {
                            alias_self = true;
                        }
                        if seen.insert(b.clone()) {
                            stack.push(b.clone());
                        }
                    }
                }
            }
        }
    }
    // cycle in the super-class relation
    let mut cycle = false;
    for start in classes.keys() {
        let mut seen = BTreeSet::new();
        let mut stack = vec![start.clone()];
        while let Some(n) = stack.pop() {
            for s in classes.get(&n).cloned().unwrap_or_default() {
                if &s == start {
                    cycle = true;
                }
                if seen.insert(s.clone()) {
                    stack.push(s);
                }
            }
        }
    }
    let clash = aliases.iter().any(|a| classes.contains_key(a));
    let mut v = Vec::new();
    if alias_self {
        v.push("alias-self");
    }
    if cycle {
        v.push("class-cycle");
    }
    if clash {
        v.push("alias-class-same-name");
    }
    if v.is_empty() { "none".into() } else { v.join("+") }
}

fn case_from(v: &Value) -> Case {
    Case {
        files: v["files"].as_array().map(|a| a.iter().map(|f| (f[0].as_str().unwrap_or("main.lua").to_string(), f[1].as_str().unwrap_or("").to_string())).collect()).unwrap_or_default(),
        version: v["version"].as_u64().unwrap_or(5) as usize,
        strict: v["strict"].as_u64().unwrap_or(0) as u8,
        family: if v["family"] == "type-matrix" { "type-matrix" } else { "replay" },
    }
}

#[derive(Default)]
struct Stats {
    diagnostics: usize,
    tokens: usize,
    infos: usize,
    decls: usize,
    exprs: usize,
    rendered: usize,
}

fn exercise(c: &Case) -> Stats {
    let mut st = Stats::default();
    let mut rc = Emmyrc::default();
    rc.runtime.version = VERSIONS[c.version % VERSIONS.len()];
    rc.strict.require_path = c.strict & 1 != 0;
    rc.strict.type_call = c.strict & 2 != 0;
    rc.strict.array_index = c.strict & 4 != 0;
    rc.strict.meta_override_file_define = c.strict & 8 != 0;
    rc.strict.doc_base_const_match_base_type = c.strict & 16 != 0;
    rc.diagnostics.enables = DiagnosticCode::all();
    let rc = Arc::new(rc);
    let mut analysis = EmmyLuaAnalysis::new();
    analysis.update_config(rc);
    let root = PathBuf::from("/c12ws");
    analysis.add_main_workspace(root.clone());
    let files: Vec<_> = c.files.iter().filter_map(|(n, t)| file_path_to_uri(&root.join(n)).map(|u| (u, Some(t.clone())))).collect();
    let ids = analysis.update_files_by_uri(files);
    let mut ids = ids;
    ids.sort();
    for id in &ids {
        if let Some(d) = analysis.diagnose_file(*id, CancellationToken::new()) {
            st.diagnostics += d.len();
        }
    }
    for id in &ids {
        let Some(model) = analysis.compilation.get_semantic_model(*id) else { continue };
        let db = model.get_db();
        let root = model.get_root().syntax().clone();
        let mut seen_types: std::collections::HashSet<String> = std::collections::HashSet::new();
        for el in root.descendants_with_tokens() {
            match el {
                rowan::NodeOrToken::Token(t) => {
                    st.tokens += 1;
                    if let Some(info) = model.get_semantic_info(t.clone().into()) {
                        st.infos += 1;
                        let key = format!("{:?}", info.typ);
                        if key.len() < 4000 && seen_types.insert(key) && seen_types.len() <= 64 {
                            for lvl in [RenderLevel::Documentation, RenderLevel::Detailed, RenderLevel::Simple, RenderLevel::Normal, RenderLevel::Brief, RenderLevel::Minimal, RenderLevel::CustomDetailed(3)] {
                                let s = humanize_type(db, &info.typ, lvl);
                                st.rendered += s.len().min(1);
                            }
                        }
                    }
                    if model.find_decl(t.into(), SemanticDeclLevel::default()).is_some() {
                        st.decls += 1;
                    }
                }
                rowan::NodeOrToken::Node(n) => {
                    if let Some(e) = LuaExpr::cast(n) {
                        st.exprs += 1;
                        if let Ok(ty) = model.infer_expr(e) {
                            let key = format!("{ty:?}");
                            if key.len() < 4000 && seen_types.insert(key) && seen_types.len() <= 64 {
                                let s = humanize_type(db, &ty, RenderLevel::Detailed);
                                st.rendered += s.len().min(1);
                            }
                        }
                    }
                }
            }
        }
    }
    st
}

fn run_one(c: &Case) -> Result<(f64, Stats), crate::util::PanicInfo> {
    crate::util::guarded(|| {
        let t0 = thread_cpu();
        let st = exercise(c);
        (thread_cpu() - t0, st)
    })
}

fn judge(ctx: &mut Ctx, c: &Case, idx: u64, pre: Option<Result<(f64, Stats), crate::util::PanicInfo>>) {
    let cj = case_json(c);
    let r = match pre {
        Some(r) => r,
        None => {
            ctx.announce(&cj);
            on_stack(STACK, || run_one(c)).and_then(|x| x)
        }
    };
    ctx.clause(&format!("family:{}", c.family));
    match r {
        Ok((cpu, st)) => {
            if cpu > CPU_BUDGET_S {
                // confirm
                let again = on_stack(STACK, || {
                    let t0 = thread_cpu();
                    let _ = exercise(c);
                    thread_cpu() - t0
                });
                match again {
                    Ok(c2) if c2 > CPU_BUDGET_S => {
                        ctx.violated("C12:cpu-budget-exceeded", &format!("case cost {cpu:.1}s / {c2:.1}s CPU (budget {CPU_BUDGET_S}s; median case is milliseconds)"), cj);
                        return;
                    }
                    _ => ctx.inconclusive("cpu-overrun-not-repeatable"),
                }
            }
            ctx.clause("no-panic:index+diagnose+queries");
            ctx.clause_n("queries:semantic-info", st.infos as u64);
            ctx.clause_n("queries:find-decl", st.decls as u64);
            ctx.clause_n("queries:infer-expr", st.exprs as u64);
            ctx.clause_n("queries:humanize", st.rendered as u64);
            ctx.clause_n("diagnostics-produced", st.diagnostics as u64);
            let mut h = (c.version as u64) << 8 | c.strict as u64;
            for (n, t) in &c.files {
                h = h.wrapping_mul(1099511628211).wrapping_add(fnv(n.as_bytes()) ^ fnv(t.as_bytes()));
            }
            ctx.held(h, st.tokens >= 12 && st.exprs >= 1);
            if ctx.want_sample() && idx % 331 == 7 && st.tokens >= 12 {
                ctx.sample(json!({"family": c.family, "files": c.files.iter().map(|(n, t)| json!({"name": n, "text": clip(t, 240)})).collect::<Vec<_>>(),
                    "tokens": st.tokens, "semantic_infos": st.infos, "exprs": st.exprs, "diagnostics": st.diagnostics, "cpu_ms": (cpu * 1000.0) as u64}));
            }
        }
        Err(p) => {
            // shrink: fewer files, then pieces of the failing file
            let sig = format!("C12:panic:{}", p.sig());
            let mut cur = Case { files: c.files.clone(), version: c.version, strict: c.strict, family: c.family };
            let fails = |cc: &Case| -> bool { matches!(on_stack(STACK, || exercise(cc)), Err(ref q) if q.sig() == p.sig()) };
            if cur.files.len() > 1 {
                for i in (0..cur.files.len()).rev() {
                    let mut cand = Case { files: cur.files.clone(), version: cur.version, strict: cur.strict, family: cur.family };
                    cand.files.remove(i);
                    if !cand.files.is_empty() && fails(&cand) {
                        cur = cand;
                    }
                }
            }
            for fi in 0..cur.files.len() {
                let pieces = soup::split_keep_ws(&cur.files[fi].1);
                if pieces.len() > 400 {
                    continue;
                }
                let base_files = cur.files.clone();
                let (v, s, f) = (cur.version, cur.strict, cur.family);
                let small = crate::util::ddmin(pieces, |ps| {
                    let mut files = base_files.clone();
                    files[fi].1 = ps.concat();
                    fails(&Case { files, version: v, strict: s, family: f })
                }, 250);
                cur.files[fi].1 = small.concat();
            }
            ctx.violated(&sig, &format!("{} at {}; frames {:?}; shrunk files: {:?}", p.message, p.location, p.frames, cur.files.iter().map(|(n, t)| format!("{n}: {}", clip(t, 300))).collect::<Vec<_>>()), case_json(&cur));
        }
    }
}

pub fn run(ctx: &mut Ctx) {
    if let Some(rep) = ctx.replay.clone() {
        let c = case_from(&rep);
        judge(ctx, &c, 0, None);
        println!("replay: signatures {:?}", ctx.sig_counts.keys().collect::<Vec<_>>());
        return;
    }
    let corpus = Corpus::load(&ctx.repo);
    if corpus.is_empty() {
        ctx.inconclusive("corpus-empty");
        return;
    }
    let n = ctx.budget(1500, 60_000);
    // ---- recursive type declarations x usages: every pair, every run, one sacrificial child process
    //      each (a stack overflow aborts the process); the signature is the pair itself ----------
    let pairs = RECURSIVE_DECLS.len() * USAGES.len();
    for k in 0..pairs {
        if k % ctx.nshards.max(1) as usize != ctx.shard as usize {
            continue;
        }
        let (d, u) = (k / USAGES.len(), k % USAGES.len());
        let c = Case { files: vec![("main.lua".to_string(), recursive_case(d, u))], version: 5, strict: 0, family: "recursive-types" };
        let cj = case_json(&c);
        ctx.clause("family:recursive-types");
        let tyname = RECURSIVE_DECLS[d].1.split('<').next().unwrap_or("");
        match crate::util::isolated("C12", &cj, &ctx.work.clone(), 600) {
            crate::util::ChildOutcome::Held => {
                ctx.clause("no-panic:index+diagnose+queries");
                ctx.held(fnv(c.files[0].1.as_bytes()), true);
            }
            crate::util::ChildOutcome::Violated(_) => judge(ctx, &c, 0, None),
            crate::util::ChildOutcome::Died(sig) => {
                // confirm once
                if let crate::util::ChildOutcome::Died(_) = crate::util::isolated("C12", &cj, &ctx.work.clone(), 600) {
                    ctx.violated(&format!("C12:abort:recursive-type:decl={tyname}:use={u}"), &format!("process killed by signal {sig} (stack overflow) analysing {:?}", c.files[0].1), cj);
                } else {
                    ctx.inconclusive("child-death-not-repeatable");
                }
            }
            crate::util::ChildOutcome::Timeout => ctx.inconclusive("child-watchdog"),
            crate::util::ChildOutcome::Error(e) => ctx.inconclusive(&format!("child-error:{}", clip(&e, 40))),
        }
    }

    // ---- type matrix: every (declared type, source type) pair in every type-check position, every run ----
    let nt = MATRIX_TYPES.len();
    let mine: Vec<usize> = (0..nt * nt).filter(|k| k % ctx.nshards.max(1) as usize == ctx.shard as usize).collect();
    for chunk in mine.chunks(40) {
        if ctx.out_of_time() {
            break;
        }
        let cases: Vec<Case> = chunk.iter().map(|k| Case { files: vec![("main.lua".to_string(), matrix_case(k / nt, k % nt))], version: 5, strict: (k % 32) as u8, family: "type-matrix" }).collect();
        run_batch(ctx, cases, 1_000_000 + chunk[0] as u64);
    }

    // batches of cases run on ONE 2 MiB-stack thread (a thread per case costs more than the case);
    // each case is announced from inside the batch so that an abort is attributed to it
    let batch = 40u64;
    let mut i = 0u64;
    while i < n {
        if ctx.out_of_time() {
            break;
        }
        let hi = (i + batch).min(n);
        let cases: Vec<Case> = (i..hi).map(|k| gen_case(&mut Rng::new(ctx.case_seed(k)), &corpus)).collect();
        run_batch(ctx, cases, i);
        i = hi;
    }
}

fn run_batch(ctx: &mut Ctx, cases: Vec<Case>, base: u64) {
    let results = {
        let ctx_cell = std::sync::Mutex::new(&mut *ctx);
        on_stack(STACK, || {
            cases
                .iter()
                .map(|c| {
                    ctx_cell.lock().unwrap().announce(&case_json(c));
                    run_one(c)
                })
                .collect::<Vec<_>>()
        })
    };
    match results {
        Ok(rs) => {
            for (k, (c, r)) in cases.iter().zip(rs.into_iter()).enumerate() {
                judge(ctx, c, base + k as u64, Some(r));
            }
        }
        Err(_) => ctx.inconclusive("batch-thread-failed"),
    }
}
