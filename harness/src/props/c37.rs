//! C37 — doc-comment markup highlighting is total and in bounds.
//!
//! Generated doc-comment bodies (markup fragment soup × multi-byte text × indentation) are wrapped in
//! comment prefixes, parsed with the real Lua parser, and every `LuaDocDescription` is pushed through
//! `emmylua_parser_desc::parse` for every flavour (Md, MyST ± domain, RST ± domain ± default role) with
//! `cursor_position` None and a sweep of cursor offsets.
//!
//! Clauses: (a) no panic; (b) every item range lies inside the description (see `bounds`), on char
//! boundaries and inside the text; (c) item starts are non-decreasing.

use crate::report::{Ctx, clip};
use crate::rng::{Rng, fnv};
use crate::util::guarded;
use emmylua_parser::{LuaAstNode, LuaDocDescription, LuaParser, LuaTokenKind, ParserConfig};
use emmylua_parser_desc::{DescItem, DescParserType};
use rowan::Direction;
use serde_json::json;

pub fn flavours() -> Vec<(&'static str, DescParserType)> {
    vec![
        ("md", DescParserType::Md),
        ("myst", DescParserType::MySt { primary_domain: None }),
        ("myst+lua", DescParserType::MySt { primary_domain: Some("lua".into()) }),
        ("rst", DescParserType::Rst { primary_domain: None, default_role: None }),
        ("rst+lua", DescParserType::Rst { primary_domain: Some("lua".into()), default_role: None }),
        ("rst+lua+role", DescParserType::Rst { primary_domain: Some("lua".into()), default_role: Some("lua:obj".into()) }),
        ("rst+role", DescParserType::Rst { primary_domain: None, default_role: Some("any".into()) }),
        ("rst+py+role", DescParserType::Rst { primary_domain: Some("py".into()), default_role: Some("func".into()) }),
    ]
}

const INLINE: &[&str] = &[
    "text", "word", "*", "**", "***", "_", "__", "`", "``", "```", "*em*", "**strong**", "`code`", "``code``", "*unterminated", "**unterminated", "`unterminated",
    "[link](http://x)", "[link](", "[link]", "[", "]", "](", "(", ")", "![img](x)", "<http://x>", "<", ">", "\\", "\\*", "\\`", "{@link Foo}", "{@link Foo.bar text}", "{@link",
    "{@", "{", "}", "@see x", ":lua:obj:`a.b`", ":func:`f`", ":lua:`x`", ":role:`", ":role:", ":`x`", "`x`_", "`x`__", "x_", "|sub|", "|", "`a <b>`", ":lua:obj:`title <a.b>`",
    ":lua:obj:`~a.b`", ":lua:obj:`!a`", "{lua:obj}`a.b`", "{lua:obj}`", "{role}", "$math$", "$$", "$", "é", "名前", "😀", "e\u{301}", "\u{a0}", "\u{2028}", "\t", "  ", " ", "a.b.c", "a:b()",
    "a[1]", "--", "---", "----", "#", "@", "@param", "::", ":", "..", "...", "!", "~", "^", "&amp;", "<b>", "</b>", "\"", "'", "“q”", "«q»", "¡", "1.", "(1)", "a)", "-", "+", "=", "==",
];
const BLOCK_STARTS: &[&str] = &[
    "", "", "", "# ", "## ", "###### ", "####### ", "> ", ">", "> > ", "- ", "* ", "+ ", "1. ", "1) ", "(1) ", "a. ", "A) ", "#. ", "i. ", "    ", "        ", "\t", "  ", " ", "```", "```lua", "```lua ",
    "````", "~~~", "~~~json", "```sql", "```shell", "```vim", "```protobuf", "```Other", "``` lua extra", "`````````````````````", "```{directive}", "```{code-block} lua", "```{lua:function} f(a, b)",
    "~~~{note}", ":::{note}", ":::", "::::{x} y", ":param x: y", ":option: value", "---", "===", "***", "___", "- - -", "====", "----", "~~~~", "^^^^", "\"\"\"\"", "=== ===", "+---+---+", "| a | b |",
    "|---|---|", ".. ", ".. note::", ".. code-block:: lua", ".. code-block::", ".. lua:function:: f(a)", ".. _target:", ".. [1] footnote", ".. |sub| replace:: x", ".. comment", "..", "::", "text::",
    ":field: value", ":field:", ">>> doctest", "| line block", "$$", "$$ x $$", "\\[", "term", "   :opt: v", "   indented", "[ref]: http://x", "<div>", "</div>", "<!-- c", "-->",
];
const CODE_LINES: &[&str] = &[
    "local x = 1", "function f() end", "\"str", "'a' .. [[long", "]]", "--[[ c", "-- c", "{\"a\": [1, 2.5e3, null, true]}", "{\"a", "SELECT * FROM t WHERE a = 'x'; -- c", "/* c", "*/",
    "echo \"$HOME\" | grep -v 'x' # c", "cat <<EOF", "EOF", "$(cmd `x`)", "let g:x = 1 \" c", "function! F()", "message M { optional int32 a = 1; } // c", "syntax = \"proto3\";", "é😀名", "\t\t", "0x1p4 1e+ 1..2",
    "@decorator", "a.b:c(d)[e]", "\\", "`", "```", "~~~", "'unterminated", "\"\\", "$'\\n'", "${a:-b}", "0b1 0o7 .5 5.", "<<<'x'", "'''", "E'x'", "$$tag$$",
];
const PREFIXES: &[&str] = &["---", "---", "---", "--- ", "--- ", "---  ", "---\t", "--", "-- ", "----", "-----", "---@param x int ", "---@return int # ", "---@field a b ", "---| 'a' # ", "---@class A ", "---@type T ", "---@see ", "---- ", "---é"];

fn gen_line(rng: &mut Rng) -> String {
    let mut s = String::new();
    s.push_str(rng.pick(BLOCK_STARTS));
    if rng.chance(1, 5) {
        s.push_str(rng.pick(BLOCK_STARTS));
    }
    if rng.chance(1, 4) {
        s.push_str(rng.pick(CODE_LINES));
    }
    let n = match rng.below(6) {
        0 => 0,
        _ => rng.range(0, 7),
    };
    for _ in 0..n {
        s.push_str(rng.pick(INLINE));
        if rng.chance(2, 3) {
            s.push(' ');
        }
    }
    s
}

/// Well-formed sequences of fenced code blocks in one comment: every embedded-language lexer
/// runs on a non-empty body, and the lexer state of one block (e.g. an unterminated block
/// comment or long string) must not leak into the next block.
fn gen_fence_sequence(rng: &mut Rng) -> Vec<String> {
    const LANGS: &[&str] = &["lua", "sql", "json", "shell", "vim", "protobuf", "Lua", "vimscript", "", "other"];
    let mut lines = Vec::new();
    if rng.bool() {
        lines.push("--- some text before\n".to_string());
    }
    for _ in 0..rng.range(2, 4) {
        let fence = if rng.chance(1, 4) { "~~~" } else { "```" };
        lines.push(format!("--- {fence}{}\n", rng.pick(LANGS)));
        for _ in 0..rng.range(1, 3) {
            lines.push(format!("--- {}\n", rng.pick(CODE_LINES)));
        }
        lines.push(format!("--- {fence}\n"));
        if rng.chance(1, 3) {
            lines.push(format!("--- {}\n", gen_line(rng)));
        }
    }
    lines.push("local function f(x) end\n".to_string());
    lines
}

/// A case is a list of source lines (comment prefix + body); the list is what ddmin shrinks.
fn gen_case(rng: &mut Rng, max_lines: usize) -> Vec<String> {
    if rng.chance(1, 6) {
        return gen_fence_sequence(rng);
    }
    let n = rng.range(1, max_lines);
    let style = rng.below(10);
    let base_prefix = rng.pick(PREFIXES);
    let mut lines = Vec::new();
    let eol = if rng.chance(1, 8) { "\r\n" } else { "\n" };
    if style == 0 {
        // long-bracket comment
        lines.push(format!("--[[{}", if rng.bool() { "-" } else { "" }));
    }
    for i in 0..n {
        let body = gen_line(rng);
        let prefix = if style == 0 {
            ""
        } else if i == 0 || rng.chance(1, 6) {
            rng.pick(PREFIXES)
        } else if style <= 6 {
            "---"
        } else {
            base_prefix
        };
        let indent = if rng.chance(1, 6) { rng.pick(&["  ", "\t", "    "]) } else { "" };
        lines.push(format!("{indent}{prefix}{body}{eol}"));
        if rng.chance(1, 15) {
            lines.push(format!("local v{i} = {i}{eol}")); // splits the comment block
        }
    }
    if style == 0 {
        lines.push("]]\n".to_string());
    } else if rng.bool() {
        lines.push("local function f(x) end\n".to_string());
    }
    lines
}

#[derive(Clone, Debug)]
pub struct Bad {
    pub clause: String,
    pub flavour: String,
    pub disc: String,
    pub detail: String,
}

pub struct Stats {
    pub descs: usize,
    pub calls: usize,
    pub items: usize,
    pub in_prefix: usize,
    pub tie_order: usize,
    pub max_items: usize,
}

/// hull of admissible item positions for one description: the description node itself, extended to the
/// start of the `---` token in front of it when that token is its previous sibling (the description
/// parser reads the text after the dashes of that token as the first line).
fn bounds(desc: &LuaDocDescription) -> (usize, usize, usize) {
    let r = desc.get_range();
    let (s, e) = (usize::from(r.start()), usize::from(r.end()));
    let prev = desc.syntax().siblings_with_tokens(Direction::Prev).skip(1).find(|t| t.kind() != LuaTokenKind::TkWhitespace.into());
    let hull_start = match prev {
        Some(t) if t.kind() == LuaTokenKind::TkNormalStart.into() => usize::from(t.text_range().start()).min(s),
        _ => s,
    };
    (hull_start, s, e)
}

fn check_items(text: &str, items: &[DescItem], hull: (usize, usize, usize), flavour: &str, cursor: Option<usize>, st: &mut Stats) -> Option<Bad> {
    let (hs, ds, de) = hull;
    let mut prev_start = 0usize;
    let mut prev_len = usize::MAX;
    for (i, it) in items.iter().enumerate() {
        let (s, e) = (usize::from(it.range.start()), usize::from(it.range.end()));
        let kind = format!("{:?}", it.kind);
        let kind = kind.split('(').next().unwrap_or("").to_string();
        if e > text.len() {
            return Some(Bad { clause: "range-outside-text".into(), flavour: flavour.into(), disc: format!("kind={kind}"), detail: format!("item {i} {kind} {s}..{e}, text len {}", text.len()) });
        }
        if !text.is_char_boundary(s) || !text.is_char_boundary(e) {
            return Some(Bad { clause: "not-char-boundary".into(), flavour: flavour.into(), disc: format!("kind={kind}"), detail: format!("item {i} {kind} {s}..{e} splits a character; cursor {cursor:?}") });
        }
        if s < hs || e > de {
            let side = if s < hs { "before-start" } else { "after-end" };
            return Some(Bad { clause: "outside-description".into(), flavour: flavour.into(), disc: format!("kind={kind}:{side}"), detail: format!("item {i} {kind} {s}..{e} but the description is {ds}..{de} (comment prefix from {hs}); cursor {cursor:?}") });
        }
        if s < ds {
            st.in_prefix += 1;
        }
        if i > 0 && s < prev_start {
            return Some(Bad { clause: "unsorted".into(), flavour: flavour.into(), disc: format!("kind={kind}"), detail: format!("item {i} {kind} starts at {s} after an item starting at {prev_start}; cursor {cursor:?}") });
        }
        if i > 0 && s == prev_start && e - s > prev_len {
            st.tie_order += 1; // implementation's own tie-break (longer first) not kept: counted, not a verdict
        }
        prev_start = s;
        prev_len = e - s;
    }
    st.items += items.len();
    st.max_items = st.max_items.max(items.len());
    None
}

/// Run every flavour × cursor over every description of `text`. First problem wins.
pub fn eval(text: &str, full_cursor_sweep: bool) -> (Option<Bad>, Stats) {
    eval_only(text, full_cursor_sweep, None)
}

/// `only`: restrict to one flavour (used to attribute a CPU overrun).
pub fn eval_only(text: &str, full_cursor_sweep: bool, only: Option<&str>) -> (Option<Bad>, Stats) {
    let mut st = Stats { descs: 0, calls: 0, items: 0, in_prefix: 0, tie_order: 0, max_items: 0 };
    let tree = match guarded(|| LuaParser::parse(text, ParserConfig::default())) {
        Ok(t) => t,
        Err(_) => return (None, st), // parser crashes are C02's subject; nothing to observe here
    };
    let descs: Vec<LuaDocDescription> = tree.get_chunk_node().descendants::<LuaDocDescription>().collect();
    st.descs = descs.len();
    for desc in descs {
        let hull = bounds(&desc);
        let mut cursors: Vec<Option<usize>> = vec![None];
        let step = if full_cursor_sweep { 1 } else { 8 };
        let mut o = hull.0.saturating_sub(2);
        while o <= hull.2 + 2 {
            cursors.push(Some(o));
            o += step;
        }
        cursors.push(Some(hull.2));
        cursors.push(Some(0));
        cursors.push(Some(text.len()));
        cursors.push(Some(text.len() + 7));
        for (fname, kind) in flavours() {
            if only.map(|o| o != fname).unwrap_or(false) {
                continue;
            }
            for c in &cursors {
                st.calls += 1;
                let (k, d, c) = (kind.clone(), desc.clone(), *c);
                match guarded(move || emmylua_parser_desc::parse(k, text, d, c)) {
                    Ok(items) => {
                        if let Some(b) = check_items(text, &items, hull, fname, c, &mut st) {
                            return (Some(b), st);
                        }
                    }
                    Err(p) => {
                        let site = super::c31::panic_class(&p);
                        return (
                            Some(Bad { clause: "panic".into(), flavour: fname.into(), disc: site, detail: format!("{} at {}; cursor {c:?}; frames {:?}", clip(&p.message, 200), p.location, p.frames) }),
                            st,
                        );
                    }
                }
            }
        }
    }
    (None, st)
}

/// signature: clause + parser family (md/myst share one parser, rst the other) + discriminator
fn sig_of(b: &Bad) -> String {
    let fam = if b.flavour.starts_with("rst") { "rst" } else { "md" };
    format!("C37:{}:{}:{}", b.clause, fam, b.disc)
}

// ───────────────────────── evaluation server (child process) ─────────────────────────
//
// `emmylua_parser_desc::parse` can fail to terminate while allocating without bound. A stuck call cannot
// be interrupted inside a process, so every parse call of this check runs in a disposable child process
// of the same binary (`vcheck C37 --replay {"server":true}`), fed one text per line. The parent watches the
// child's CPU time (not the wall clock) and kills it on overrun.

/// CPU seconds one text (all flavours, all cursors) may take. A normal text costs 0.2–20 ms.
const CPU_BUDGET: f64 = 2.0;
/// budget while attributing / shrinking an overrun (one flavour only)
const CPU_BUDGET_SHRINK: f64 = 0.8;
const SERVER_MARK: &str = "C37S:";

struct Server {
    child: std::process::Child,
    stdin: std::process::ChildStdin,
    rx: std::sync::mpsc::Receiver<String>,
}

enum Remote {
    Done(Option<Bad>, Stats),
    Overrun(f64),
    Died(String),
    Harness(String),
}

fn child_cpu_secs(pid: u32) -> f64 {
    let s = std::fs::read_to_string(format!("/proc/{pid}/stat")).unwrap_or_default();
    let rest = s.rsplit(')').next().unwrap_or("");
    let f: Vec<&str> = rest.split_whitespace().collect();
    let tick = |i: usize| f.get(i).and_then(|x| x.parse::<f64>().ok()).unwrap_or(0.0);
    (tick(11) + tick(12)) / 100.0
}

impl Server {
    fn start(work: &str) -> Result<Server, String> {
        use std::io::BufRead;
        let exe = std::env::current_exe().map_err(|e| e.to_string())?;
        let rp = format!("{work}/c37-server-{}.json", std::process::id());
        std::fs::write(&rp, "{\"server\": true}").map_err(|e| e.to_string())?;
        let mut child = std::process::Command::new(exe)
            .arg("C37")
            .arg("--replay")
            .arg(&rp)
            .stdin(std::process::Stdio::piped())
            .stdout(std::process::Stdio::piped())
            .stderr(std::process::Stdio::null())
            .spawn()
            .map_err(|e| format!("spawn: {e}"))?;
        let stdin = child.stdin.take().ok_or("no stdin")?;
        let stdout = child.stdout.take().ok_or("no stdout")?;
        let (tx, rx) = std::sync::mpsc::channel();
        std::thread::spawn(move || {
            let r = std::io::BufReader::new(stdout);
            for line in r.lines() {
                match line {
                    Ok(l) => {
                        if l.starts_with(SERVER_MARK) && tx.send(l[SERVER_MARK.len()..].to_string()).is_err() {
                            break;
                        }
                    }
                    Err(_) => break,
                }
            }
        });
        Ok(Server { child, stdin, rx })
    }

    fn kill(mut self) {
        let _ = self.child.kill();
        let _ = self.child.wait();
    }

    fn request(&mut self, text: &str, sweep: bool, only: Option<&str>, budget: f64) -> Remote {
        use std::io::Write;
        let pid = self.child.id();
        let cpu0 = child_cpu_secs(pid);
        let req = json!({"text": text, "sweep": sweep, "only": only});
        if writeln!(self.stdin, "{req}").and_then(|_| self.stdin.flush()).is_err() {
            return self.death();
        }
        loop {
            match self.rx.recv_timeout(std::time::Duration::from_millis(40)) {
                Ok(line) => {
                    let v: serde_json::Value = match serde_json::from_str(&line) {
                        Ok(v) => v,
                        Err(e) => return Remote::Harness(format!("bad server line: {e}")),
                    };
                    let st = Stats {
                        descs: v["st"]["descs"].as_u64().unwrap_or(0) as usize,
                        calls: v["st"]["calls"].as_u64().unwrap_or(0) as usize,
                        items: v["st"]["items"].as_u64().unwrap_or(0) as usize,
                        in_prefix: v["st"]["in_prefix"].as_u64().unwrap_or(0) as usize,
                        tie_order: v["st"]["tie_order"].as_u64().unwrap_or(0) as usize,
                        max_items: v["st"]["max_items"].as_u64().unwrap_or(0) as usize,
                    };
                    let bad = if v["bad"].is_object() {
                        let g = |k: &str| v["bad"][k].as_str().unwrap_or("").to_string();
                        Some(Bad { clause: g("clause"), flavour: g("flavour"), disc: g("disc"), detail: g("detail") })
                    } else {
                        None
                    };
                    return Remote::Done(bad, st);
                }
                Err(std::sync::mpsc::RecvTimeoutError::Timeout) => {
                    let used = child_cpu_secs(pid) - cpu0;
                    if used > budget {
                        return Remote::Overrun(used);
                    }
                    if let Ok(Some(_)) = self.child.try_wait() {
                        return self.death();
                    }
                }
                Err(std::sync::mpsc::RecvTimeoutError::Disconnected) => return self.death(),
            }
        }
    }

    fn death(&mut self) -> Remote {
        use std::os::unix::process::ExitStatusExt;
        match self.child.wait() {
            Ok(st) => match st.signal() {
                Some(6) => Remote::Died("SIGABRT".into()),
                Some(11) => Remote::Died("SIGSEGV".into()),
                Some(9) => Remote::Died("SIGKILL".into()),
                Some(n) => Remote::Died(format!("signal-{n}")),
                None => Remote::Harness(format!("server exited with {:?}", st.code())),
            },
            Err(e) => Remote::Harness(format!("wait: {e}")),
        }
    }
}

/// the serving loop of the child
fn serve() {
    use std::io::BufRead;
    let stdin = std::io::stdin();
    for line in stdin.lock().lines() {
        let Ok(line) = line else { break };
        let Ok(req) = serde_json::from_str::<serde_json::Value>(&line) else { continue };
        let text = req["text"].as_str().unwrap_or("");
        let (bad, st) = eval_only(text, req["sweep"].as_bool().unwrap_or(false), req["only"].as_str());
        let out = json!({
            "bad": bad.map(|b| json!({"clause": b.clause, "flavour": b.flavour, "disc": b.disc, "detail": b.detail})),
            "st": {"descs": st.descs, "calls": st.calls, "items": st.items, "in_prefix": st.in_prefix, "tie_order": st.tie_order, "max_items": st.max_items},
        });
        println!("{SERVER_MARK}{out}");
    }
}

struct Pool {
    work: String,
    server: Option<Server>,
    restarts: u64,
}

impl Pool {
    fn eval(&mut self, text: &str, sweep: bool, only: Option<&str>, budget: f64) -> Remote {
        if self.server.is_none() {
            match Server::start(&self.work) {
                Ok(mut s) => {
                    // handshake: the start-up cost of the child must not count against the first text
                    if !matches!(s.request("", false, None, 60.0), Remote::Done(..)) {
                        s.kill();
                        return Remote::Harness("server handshake failed".into());
                    }
                    self.server = Some(s)
                }
                Err(e) => return Remote::Harness(e),
            }
            self.restarts += 1;
        }
        let r = self.server.as_mut().unwrap().request(text, sweep, only, budget);
        if !matches!(r, Remote::Done(..)) {
            if let Some(s) = self.server.take() {
                s.kill();
            }
        }
        r
    }
    fn shutdown(&mut self) {
        if let Some(s) = self.server.take() {
            s.kill();
        }
    }
}

/// what a hang / abort looks like structurally: the block constructs of the (shrunk) comment lines
fn line_shapes(text: &str) -> String {
    // a code fence with a known language wins: the embedded lexers are per language
    for marker in ["```", "~~~"] {
        let mut rest = text;
        while let Some(i) = rest.find(marker) {
            let after = rest[i..].trim_start_matches(['`', '~']);
            let word: String = after.chars().take_while(|c| c.is_ascii_alphanumeric()).collect();
            match word.as_str() {
                "lua" | "Lua" => return "fence(lua)".into(),
                "sql" | "Sql" => return "fence(sql)".into(),
                "json" | "Json" => return "fence(json)".into(),
                "shell" | "Shell" => return "fence(shell)".into(),
                "vim" | "vimscript" => return "fence(vim)".into(),
                "protobuf" | "Protobuf" => return "fence(protobuf)".into(),
                _ => {}
            }
            rest = &rest[i + marker.len()..];
        }
    }
    let mut shapes: Vec<&'static str> = Vec::new();
    for l in text.lines() {
        let t = l.trim_start().trim_start_matches('-').trim_start();
        let k = if t.starts_with("```") || t.starts_with("~~~") || t.starts_with(":::") {
            if t.contains('{') {
                "fenced-directive"
            } else {
                match t.trim_start_matches(['`', '~', ':']).trim().split_whitespace().next().unwrap_or("") {
                    "lua" | "Lua" => "fence(lua)",
                    "sql" | "Sql" => "fence(sql)",
                    "json" | "Json" => "fence(json)",
                    "shell" | "Shell" => "fence(shell)",
                    "vim" | "vimscript" => "fence(vim)",
                    "protobuf" | "Protobuf" => "fence(protobuf)",
                    "" => "fence",
                    _ => "fence(other)",
                }
            }
        } else if t.starts_with(".. ") || t == ".." {
            "rst-directive"
        } else if t.starts_with('>') {
            "quote"
        } else if t.starts_with('|') || t.starts_with('+') && t.contains("-+") {
            "table"
        } else if t.starts_with("- ") || t.starts_with("* ") || t.starts_with("+ ") || t.starts_with("#. ") || t.chars().next().map(|c| c.is_ascii_digit() || c == '(').unwrap_or(false) {
            "list"
        } else if t.starts_with('#') {
            "heading"
        } else if t.starts_with(':') {
            "field"
        } else if t.is_empty() {
            "blank"
        } else if l.trim_start().starts_with("--") {
            "text"
        } else {
            "code"
        };
        // plain text, blank and code lines carry no structure of their own
        if matches!(k, "text" | "blank" | "code") {
            continue;
        }
        if shapes.last() != Some(&k) {
            shapes.push(k);
        }
    }
    shapes.truncate(4);
    if shapes.is_empty() { "plain-text".into() } else { shapes.join(">") }
}

fn family_of(flavour: &str) -> &'static str {
    if flavour.starts_with("rst") { "rst" } else { "md" }
}

/// A text overran the CPU budget (or killed the server): attribute to a flavour, shrink by lines, confirm
/// in a fresh child with 4x the budget, report. Anything not confirmed is inconclusive.
fn handle_overrun(ctx: &mut Ctx, pool: &mut Pool, lines: &[String], family: &str, died: Option<String>) {
    let text = lines.concat();
    let fails = |pool: &mut Pool, t: &str, only: Option<&str>, budget: f64| -> bool {
        match pool.eval(t, false, only, budget) {
            Remote::Overrun(_) => died.is_none(),
            Remote::Died(_) => died.is_some(),
            _ => false,
        }
    };
    let mut flavour = None;
    for (f, _) in flavours() {
        if fails(pool, &text, Some(f), CPU_BUDGET_SHRINK) {
            flavour = Some(f);
            break;
        }
    }
    let Some(flavour) = flavour else {
        ctx.inconclusive("cpu-overrun-not-attributed-to-one-flavour");
        return;
    };
    let small = crate::util::ddmin(lines.to_vec(), |p| fails(pool, &p.concat(), Some(flavour), CPU_BUDGET_SHRINK), 24);
    // then words, then (if short) characters; every still-failing test costs CPU_BUDGET_SHRINK seconds
    let words = crate::gens::soup::split_keep_ws(&small.concat());
    let small = crate::util::ddmin(words, |p| fails(pool, &p.concat(), Some(flavour), CPU_BUDGET_SHRINK), 20);
    let chars: Vec<String> = small.concat().chars().map(|c| c.to_string()).collect();
    let small = if chars.len() <= 48 { crate::util::ddmin(chars, |p| fails(pool, &p.concat(), Some(flavour), CPU_BUDGET_SHRINK), 28) } else { small };
    let st = small.concat();
    // confirmation in a fresh process with 4x the detection budget
    if !fails(pool, &st, Some(flavour), 4.0 * CPU_BUDGET) {
        ctx.inconclusive("cpu-overrun-not-confirmed");
        return;
    }
    let (sig, detail) = match &died {
        Some(s) => (format!("C37:abort:{}:{}:{s}", family_of(flavour), line_shapes(&st)), format!("[{flavour}] the process parsing this comment was killed by {s}")),
        None => (
            format!("C37:hang:{}:{}", family_of(flavour), line_shapes(&st)),
            format!("[{flavour}] emmylua_parser_desc::parse used more than {} s of CPU (confirmed in a fresh process; a normal comment takes milliseconds) and was killed", 4.0 * CPU_BUDGET),
        ),
    };
    ctx.violated(&sig, &format!("{detail}; shrunk input {:?}", clip(&st, 300)), json!({"text": st, "family": family, "flavour": flavour, "original": clip(&text, 600)}));
}

fn shrink_and_report(ctx: &mut Ctx, pool: &mut Pool, lines: Vec<String>, bad: Bad, family: &str) {
    let sig0 = sig_of(&bad);
    let mut same = |p: &[String]| matches!(pool.eval(&p.concat(), false, None, CPU_BUDGET), Remote::Done(Some(b), _) if sig_of(&b) == sig0);
    let small = crate::util::ddmin(lines.clone(), &mut same, 300);
    let chars: Vec<String> = small.concat().chars().map(|c| c.to_string()).collect();
    let small = if chars.len() <= 400 { crate::util::ddmin(chars, &mut same, 800) } else { small };
    let st = small.concat();
    let b = match pool.eval(&st, false, None, CPU_BUDGET) {
        Remote::Done(Some(b), _) => b,
        _ => bad,
    };
    ctx.violated(&sig_of(&b), &format!("[{}] {}; shrunk input {:?}", b.flavour, b.detail, clip(&st, 200)), json!({"text": st, "family": family, "original": clip(&lines.concat(), 600)}));
}

pub fn run(ctx: &mut Ctx) {
    if let Some(rep) = ctx.replay.clone() {
        if rep.get("server").is_some() {
            serve();
            ctx.held(0, false);
            return;
        }
        let text = rep["text"].as_str().unwrap_or("").to_string();
        let mut pool = Pool { work: ctx.work.clone(), server: None, restarts: 0 };
        let only = rep["flavour"].as_str().map(|s| s.to_string());
        match pool.eval(&text, true, only.as_deref(), 4.0 * CPU_BUDGET) {
            Remote::Done(None, st) => {
                println!("replay: held ({} descriptions, {} parse calls, {} items)", st.descs, st.calls, st.items);
                ctx.held(fnv(text.as_bytes()), st.items > 0);
            }
            Remote::Done(Some(b), _) => {
                println!("replay: VIOLATED {} [{}]: {}", sig_of(&b), b.flavour, b.detail);
                ctx.violated(&sig_of(&b), &b.detail, rep);
            }
            Remote::Overrun(cpu) => {
                let f = only.clone().unwrap_or_else(|| "md".into());
                let sig = format!("C37:hang:{}:{}", family_of(&f), line_shapes(&text));
                println!("replay: VIOLATED {sig}: parsing used {cpu:.1} s CPU (budget {} s) and was killed", 4.0 * CPU_BUDGET);
                ctx.violated(&sig, &format!("parse used {cpu:.1} s of CPU and was killed"), rep);
            }
            Remote::Died(s) => {
                let f = only.clone().unwrap_or_else(|| "md".into());
                let sig = format!("C37:abort:{}:{}:{s}", family_of(&f), line_shapes(&text));
                println!("replay: VIOLATED {sig}");
                ctx.violated(&sig, &format!("the parsing process was killed by {s}"), rep);
            }
            Remote::Harness(e) => {
                println!("replay: inconclusive ({e})");
                ctx.inconclusive("harness");
            }
        }
        pool.shutdown();
        return;
    }
    let mut pool = Pool { work: ctx.work.clone(), server: None, restarts: 0 };
    let n = ctx.budget(6_000, 250_000);
    for i in 0..n {
        super::c31::note_first_violation(ctx, i.saturating_sub(1));
        if ctx.out_of_time() {
            break;
        }
        let mut rng = Rng::new(ctx.case_seed(i));
        let big = i % 40 == 7;
        let (lines, family) = if rng.chance(1, 12) {
            // G-soup text: doc tags, odd characters, half-open constructs
            (crate::gens::soup::soup_parts(&mut rng, 40), "soup")
        } else {
            (gen_case(&mut rng, if big { 60 } else { 10 }), "markup")
        };
        let text = lines.concat();
        ctx.clause(&format!("family:{family}"));
        match pool.eval(&text, false, None, CPU_BUDGET) {
            Remote::Done(None, st) => {
                if st.descs > 0 {
                    ctx.clause("a:no-panic");
                    ctx.clause("b:in-bounds");
                    ctx.clause("c:sorted");
                }
                ctx.extra_add("descriptions", st.descs as u64);
                ctx.extra_add("parse_calls", st.calls as u64);
                ctx.extra_add("items_checked", st.items as u64);
                ctx.extra_add("items_starting_in_comment_prefix", st.in_prefix as u64);
                ctx.extra_add("tie_break_not_longer_first", st.tie_order as u64);
                let cur = ctx.extra.get("max_items_in_one_result").and_then(|v| v.as_u64()).unwrap_or(0);
                ctx.extra_set("max_items_in_one_result", json!(cur.max(st.max_items as u64)));
                // non-trivial: at least one description that produced >= 3 items in some flavour
                ctx.held(fnv(text.as_bytes()), st.descs > 0 && st.max_items >= 3);
                if ctx.want_sample() && st.max_items >= 6 && i % 211 == 5 {
                    ctx.sample(json!({"family": family, "descriptions": st.descs, "parse_calls": st.calls, "items": st.items, "text": clip(&text, 400)}));
                }
            }
            Remote::Done(Some(b), _) => {
                ctx.fps.insert(fnv(text.as_bytes()));
                shrink_and_report(ctx, &mut pool, lines, b, family)
            }
            Remote::Overrun(_) => {
                ctx.clause("cpu-overrun-seen");
                ctx.fps.insert(fnv(text.as_bytes()));
                // attribution + shrinking + confirmation cost tens of CPU seconds: once per shard
                if ctx.extra.get("overruns_analysed").and_then(|v| v.as_u64()).unwrap_or(0) >= 1 {
                    ctx.extra_add("overruns_not_analysed", 1);
                    continue;
                }
                ctx.extra_add("overruns_analysed", 1);
                handle_overrun(ctx, &mut pool, &lines, family, None);
            }
            Remote::Died(s) => {
                ctx.fps.insert(fnv(text.as_bytes()));
                handle_overrun(ctx, &mut pool, &lines, family, Some(s));
            }
            Remote::Harness(e) => ctx.inconclusive(&format!("harness:{}", clip(&e, 50))),
        }
    }
    ctx.extra_add("server_starts", pool.restarts);
    pool.shutdown();
}
