//! C05 — formatting never changes or loses code.
//!
//! out = reformat_lua_code(src, cfg). Clauses:
//!   1 errors-unchanged : src has syntax errors            ⇒ out == src
//!   2 output-parses    : otherwise parse(out) has no syntax errors
//!   3 token-seq        : canonical code-token sequences equal (own lexer, only cfg-enabled rewrites)
//!   3b stat-structure  : same statement kinds in the same order (a dropped `;` that was not optional)
//!   4 comment-tokens / doc-structure : comments keep their tokens and doc tree
//! The oracles live in crate::fmt_oracle.

use crate::corpus::Corpus;
use crate::fmt_oracle::{self as fo, FmtCase, Mismatch};
use crate::report::{Ctx, clip};
use crate::rng::{Rng, fnv};
use crate::util::{PanicInfo, guarded};
use emmylua_formatter::{LuaFormatConfig, SourceText, reformat_lua_code};
use serde_json::{Value, json};

pub enum Outcome {
    /// input had syntax errors and came back unchanged
    ErrUnchanged,
    Held { code_tokens: usize, comment_tokens: usize, changed: bool },
    Bad(Mismatch),
    Panic(PanicInfo),
}

pub fn format(text: &str, level_name: &str, cfg: &LuaFormatConfig) -> Result<String, PanicInfo> {
    let level = fo::level_by_name(level_name).0;
    guarded(|| reformat_lua_code(&SourceText { text, level }, cfg))
}

pub fn eval(text: &str, level_name: &str, cfg: &LuaFormatConfig) -> Outcome {
    let level = fo::level_by_name(level_name).0;
    let src_tree = fo::parse(text, level);
    let out = match format(text, level_name, cfg) {
        Ok(o) => o,
        Err(p) => return Outcome::Panic(p),
    };
    if src_tree.has_syntax_errors() {
        return if out == text {
            Outcome::ErrUnchanged
        } else {
            Outcome::Bad(Mismatch { clause: "errors-unchanged".into(), what: "changed".into(), detail: format!("input has syntax errors ({}) but the output differs from the input", src_tree.get_errors().first().map(|e| e.message.clone()).unwrap_or_default()) })
        };
    }
    match fo::judge_pair(text, &src_tree, &out, level, cfg) {
        Ok(ok) => Outcome::Held { code_tokens: ok.code_tokens, comment_tokens: ok.comment_tokens, changed: out != text },
        Err(m) => Outcome::Bad(m),
    }
}

fn sig_of(m: &Mismatch) -> String {
    format!("C05:{}:{}", m.clause, m.what)
}

/// Shrink (text, cfg) while the same clause + discriminator keeps failing.
pub fn shrink(text: &str, level_name: &str, cfg: &LuaFormatConfig, m: &Mismatch) -> (String, LuaFormatConfig, Mismatch) {
    let level = fo::level_by_name(level_name).0;
    let max_errors = fo::error_count(text, level);
    let same = |t: &str, c: &LuaFormatConfig| -> bool {
        if fo::error_count(t, level) > max_errors {
            return false;
        }
        match eval(t, level_name, c) {
            Outcome::Bad(m2) => m2.clause == m.clause && m2.what == m.what,
            _ => false,
        }
    };
    let cfg1 = fo::shrink_config(cfg, |c| same(text, c));
    let small = fo::shrink_text(text, |t| same(t, &cfg1), 1500);
    let cfg2 = fo::shrink_config(&cfg1, |c| same(&small, c));
    let m2 = match eval(&small, level_name, &cfg2) {
        Outcome::Bad(x) => x,
        _ => m.clone(),
    };
    (small, cfg2, m2)
}

fn replay_json(text: &str, level_name: &str, cfg: &LuaFormatConfig, family: &str, original_len: usize) -> Value {
    json!({"text": text, "level": level_name, "cfg": fo::config_to_json(cfg), "cfg_delta": fo::config_delta(cfg), "family": family, "original_len": original_len})
}

pub fn run(ctx: &mut Ctx) {
    if let Some(rep) = ctx.replay.clone() {
        let text = rep["text"].as_str().unwrap_or("").to_string();
        let level = rep["level"].as_str().unwrap_or("Lua55").to_string();
        let cfg = fo::config_from_json(&rep["cfg"]);
        let out = format(&text, &level, &cfg);
        println!("replay: input {:?}", clip(&text, 600));
        if let Ok(o) = &out {
            println!("replay: output {:?}", clip(o, 600));
        }
        match eval(&text, &level, &cfg) {
            Outcome::ErrUnchanged => {
                println!("replay: held (input has syntax errors, returned unchanged)");
                ctx.held(fnv(text.as_bytes()), false);
            }
            Outcome::Held { code_tokens, .. } => {
                println!("replay: held ({code_tokens} code tokens preserved)");
                ctx.held(fnv(text.as_bytes()), code_tokens >= 8);
            }
            Outcome::Bad(m) => {
                println!("replay: VIOLATED {}: {}", sig_of(&m), m.detail);
                ctx.violated(&sig_of(&m), &m.detail, rep);
            }
            Outcome::Panic(p) => {
                println!("replay: PANIC {}", p.sig());
                ctx.violated(&format!("C05:panic:{}", p.sig()), &p.message, rep);
            }
        }
        return;
    }
    let corpus = Corpus::load(&ctx.repo);
    ctx.extra_set("corpus_items", json!(corpus.len()));
    if corpus.snippets.is_empty() || corpus.std_files.is_empty() {
        ctx.inconclusive("corpus-empty");
        return;
    }
    let n = ctx.budget(1_200, 60_000);
    let mut shrinks = 0u32;
    let mut shrink_cpu = 0f64;
    for i in 0..n {
        if ctx.out_of_time() {
            break;
        }
        let mut rng = Rng::new(ctx.case_seed(i));
        let big = !ctx.is_quick() && i % 10 == 0;
        let case: FmtCase = fo::gen_case(&mut rng, &corpus, big);
        ctx.clause(&format!("family:{}", case.family));
        let fp = fnv(case.text.as_bytes()) ^ fnv(fo::config_to_json(&case.cfg).to_string().as_bytes());
        match eval(&case.text, case.level_name, &case.cfg) {
            Outcome::ErrUnchanged => {
                ctx.clause("1:errors-unchanged");
                ctx.held(fp, false);
            }
            Outcome::Held { code_tokens, comment_tokens, changed } => {
                ctx.clause("2:output-parses");
                ctx.clause("3:token-seq");
                if comment_tokens > 0 {
                    ctx.clause("4:comments");
                }
                if changed {
                    ctx.clause("changed-by-formatting");
                }
                ctx.extra_add("code_tokens_compared", code_tokens as u64);
                ctx.extra_add("comment_tokens_compared", comment_tokens as u64);
                ctx.held(fp, code_tokens >= 8);
                if ctx.want_sample() && code_tokens >= 8 && changed && i % 211 == 5 {
                    ctx.sample(json!({"family": case.family, "level": case.level_name, "cfg_delta": fo::config_delta(&case.cfg), "code_tokens": code_tokens, "comment_tokens": comment_tokens, "text": clip(&case.text, 400)}));
                }
            }
            Outcome::Bad(m) => {
                // cap the effort spent on shrinking per shard; further hits of a known signature are only counted
                let pre = sig_of(&m);
                if ctx.sig_counts.get(&pre).copied().unwrap_or(0) >= 3 || shrinks >= 40 || shrink_cpu > if ctx.is_quick() { 6.0 } else { 120.0 } {
                    ctx.violated(&pre, &m.detail, replay_json(&case.text, case.level_name, &case.cfg, case.family, case.text.len()));
                    continue;
                }
                shrinks += 1;
                let cpu0 = crate::util::thread_cpu();
                let (small, cfg, m2) = shrink(&case.text, case.level_name, &case.cfg, &m);
                shrink_cpu += crate::util::thread_cpu() - cpu0;
                let out = format(&small, case.level_name, &cfg).unwrap_or_default();
                ctx.violated(
                    &sig_of(&m2),
                    &format!("{}; shrunk input {:?} -> output {:?}; cfg {:?}", m2.detail, clip(&small, 300), clip(&out, 300), fo::config_delta(&cfg)),
                    replay_json(&small, case.level_name, &cfg, case.family, case.text.len()),
                );
            }
            Outcome::Panic(p) => {
                ctx.violated(&format!("C05:panic:{}", p.sig()), &format!("{} at {}", p.message, p.location), replay_json(&case.text, case.level_name, &case.cfg, case.family, case.text.len()));
            }
        }
    }
}
