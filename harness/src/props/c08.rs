//! C08 — re-submitting or undoing an edit leaves analysis state unchanged.
//!
//! Case = G-workspace + consistent start (batch analysis or reindex) + a history made only of
//! state-preserving steps (re-submit unchanged, batch re-submit unchanged, edit-then-restore).
//! Oracle: after *every* step `observe(A)` equals the dump taken right after the start, and
//! after the history no census component is larger than at the start.

use crate::gens::workspace::{self as gw, Case, GenOpts, HistoryKind, Model, Setup, Step};
use crate::observe::{self, Diff};
use crate::report::{Ctx, clip};
use crate::rng::Rng;
use crate::util::guarded;
use serde_json::{Value, json};
use std::collections::BTreeMap;

/// Causal priority of dump sections: the first one present names the violation.
pub const SECTION_PRIORITY: &[&str] = &[
    "types.kind",
    "types.locations",
    "types.supers",
    "types.generics",
    "types.alias",
    "types.doc",
    "types.members",
    "types",
    "globals",
    "gmembers",
    "modules.files",
    "modules.find",
    "modules.orphan",
    "files.decls",
    "files.tokens.text",
    "files.tokens.decl",
    "files.tokens.type",
    "files.tokens",
    "files.diag",
];

/// Primary section of a diff and the structural discriminator of its first entry there.
pub fn classify(a: &Value, b: &Value, diffs: &[Diff], case: &Case) -> (String, String) {
    let section = primary_section(diffs);
    let disc = diffs.iter().find(|d| d.section == section).map(|d| observe::discriminator(a, b, d, &|n| case.files_declaring_type(n))).unwrap_or_else(|| "-".into());
    (section, disc)
}

pub fn primary_section(d: &[Diff]) -> String {
    let secs = observe::diff_sections(d);
    for p in SECTION_PRIORITY {
        if secs.iter().any(|s| s == p) {
            return p.to_string();
        }
    }
    secs.first().cloned().unwrap_or_else(|| "none".into())
}

#[derive(Clone, Debug)]
pub enum Outcome {
    Held { steps_checked: usize, census_shrunk: Vec<String> },
    /// fresh analysis of the start state is not reproducible (C11)
    Unstable,
    DumpDiff { step: usize, step_kind: String, section: String, disc: String, diffs: Vec<Diff> },
    /// (index, before, after, fields of that index that grew)
    CensusGrowth { indexes: Vec<(String, usize, usize, Vec<String>)> },
    Panic(String),
}

/// Runs one case against the real code.
pub fn eval(case: &Case) -> Outcome {
    let r = guarded(|| {
        // C11 exclusion: the consistent start must be reproducible
        let Some(d0) = gw::stable_dump(&|| case.start(), 2) else { return Outcome::Unstable };
        let mut a = case.start();
        let c0 = observe::census(&a);
        let f0 = observe::census_fields(&a);
        let mut m = Model::new(&case.ws);
        let mut checked = 0usize;
        for (i, st) in case.steps.iter().enumerate() {
            if !matches!(st, Step::Resubmit { .. } | Step::BatchResubmit { .. } | Step::EditRestore { .. }) {
                continue; // C08 histories contain state-preserving steps only
            }
            if !gw::apply_step(&mut a, &case.ws, &mut m, st) {
                continue;
            }
            checked += 1;
            let d = observe::observe(&a);
            if d != d0 {
                let diffs = observe::diff(&d0, &d);
                let (section, disc) = classify(&d0, &d, &diffs, case);
                return Outcome::DumpDiff { step: i, step_kind: st.kind().to_string(), section, disc, diffs };
            }
        }
        let c1 = observe::census(&a);
        let (grown, shrunk) = census_cmp(&c0, &c1);
        if !grown.is_empty() {
            let f1 = observe::census_fields(&a);
            let indexes = grown
                .into_iter()
                .map(|(k, x, y)| {
                    let prefix = format!("{k}.");
                    let fields: Vec<String> = f1.iter().filter(|(f, n)| f.starts_with(&prefix) && **n > f0.get(*f).copied().unwrap_or(0)).map(|(f, _)| f[prefix.len()..].to_string()).collect();
                    (k, x, y, fields)
                })
                .collect();
            return Outcome::CensusGrowth { indexes };
        }
        Outcome::Held { steps_checked: checked, census_shrunk: shrunk }
    });
    match r {
        Ok(o) => o,
        Err(p) => Outcome::Panic(p.sig()),
    }
}

pub fn census_cmp(c0: &BTreeMap<String, usize>, c1: &BTreeMap<String, usize>) -> (Vec<(String, usize, usize)>, Vec<String>) {
    let mut grown = Vec::new();
    let mut shrunk = Vec::new();
    for (k, v1) in c1 {
        let v0 = c0.get(k).copied().unwrap_or(0);
        if *v1 > v0 {
            grown.push((k.clone(), v0, *v1));
        } else if *v1 < v0 {
            shrunk.push(k.clone());
        }
    }
    (grown, shrunk)
}

/// Clauses (+ discriminator) violated by an outcome; empty = no violation. Census growth gives
/// one clause per index so that different leaks are shrunk and reported separately.
pub fn clauses_of(o: &Outcome) -> Vec<String> {
    match o {
        Outcome::DumpDiff { section, disc, .. } => vec![format!("dump-diff:section={section}:{disc}")],
        Outcome::CensusGrowth { indexes } => indexes.iter().map(|x| format!("census-growth:index={}", x.0)).collect(),
        Outcome::Panic(s) => vec![format!("panic:{s}")],
        _ => vec![],
    }
}

/// Signature = property : clause (+ section / index + structural discriminator of the diff)
/// : kind of the history step that triggers it. For a dump difference that is the step after
/// which the difference was observed, for census growth the strongest kind the shrunk history
/// still needs (edit-restore > batch-resubmit > resubmit). Field-level census details and the
/// identifier-free line shapes of the shrunk witness go into the detail text.
pub fn signature(prop: &str, clause: &str, case: &Case, o: &Outcome) -> String {
    let kinds = case.step_kinds();
    let step = match o {
        Outcome::DumpDiff { step_kind, .. } => step_kind.clone(),
        _ => ["edit-restore", "batch-resubmit", "resubmit"].iter().find(|k| kinds.iter().any(|x| x == *k)).map(|s| s.to_string()).unwrap_or_else(|| kinds.join("+")),
    };
    format!("{prop}:{clause}:step={step}")
}

/// Signature for the properties whose oracle looks at the end of the history only: the
/// strongest kind of step the shrunk history still needs (other kinds only set up an order).
pub fn signature_steps(prop: &str, clause: &str, case: &Case) -> String {
    const PRIORITY: &[&str] = &["config", "config-reload", "remove-by-none", "remove", "re-add", "update", "edit-restore", "batch-resubmit", "resubmit", "reindex"];
    let kinds = case.step_kinds();
    let step = PRIORITY.iter().find(|k| kinds.iter().any(|x| x == *k)).copied().unwrap_or("none");
    format!("{prop}:{clause}:step={step}")
}

fn detail(o: &Outcome, case: &Case) -> String {
    let head = match o {
        Outcome::DumpDiff { step, step_kind, diffs, .. } => format!("after step {step} ({step_kind}) the dump differs from the start dump:\n{}", observe::diff_text(diffs, 6)),
        Outcome::CensusGrowth { indexes } => format!("index census grew over the history (index, before, after, fields): {:?}\n", indexes),
        Outcome::Panic(s) => format!("panic {s}"),
        other => format!("{other:?}"),
    };
    format!("{head}--- shrunk case (line shapes: {}) ---\n{}", case.shapes().join(","), clip(&case.describe(), 2500))
}

fn gen_case(rng: &mut Rng, quick: bool) -> Case {
    let ws = gw::gen_workspace(rng, &GenOpts { max_files: if quick { 6 } else { 8 }, ..GenOpts::default() });
    let setup = match rng.below(4) {
        0 | 1 => Setup::Sorted,
        2 => Setup::OneByOneReindex,
        _ => Setup::ProductionReindex,
    };
    let steps = gw::gen_history(rng, &ws, HistoryKind::Preserving, if quick { 12 } else { 40 });
    Case { ws, setup, steps }
}

/// Evaluates, and on a violation shrinks (same clause) and re-confirms; reports through ctx.
fn judge(ctx: &mut Ctx, case: &Case, shrink: bool) {
    let o = eval(case);
    let fp_dump = crate::rng::mix(case.fingerprint(), 1);
    let fp_census = crate::rng::mix(case.fingerprint(), 2);
    let nontrivial_ws = case.ws.files.len() >= 2 && case.ws.n_chunks() >= 4;
    match &o {
        Outcome::Held { steps_checked, census_shrunk } => {
            ctx.clause("a:dump-equal-after-step");
            ctx.clause("b:census-not-grown");
            ctx.clause_n("steps-checked", *steps_checked as u64);
            if !census_shrunk.is_empty() {
                ctx.extra_add("census_shrunk_cases", 1);
            }
            for s in &case.steps {
                ctx.clause(&format!("step:{}", s.kind()));
            }
            let nontrivial = *steps_checked >= 1 && nontrivial_ws;
            // two evaluations per case: the dump clause and the census clause
            ctx.held(fp_dump, nontrivial);
            ctx.held(fp_census, nontrivial);
            if ctx.want_sample() && nontrivial && case.steps.len() >= 3 {
                ctx.sample(json!({"files": case.ws.files.len(), "chunks": case.ws.n_chunks(), "setup": case.setup.name(), "steps": case.steps.iter().map(|s| s.kind()).collect::<Vec<_>>(), "first_file": clip(&case.ws.files[0].text(), 400)}));
            }
        }
        Outcome::Unstable => ctx.inconclusive("fresh-analysis-nondeterministic(C11)"),
        _ => {
            if let Outcome::CensusGrowth { .. } = &o {
                // the dump clause held after every step of this case; only the census clause failed
                ctx.clause("a:dump-equal-after-step");
                for s in &case.steps {
                    ctx.clause(&format!("step:{}", s.kind()));
                }
                ctx.held(fp_dump, nontrivial_ws && !case.steps.is_empty());
                if ctx.want_sample() && nontrivial_ws && case.steps.len() >= 3 {
                    ctx.sample(json!({"files": case.ws.files.len(), "chunks": case.ws.n_chunks(), "setup": case.setup.name(), "steps": case.steps.iter().map(|s| s.kind()).collect::<Vec<_>>(), "census": "grew (reported separately)", "first_file": clip(&case.ws.files[0].text(), 400)}));
                }
            }
            let mut first = true;
            for clause in clauses_of(&o).into_iter().take(3) {
                let small = if shrink {
                    let want = clause.clone();
                    let n = ctx.extra.get("full_shrinks").and_then(|m| m.get(&clause)).and_then(|v| v.as_u64()).unwrap_or(0);
                    let mut m = ctx.extra.get("full_shrinks").and_then(|m| m.as_object()).cloned().unwrap_or_default();
                    m.insert(clause.clone(), json!(n + 1));
                    ctx.extra_set("full_shrinks", Value::Object(m));
                    gw::shrink_case_mode(case, 1200, n >= 2, &mut |c: &Case| clauses_of(&eval(c)).contains(&want))
                } else {
                    case.clone()
                };
                // the (shrunk) case must reproduce twice more: hash seeds are resampled on every run
                let o2 = eval(&small);
                let again = eval(&small);
                if !clauses_of(&o2).contains(&clause) || !clauses_of(&again).contains(&clause) {
                    ctx.inconclusive("violation-not-reproducible-in-process");
                    continue;
                }
                let sig = signature("C08", &clause, &small, &o2);
                if first {
                    ctx.violated(&sig, &detail(&o2, &small), small.to_json());
                    first = false;
                } else {
                    ctx.add_violation(&sig, &detail(&o2, &small), small.to_json());
                }
            }
            if first {
                // nothing reportable came out of it: the case is already counted as inconclusive
            }
        }
    }
}

pub fn run(ctx: &mut Ctx) {
    if let Some(rep) = ctx.replay.clone() {
        let Some(case) = Case::from_json(&rep) else {
            println!("replay: cannot parse case");
            ctx.inconclusive("bad-replay");
            return;
        };
        let o = eval(&case);
        println!("replay: expected dump after every step == start dump and census not grown\nobserved: {}", clip(&format!("{o:?}"), 3000));
        judge(ctx, &case, false);
        return;
    }
    let n = ctx.budget(30, 600);
    for i in 0..n {
        if ctx.out_of_time() {
            break;
        }
        let mut rng = Rng::new(ctx.case_seed(i));
        let case = gen_case(&mut rng, ctx.is_quick());
        judge(ctx, &case, true);
    }
}

#[allow(dead_code)]
fn _unused(_: Value) {}
