//! C29 — after a reload, open files keep the editor's text (SimServer E2).

use crate::props::c27::sanitize;
use crate::report::Ctx;
use crate::rng::Rng;
use crate::simscript::*;
use serde_json::json;

fn last_reload_index(script: &Script) -> Option<usize> {
    script.ops.iter().rposition(|op| matches!(op, Op::Emmyrc(_)))
}

fn last_doc_op_index(script: &Script, d: usize) -> Option<usize> {
    script.ops.iter().rposition(|op| matches!(op, Op::Open(x) | Op::Change(x) | Op::Close(x) | Op::Save(x) if *x == d))
}

fn doc_tail(script: &Script, d: usize) -> String {
    let v: Vec<&str> = script
        .ops
        .iter()
        .filter_map(|op| match op {
            Op::Open(x) if *x == d => Some("open"),
            Op::Change(x) if *x == d => Some("change"),
            Op::Close(x) if *x == d => Some("close"),
            Op::Save(x) if *x == d => Some("save"),
            Op::Disk(x, true) if *x == d => Some("disk-write"),
            Op::Disk(x, false) if *x == d => Some("disk-delete"),
            Op::Emmyrc(_) => Some("RELOAD"),
            _ => None,
        })
        .collect();
    let n = v.len();
    v[n.saturating_sub(3)..].join(",")
}

pub fn oracle(script: &Script, o: &Outcome) -> Option<(String, String)> {
    let reload_at = last_reload_index(script)?;
    for d in 0..script.docs.len() {
        match &o.model.editor[d] {
            Some(t) => {
                if o.final_text[d].as_deref() != Some(t.as_str()) {
                    let obs = match &o.final_text[d] {
                        None => "absent",
                        Some(x) if x.starts_with("local disk") => "disk-content",
                        Some(x) if x.starts_with(&format!("local d{d}_v")) => "older-editor-text",
                        Some(_) => "other",
                    };
                    return Some((
                        format!("C29:open-file-not-on-editor-text:observed={obs}:tail={}", doc_tail(script, d)),
                        format!("doc{d} is open with {:?} but the analysis holds {:?}", t, o.final_text[d]),
                    ));
                }
            }
            None => {
                // closed: judged only if the document was last touched BEFORE the last reload trigger
                // (a close after the reload legitimately leaves the last editor text; that is not this property)
                let touched_after = last_doc_op_index(script, d).map(|i| i > reload_at).unwrap_or(false);
                if o.model.version[d] == 0 && o.model.disk[d].is_none() {
                    continue;
                }
                if touched_after {
                    // closed after the last reload trigger: whether the close was handled before,
                    // during or after the reload is not known from the script. Whatever the timing,
                    // a document that is not on disk must be gone, and an on-disk one holds either
                    // its disk content or (close after the reload) the last editor text — never nothing.
                    let last_editor = doc_text(d, o.model.version[d]);
                    let ok = match &o.model.disk[d] {
                        None => o.final_text[d].is_none(),
                        Some(disk) => o.final_text[d].as_deref() == Some(disk.as_str()) || o.final_text[d].as_deref() == Some(last_editor.as_str()),
                    };
                    if !ok {
                        let obs = match &o.final_text[d] {
                            None => "absent",
                            Some(x) if x.starts_with("local disk") => "older-disk-content",
                            Some(_) => "editor-text",
                        };
                        return Some((
                            format!("C29:file-closed-around-reload-in-impossible-state:observed={obs}:disk={}", if o.model.disk[d].is_some() { "present" } else { "absent" }),
                            format!("doc{d} was closed after the reload trigger; disk holds {:?}, last editor text {:?}, analysis holds {:?}", o.model.disk[d], last_editor, o.final_text[d]),
                        ));
                    }
                    continue;
                }
                if o.final_text[d] != o.model.disk[d] {
                    let obs = match &o.final_text[d] {
                        None => "absent",
                        Some(x) if x.starts_with("local disk") => "older-disk-content",
                        Some(_) => "editor-text",
                    };
                    return Some((
                        format!("C29:closed-file-not-on-disk-content:observed={obs}:disk={}:tail={}", if o.model.disk[d].is_some() { "present" } else { "absent" }, doc_tail(script, d)),
                        format!("doc{d} is closed; disk holds {:?} but the analysis holds {:?}", o.model.disk[d], o.final_text[d]),
                    ));
                }
            }
        }
    }
    None
}

pub const FLAVOR: Flavor = Flavor { reloads: true, requests: true, malformed: false, disk_events: true, saves: true };

pub fn judge(ctx: &mut Ctx, script: &Script, shrink: bool) {
    let o = run_script(script, &ctx.work.clone(), true);
    if o.wedged || !o.stalled_dispatch.is_empty() {
        ctx.inconclusive("server-wedged(reported-by-C28)");
        return;
    }
    if !o.settled {
        ctx.inconclusive("not-settled");
        return;
    }
    if last_reload_index(script).is_none() {
        ctx.inconclusive("no-reload-in-script");
        return;
    }
    ctx.clause_n("reload-triggers", o.model.reload_triggers as u64);
    match oracle(script, &o) {
        None => {
            ctx.clause("post-reload-state-checked");
            let open_docs = o.model.editor.iter().filter(|e| e.is_some()).count();
            if open_docs > 0 {
                ctx.clause("open-file-judged");
            }
            ctx.held(interleaving_hash(&o.lock_events), open_docs >= 1);
            if ctx.want_sample() && open_docs >= 1 && o.lock_events.len() % 9 == 0 {
                ctx.sample(json!({"script_ops": script_to_json(script)["ops"], "virtual_ms": o.virtual_ms, "final_text": o.final_text, "lock_events": o.lock_events.len()}));
            }
        }
        Some((sig, detail)) => {
            let mut best = script.clone();
            if shrink {
                let work = ctx.work.clone();
                let want = sig.clone();
                let ops = crate::util::ddmin(script.ops.clone(), |ops| {
                    let s = sanitize(&Script { ops: ops.to_vec(), ..script.clone() });
                    let o2 = run_script(&s, &work, true);
                    o2.settled && oracle(&s, &o2).map(|(g, _)| g.split(":tail=").next() == want.split(":tail=").next()).unwrap_or(false)
                }, 100);
                best = sanitize(&Script { ops, ..script.clone() });
            }
            let o2 = run_script(&best, &ctx.work.clone(), true);
            let (sig2, detail2) = oracle(&best, &o2).unwrap_or((sig, detail));
            ctx.violated(&sig2, &format!("{detail2}; script {}", script_to_json(&best)["ops"]), script_to_json(&best));
        }
    }
}

pub fn run(ctx: &mut Ctx) {
    crate::util::private_home(&ctx.work.clone(), "c29");
    if let Some(rep) = ctx.replay.clone() {
        let s = script_from_json(&rep);
        judge(ctx, &s, false);
        println!("replay: signatures {:?}", ctx.sig_counts.keys().collect::<Vec<_>>());
        return;
    }
    let n = ctx.budget(100, 5000);
    for i in 0..n {
        if ctx.out_of_time() {
            break;
        }
        let mut rng = Rng::new(ctx.case_seed(i));
        let nops = rng.range(8, 36);
        let mut script = gen_script(&mut rng, FLAVOR, nops);
        // make sure a reload races the document traffic: insert a trigger in the middle third
        let pos = script.ops.len() / 3 + rng.below(script.ops.len() / 3 + 1);
        script.ops.insert(pos, Op::Emmyrc(rng.below(4) as u32));
        if i % 2 == 1 {
            // targeted family: notifications arriving while the debounced reload task runs
            script = gen_race_script(&mut rng, true, 2000);
            ctx.clause("family:race-with-reload");
        }
        for k in 0..3u64 {
            let mut s = script.clone();
            s.sched_seed = if k == 0 { 0 } else { rng.next_u64() | 1 };
            judge(ctx, &s, true);
        }
    }
}
