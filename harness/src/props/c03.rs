//! C03 — valid Lua is never reported as a syntax error (and invalid Lua always is).
//!
//! Reference = validity by construction (gens::valid) for 5.1 … 5.5, plus for 5.5 the `luars`
//! compiler (compile only) as a second opinion: a case is judged only when both agree.
//! Observation points: LuaParser::parse(..).get_errors() with kind SyntaxError, and the
//! `syntax-error` diagnostics of EmmyLuaAnalysis::diagnose_file with runtime.version = v.
//!
//! Clauses:
//!   valid-parse      : valid program ⇒ 0 SyntaxError parse errors
//!   valid-diag       : valid program ⇒ 0 `syntax-error` diagnostics
//!   invalid-rejected : invalid program ⇒ ≥ 1 SyntaxError parse error or `syntax-error` diagnostic
//!   iff              : parse has SyntaxErrors ⇒ diagnose_file reports `syntax-error`

use crate::gens::valid::{self, GenOpts, Layout, MUTATIONS, Mutation, Program, Ver};
use crate::report::{Ctx, clip};
use crate::rng::{Rng, fnv};
use crate::util::guarded;
use emmylua_code_analysis::{Emmyrc, VirtualWorkspace};
use emmylua_parser::{LuaParseErrorKind, LuaParser, ParserConfig};
use serde_json::{Value, json};
use std::collections::BTreeSet;

/// luars (Lua 5.5) compile-only acceptor. Ok(()) = compiles.
pub struct Luars {
    lua: luars::Lua,
}

impl Luars {
    pub fn new() -> Self {
        Luars { lua: luars::Lua::new(luars::SafeOption::default()) }
    }
    pub fn accepts(&mut self, src: &str) -> Result<(), String> {
        let gs = self.lua.global_state_mut();
        match guarded(|| gs.compile(src).map(|_| ())) {
            Ok(r) => r,
            Err(p) => Err(format!("luars panicked: {}", p.message)),
        }
    }
}

pub struct Observed {
    /// messages of SyntaxError parse errors with the byte offset
    pub parse_errors: Vec<(String, usize)>,
    /// messages of `syntax-error` diagnostics
    pub diag_errors: Vec<String>,
}

pub struct Analyzers {
    ws: Vec<VirtualWorkspace>,
}

impl Analyzers {
    pub fn new() -> Self {
        let mut ws = Vec::new();
        for v in valid::VERSIONS {
            let mut w = VirtualWorkspace::new();
            let mut rc: Emmyrc = w.get_emmyrc();
            rc.runtime.version = serde_json::from_value(json!(v.emmyrc_name())).expect("runtime.version value");
            w.update_emmyrc(rc);
            ws.push(w);
        }
        Analyzers { ws }
    }

    pub fn observe(&mut self, ver: Ver, text: &str) -> Result<Observed, String> {
        let tree = LuaParser::parse(text, ParserConfig::with_level(ver.level()));
        let parse_errors: Vec<(String, usize)> = tree.get_errors().iter().filter(|e| e.kind == LuaParseErrorKind::SyntaxError).map(|e| (e.message.clone(), usize::from(e.range.start()))).collect();
        let w = &mut self.ws[ver.index()];
        let file_id = w.def_file("c03_case.lua", text);
        let diags = w.analysis.diagnose_file(file_id, tokio_util::sync::CancellationToken::new()).ok_or_else(|| "diagnose_file returned None".to_string())?;
        let mut diag_errors = Vec::new();
        for d in diags {
            let is_syntax = match &d.code {
                Some(lsp_types::NumberOrString::String(s)) => s == "syntax-error",
                _ => false,
            };
            if is_syntax {
                diag_errors.push(d.message.clone());
            }
        }
        Ok(Observed { parse_errors, diag_errors })
    }
}

/// Programs that a *newer* version accepts but version `v` rejects for syntax reasons
/// (version gating that is unambiguous in the manuals). Returns (tag, statement text).
fn newer_feature(rng: &mut Rng, v: Ver) -> Option<(&'static str, &'static str)> {
    let mut c: Vec<(&'static str, &'static str)> = Vec::new();
    if v <= Ver::L52 {
        c.extend_from_slice(&[
            ("idiv", "local _v = 7 // 2"),
            ("band", "local _v = 3 & 5"),
            ("bor", "local _v = 3 | 4"),
            ("bxor", "local _v = 5 ~ 3"),
            ("shl", "local _v = 1 << 2"),
            ("shr", "local _v = 8 >> 2"),
            ("bnot", "local _v = ~0"),
        ]);
    }
    if v <= Ver::L53 {
        c.extend_from_slice(&[("attrib-const", "local _c <const> = 1"), ("attrib-close", "local _c <close> = nil")]);
    }
    if v == Ver::L51 {
        c.extend_from_slice(&[("goto", "goto _l1"), ("label", "::_l1::"), ("empty-stat", "local _e = 1;;"), ("hex-float", "local _h = 0x1p4")]);
    }
    if v <= Ver::L54 {
        c.extend_from_slice(&[("global-decl", "global _g"), ("named-vararg", "local function _nv(...rest) end"), ("global-function", "global function _gf() end")]);
    }
    if c.is_empty() { None } else { Some(c[rng.below(c.len())]) }
}

#[derive(Clone, Debug)]
enum Kind {
    Valid,
    Mutated(Mutation),
    Newer(&'static str),
}

struct Case {
    ver: Ver,
    kind: Kind,
    prog: Program,
    text: String,
    layout_seed: u64,
    layout: Layout,
    mut_seed: u64,
}

fn layout_of(i: usize) -> Layout {
    match i % 3 {
        0 => Layout::Pretty,
        1 => Layout::Compact,
        _ => Layout::Wild,
    }
}

fn render(prog: &Program, kind: &Kind, layout: Layout, layout_seed: u64, mut_seed: u64, newer_text: Option<&str>) -> Option<String> {
    match kind {
        Kind::Valid => Some(prog.print(&mut Rng::new(layout_seed), layout).text),
        Kind::Mutated(m) => valid::mutate(&mut Rng::new(mut_seed), &prog.tokens(), *m),
        Kind::Newer(_) => {
            let mut t = String::new();
            t.push_str(newer_text?);
            t.push('\n');
            t.push_str(&prog.print(&mut Rng::new(layout_seed), layout).text);
            Some(t)
        }
    }
}

fn newer_text_of(tag: &str) -> Option<&'static str> {
    const ALL: &[(&str, &str)] = &[
        ("idiv", "local _v = 7 // 2"),
        ("band", "local _v = 3 & 5"),
        ("bor", "local _v = 3 | 4"),
        ("bxor", "local _v = 5 ~ 3"),
        ("shl", "local _v = 1 << 2"),
        ("shr", "local _v = 8 >> 2"),
        ("bnot", "local _v = ~0"),
        ("attrib-const", "local _c <const> = 1"),
        ("attrib-close", "local _c <close> = nil"),
        ("goto", "goto _l1"),
        ("label", "::_l1::"),
        ("empty-stat", "local _e = 1;;"),
        ("hex-float", "local _h = 0x1p4"),
        ("global-decl", "global _g"),
        ("named-vararg", "local function _nv(...rest) end"),
        ("global-function", "global function _gf() end"),
    ];
    ALL.iter().find(|x| x.0 == tag).map(|x| x.1)
}

#[derive(Debug)]
enum Verdict {
    Held,
    /// (signature, detail)
    Bad(String, String),
    Inconclusive(String),
}

fn token_class_at(text: &str, off: usize) -> String {
    for t in crate::fmt_oracle::lex(text) {
        if t.start + t.text.len() > off {
            return match t.kind {
                crate::fmt_oracle::LK::Op | crate::fmt_oracle::LK::Keyword => t.text.clone(),
                crate::fmt_oracle::LK::Number => {
                    // numeric literal form
                    let s = t.text.to_ascii_lowercase();
                    if s.starts_with("0x") && (s.contains('p') || s.contains('.')) {
                        "number:hex-float".into()
                    } else if s.starts_with("0x") {
                        "number:hex-int".into()
                    } else if s.contains('e') || s.contains('.') {
                        "number:float".into()
                    } else {
                        "number:int".into()
                    }
                }
                crate::fmt_oracle::LK::Str => {
                    // which escape families occur
                    let mut fam: BTreeSet<&str> = BTreeSet::new();
                    let b = t.text.as_bytes();
                    let mut i = 0;
                    while i + 1 < b.len() {
                        if b[i] == b'\\' {
                            fam.insert(match b[i + 1] {
                                b'x' => "\\x",
                                b'z' => "\\z",
                                b'u' => "\\u",
                                b'\n' => "\\newline",
                                d if d.is_ascii_digit() => "\\ddd",
                                _ => "\\c",
                            });
                            i += 2;
                        } else {
                            i += 1;
                        }
                    }
                    format!("string[{}]", fam.into_iter().collect::<Vec<_>>().join(","))
                }
                k => format!("{k:?}").to_lowercase(),
            };
        }
    }
    "eof".into()
}

fn judge(an: &mut Analyzers, luars: &mut Luars, ver: Ver, kind: &Kind, text: &str) -> Verdict {
    let valid_by_construction = matches!(kind, Kind::Valid);
    // second opinion for 5.5
    if ver == Ver::L55 {
        let acc = luars.accepts(text);
        match (&acc, valid_by_construction) {
            (Ok(()), true) | (Err(_), false) => {}
            (Err(e), true) => return Verdict::Inconclusive(format!("oracles-disagree:valid-by-construction-but-luars-rejects:{}", crate::fmt_oracle::sanitize_msg(strip_loc(e)))),
            (Ok(()), false) => {
                return Verdict::Inconclusive(format!(
                    "oracles-disagree:invalid-by-construction-but-luars-accepts:{}",
                    match kind {
                        Kind::Mutated(m) => format!("{m:?}"),
                        Kind::Newer(t) => t.to_string(),
                        Kind::Valid => String::new(),
                    }
                ));
            }
        }
    }
    let obs = match guarded(|| an.observe(ver, text)) {
        Ok(Ok(o)) => o,
        Ok(Err(e)) => return Verdict::Inconclusive(format!("observe:{e}")),
        Err(p) => {
            // the workspace may be half-updated after an unwinding panic: start a fresh one
            *an = Analyzers::new();
            return Verdict::Bad(format!("C03:panic:{}", p.sig()), format!("{} at {}", p.message, p.location));
        }
    };
    if !obs.parse_errors.is_empty() && obs.diag_errors.is_empty() {
        return Verdict::Bad(format!("C03:iff:parse-error-not-diagnosed:v={}", ver.name()), format!("parser reports {:?} but diagnose_file has no syntax-error diagnostic", obs.parse_errors[0].0));
    }
    if valid_by_construction {
        if let Some((msg, off)) = obs.parse_errors.first() {
            return Verdict::Bad(
                format!("C03:valid-rejected:v={}:at={}:msg={}", ver.name(), token_class_at(text, *off), crate::fmt_oracle::sanitize_msg(msg)),
                format!("valid Lua {} program gets parse error {:?} at byte {}", ver.name(), msg, off),
            );
        }
        if let Some(msg) = obs.diag_errors.first() {
            return Verdict::Bad(format!("C03:valid-diagnosed:v={}:msg={}", ver.name(), crate::fmt_oracle::sanitize_msg(msg)), format!("valid Lua {} program gets a syntax-error diagnostic {:?}", ver.name(), msg));
        }
        Verdict::Held
    } else {
        if obs.parse_errors.is_empty() && obs.diag_errors.is_empty() {
            let what = match kind {
                Kind::Mutated(m) => format!("mutation={m:?}"),
                Kind::Newer(t) => format!("newer={t}"),
                Kind::Valid => String::new(),
            };
            return Verdict::Bad(format!("C03:invalid-accepted:v={}:{}", ver.name(), what), format!("program that Lua {} rejects for syntax reasons gets no syntax error ({what})", ver.name()));
        }
        Verdict::Held
    }
}

fn strip_loc(e: &str) -> &str {
    // "[string "..."]:12: message" -> message
    match e.rfind("]:") {
        Some(p) => {
            let rest = &e[p + 2..];
            match rest.find(": ") {
                Some(q) => &rest[q + 2..],
                None => rest,
            }
        }
        None => e,
    }
}

fn replay_json(c: &Case, text: &str) -> Value {
    json!({
        "text": text,
        "ver": c.ver.name(),
        "kind": match &c.kind { Kind::Valid => "valid".to_string(), Kind::Mutated(m) => format!("mutated:{m:?}"), Kind::Newer(t) => format!("newer:{t}") },
        "original_statements": c.prog.stmt_count(),
    })
}

fn kind_from_str(s: &str) -> Kind {
    if let Some(m) = s.strip_prefix("mutated:") {
        for x in MUTATIONS {
            if format!("{x:?}") == m {
                return Kind::Mutated(x);
            }
        }
    }
    if let Some(t) = s.strip_prefix("newer:") {
        const TAGS: &[&str] = &["idiv", "band", "bor", "bxor", "shl", "shr", "bnot", "attrib-const", "attrib-close", "goto", "label", "empty-stat", "hex-float", "global-decl", "named-vararg", "global-function"];
        for x in TAGS {
            if *x == t {
                return Kind::Newer(x);
            }
        }
    }
    Kind::Valid
}

pub fn run(ctx: &mut Ctx) {
    let _home = crate::util::private_home(&ctx.work, &format!("c03-{}", ctx.shard));
    let mut an = Analyzers::new();
    let mut luars = Luars::new();
    if let Some(rep) = ctx.replay.clone() {
        let text = rep["text"].as_str().unwrap_or("").to_string();
        let ver = valid::VERSIONS.iter().copied().find(|v| Some(v.name()) == rep["ver"].as_str()).unwrap_or(Ver::L55);
        let kind = kind_from_str(rep["kind"].as_str().unwrap_or("valid"));
        println!("replay: Lua {} {:?} program {:?}", ver.name(), kind, clip(&text, 600));
        match judge(&mut an, &mut luars, ver, &kind, &text) {
            Verdict::Held => {
                println!("replay: held");
                ctx.held(fnv(text.as_bytes()), true);
            }
            Verdict::Bad(sig, d) => {
                println!("replay: VIOLATED {sig}: {d}");
                ctx.violated(&sig, &d, rep);
            }
            Verdict::Inconclusive(r) => {
                println!("replay: inconclusive {r}");
                ctx.inconclusive(&r);
            }
        }
        return;
    }
    let n = ctx.budget(3_000, 60_000);
    let mut shrinks = 0u32;
    for i in 0..n {
        if ctx.out_of_time() {
            break;
        }
        let mut rng = Rng::new(ctx.case_seed(i));
        let ver = Ver::from_index(rng.below(5));
        let size = if ctx.is_quick() { rng.range(4, 30) } else { rng.range(10, 80) };
        let opts = GenOpts { size, comments: rng.bool(), docs: false };
        let prog = valid::gen_program(&mut rng, ver, &opts);
        let r = rng.below(100);
        let kind = if r < 60 {
            Kind::Valid
        } else if r < 90 {
            Kind::Mutated(MUTATIONS[rng.below(MUTATIONS.len())])
        } else {
            match newer_feature(&mut rng, ver) {
                Some((tag, _)) => Kind::Newer(tag),
                None => Kind::Valid,
            }
        };
        let layout = layout_of(rng.below(3));
        let layout_seed = rng.next_u64();
        let mut_seed = rng.next_u64();
        let newer = if let Kind::Newer(t) = &kind { newer_text_of(t) } else { None };
        let Some(text) = render(&prog, &kind, layout, layout_seed, mut_seed, newer) else {
            ctx.clause("mutation-no-site");
            continue;
        };
        let case = Case { ver, kind, prog, text, layout_seed, layout, mut_seed };
        ctx.clause(&format!("version:{}", ver.name()));
        match judge(&mut an, &mut luars, case.ver, &case.kind, &case.text) {
            Verdict::Held => {
                match &case.kind {
                    Kind::Valid => {
                        ctx.clause("valid-parse");
                        ctx.clause("valid-diag");
                    }
                    Kind::Mutated(m) => {
                        ctx.clause("invalid-rejected");
                        ctx.clause(&format!("mutation:{m:?}"));
                    }
                    Kind::Newer(_) => {
                        ctx.clause("invalid-rejected");
                        ctx.clause("newer-feature-rejected");
                    }
                }
                if case.ver == Ver::L55 {
                    ctx.clause("luars-agrees");
                }
                let fp = case.prog.fingerprint() ^ fnv(format!("{:?}", case.kind).as_bytes());
                ctx.held(fp, case.prog.prods.len() >= 12);
                if ctx.want_sample() && i % 331 == 9 {
                    ctx.sample(json!({"ver": case.ver.name(), "kind": format!("{:?}", case.kind), "productions": case.prog.prods.len(), "text": clip(&case.text, 400)}));
                }
            }
            Verdict::Inconclusive(r) => ctx.inconclusive(&r),
            Verdict::Bad(sig, detail) => {
                if ctx.sig_counts.get(&sig).copied().unwrap_or(0) >= 3 || shrinks >= 25 {
                    ctx.violated(&sig, &detail, replay_json(&case, &case.text));
                    continue;
                }
                shrinks += 1;
                // shrink over removable statements of the generator's AST (keeps validity by construction)
                let ids = case.prog.stmt_ids();
                let newer = if let Kind::Newer(t) = &case.kind { newer_text_of(t) } else { None };
                let clause_of = |s: &str| s.split(':').take(2).collect::<Vec<_>>().join(":");
                let want = clause_of(&sig);
                let keep = crate::util::ddmin(
                    ids,
                    |keep| {
                        let set: BTreeSet<u32> = keep.iter().copied().collect();
                        let p = case.prog.retain(&set);
                        match render(&p, &case.kind, case.layout, case.layout_seed, case.mut_seed, newer) {
                            Some(t) => matches!(judge(&mut an, &mut luars, case.ver, &case.kind, &t), Verdict::Bad(s, _) if clause_of(&s) == want),
                            None => false,
                        }
                    },
                    300,
                );
                let set: BTreeSet<u32> = keep.iter().copied().collect();
                let p = case.prog.retain(&set);
                let small = render(&p, &case.kind, case.layout, case.layout_seed, case.mut_seed, newer).unwrap_or_else(|| case.text.clone());
                match judge(&mut an, &mut luars, case.ver, &case.kind, &small) {
                    Verdict::Bad(s2, d2) => ctx.violated(&s2, &format!("{d2}; shrunk program {:?}", clip(&small, 400)), replay_json(&case, &small)),
                    _ => ctx.violated(&sig, &detail, replay_json(&case, &case.text)),
                }
            }
        }
    }
}
