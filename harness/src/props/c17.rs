//! C17 — rendered types read back as the same type.
//!
//! For T in the sub-grammar whose display syntax is annotation syntax (primitives, literals,
//! unions, optionals, arrays, map and record tables, class / alias / enum references):
//!   L  = type of `---@type <T>`                     (real LuaType)
//!   r  = humanize_type(db, L, RenderLevel::Documentation)
//!   L' = type of `---@type <r>`
//! and L' must equal L structurally (unions as sets). Renderings that contain the truncation
//! marker `...` (outside string literals) are outside "the renderer's size limits": skipped and
//! counted. The multi-line expanded member view that Documentation level uses for a top-level
//! class / enum reference is display-only syntax: skipped and counted.

use crate::gens::types::{Canon, GenOpts, Hier, Ty, TypeWs, canon, gen_type, shrink, shrink_h};
use crate::report::{Ctx, clip};
use crate::rng::{Rng, fnv};
use crate::util::guarded;
use serde_json::{Value, json};
use std::collections::{BTreeMap, BTreeSet};

#[derive(Debug)]
pub enum Outcome {
    Held { rendered: String },
    Skipped(&'static str),
    Inconclusive(String),
    Violated { rendered: String, expected: String, observed: String, rerender_same: bool },
}

/// `...` outside double-quoted string literals
pub fn has_truncation_marker(r: &str) -> bool {
    let b: Vec<char> = r.chars().collect();
    let mut i = 0;
    let mut dots = 0;
    while i < b.len() {
        let c = b[i];
        if c == '"' {
            dots = 0;
            i += 1;
            while i < b.len() && b[i] != '"' {
                if b[i] == '\\' {
                    i += 1;
                }
                i += 1;
            }
            i += 1;
            continue;
        }
        if c == '.' {
            dots += 1;
            if dots >= 3 {
                return true;
            }
        } else {
            dots = 0;
        }
        i += 1;
    }
    false
}

fn classify_rendering(r: &str) -> Option<&'static str> {
    if r.contains('\n') {
        return Some("expanded-member-view");
    }
    if has_truncation_marker(r) {
        return Some("truncated");
    }
    None
}

/// "Same type": equal canonical forms, or equal after making aliases transparent and letting
/// `any` absorb its union (`A0|nil` renders as `A0?`, which the annotation pipeline reads as the
/// expanded alias plus nil; `nil|any` renders as `any?`, which reads as `any`). Neither is a change
/// of meaning, so neither is counted as a violation.
pub fn same_type(a: &Canon, b: &Canon, aliases: &BTreeMap<String, Canon>) -> Option<&'static str> {
    if a == b {
        return Some("exact");
    }
    if a.expand(aliases).absorb_any() == b.expand(aliases).absorb_any() {
        return Some("modulo-alias-or-any");
    }
    None
}

pub fn roundtrip(ws: &mut TypeWs, repr: &str, aliases: &BTreeMap<String, Canon>) -> Outcome {
    let Some(l) = ws.ty(repr) else { return Outcome::Inconclusive("no-semantic-info".into()) };
    let c = canon(&l, false);
    if c.has_opaque() {
        return Outcome::Skipped("outside-subset");
    }
    let r = ws.render(&l);
    if let Some(why) = classify_rendering(&r) {
        return Outcome::Skipped(why);
    }
    let Some(l2) = ws.ty(&r) else { return Outcome::Inconclusive("no-semantic-info-for-rendering".into()) };
    let c2 = canon(&l2, false);
    if same_type(&c, &c2, aliases).is_some() {
        return Outcome::Held { rendered: r };
    }
    let r2 = ws.render(&l2);
    Outcome::Violated { rendered: r.clone(), expected: c.show(), observed: c2.show(), rerender_same: r2 == r }
}

fn report(ctx: &mut Ctx, hier: &Hier, ws: &mut TypeWs, aliases: &BTreeMap<String, Canon>, t: &Ty) {
    let mut small = shrink_h(t, hier, |c| matches!(roundtrip(ws, &c.print(), aliases), Outcome::Violated { .. }), 400);
    // A string literal can fail only in company (e.g. `'"'|integer`: the stray quote swallows what
    // follows) — try the literal with one padding character on its own, so that the same root cause
    // converges to the same witness.
    if !matches!(small, Ty::Str(_)) {
        let mut leaves: Vec<String> = Vec::new();
        collect_strs(&small, &mut leaves);
        'pad: for s in leaves {
            for cand in [Ty::Str(format!("{s}b")), Ty::Str(format!("b{s}"))] {
                if matches!(roundtrip(ws, &cand.print(), aliases), Outcome::Violated { .. }) {
                    small = shrink(&cand, |c| matches!(roundtrip(ws, &c.print(), aliases), Outcome::Violated { .. }), 200);
                    break 'pad;
                }
            }
        }
    }
    let mut names = BTreeSet::new();
    small.names(&mut names);
    let defs = hier.to_lua(Some(&names));
    let mut fresh = TypeWs::new(&defs);
    let kept: Vec<_> = hier.aliases.iter().filter(|a| names.contains(&a.name) || defs.contains(&format!("---@alias {}", a.name))).cloned().collect();
    let fresh_aliases = fresh.alias_map(&Hier { inst_args: vec![], classes: vec![], enums: vec![], aliases: kept.clone() });
    match roundtrip(&mut fresh, &small.print(), &fresh_aliases) {
        Outcome::Violated { rendered, expected, observed, rerender_same } => {
            let sig = format!("C17:roundtrip:{}", small.skeleton());
            ctx.violated(
                &sig,
                &format!(
                    "T = `{}` renders as `{}` which reads back as {} instead of {} (re-rendering the read-back type gives {} text); original type `{}`",
                    small.print(),
                    rendered,
                    observed,
                    expected,
                    if rerender_same { "the SAME" } else { "a different" },
                    clip(&t.print(), 300)
                ),
                json!({"defs": defs, "type": small.print(), "sig": sig, "aliases": kept.iter().filter(|a| a.tparams.is_empty()).map(|a| json!({"name": a.name, "type": a.ty.print()})).collect::<Vec<_>>()}),
            );
        }
        _ => ctx.inconclusive("shrunk-case-not-reproduced-in-fresh-workspace"),
    }
}

fn collect_strs(t: &Ty, out: &mut Vec<String>) {
    if let Ty::Str(s) = t {
        out.push(s.clone());
    }
    for c in t.children() {
        collect_strs(c, out);
    }
}

fn run_batch(ctx: &mut Ctx, rng: &mut Rng, depth: usize, per_batch: usize) {
    let hier = Hier::generate(rng);
    let defs = hier.to_lua(None);
    let mut ws = TypeWs::new(&defs);
    let aliases = ws.alias_map(&hier);
    ctx.clause("batch");
    let opts = GenOpts { depth, c17_subset: true, exotic: false, allow_any: true, allow_unknown: false, generic_alias: false };
    let tys: Vec<Ty> = (0..per_batch)
        .map(|_| {
            let d = rng.range(1, depth);
            gen_type(rng, &hier, &GenOpts { depth: d, ..opts.clone() })
        })
        .collect();
    let reprs: Vec<String> = tys.iter().map(|t| t.print()).collect();
    let first = ws.types(&reprs);
    // render everything, then read all renderings back through one file
    let mut renders: Vec<Option<String>> = Vec::new();
    let mut canons: Vec<Option<Canon>> = Vec::new();
    for (i, l) in first.iter().enumerate() {
        let Some(l) = l else {
            ctx.inconclusive("no-semantic-info");
            renders.push(None);
            canons.push(None);
            continue;
        };
        let c = canon(l, false);
        if c.has_opaque() {
            ctx.extra_add("skipped:outside-subset", 1);
            renders.push(None);
            canons.push(None);
            continue;
        }
        let r = ws.render(l);
        ctx.clause("rendered");
        if let Some(why) = classify_rendering(&r) {
            ctx.extra_add(&format!("skipped:{why}"), 1);
            ctx.clause(&format!("skipped:{why}"));
            renders.push(None);
            canons.push(None);
            continue;
        }
        if ctx.want_sample() && tys[i].nodes() >= 4 && i % 11 == 3 {
            ctx.sample(json!({"annotation": reprs[i], "rendered": r, "real_type": c.show()}));
        }
        renders.push(Some(r));
        canons.push(Some(c));
    }
    let idx: Vec<usize> = (0..tys.len()).filter(|i| renders[*i].is_some()).collect();
    let texts: Vec<String> = idx.iter().map(|i| renders[*i].clone().unwrap()).collect();
    let second = if texts.is_empty() { vec![] } else { ws.types(&texts) };
    for (k, i) in idx.iter().enumerate() {
        ctx.clause("a:structural-roundtrip");
        let Some(l2) = &second[k] else {
            // the rendering did not even produce a typed local: decide on the slow path
            match roundtrip(&mut ws, &reprs[*i], &aliases) {
                Outcome::Violated { .. } => report(ctx, &hier, &mut ws, &aliases, &tys[*i]),
                _ => ctx.inconclusive("no-semantic-info-for-rendering"),
            }
            continue;
        };
        let c2 = canon(l2, false);
        let c = canons[*i].as_ref().unwrap();
        if let Some(how) = same_type(c, &c2, &aliases) {
            ctx.clause(&format!("held:{how}"));
            // weaker second clause: the read-back type renders to the same text
            ctx.clause("b:rerender-equal");
            let r2 = ws.render(l2);
            if Some(&r2) != renders[*i].as_ref() {
                ctx.extra_add("rerender_text_differs_but_type_equal", 1);
            }
            let lit = c.any(&|x| matches!(x, Canon::Str(..)));
            if lit {
                ctx.clause("family:string-literal");
            }
            if c.any(&|x| matches!(x, Canon::Arr(inner) if matches!(**inner, Canon::Union(_)))) {
                ctx.clause("family:array-of-union");
            }
            if c.any(&|x| matches!(x, Canon::Obj(..))) {
                ctx.clause("family:record");
            }
            ctx.held(fnv(reprs[*i].as_bytes()), tys[*i].nodes() >= 3);
        } else {
            // confirm on the slow path (own files), then shrink
            match roundtrip(&mut ws, &reprs[*i], &aliases) {
                Outcome::Violated { .. } => report(ctx, &hier, &mut ws, &aliases, &tys[*i]),
                Outcome::Held { .. } => ctx.inconclusive("batch-and-single-evaluation-disagree"),
                Outcome::Skipped(w) => ctx.inconclusive(&format!("slow-path-skipped:{w}")),
                Outcome::Inconclusive(r) => ctx.inconclusive(&r),
            }
        }
    }
}

fn replay(ctx: &mut Ctx, rep: Value) {
    let defs = rep["defs"].as_str().unwrap_or("").to_string();
    let ty = rep["type"].as_str().unwrap_or("").to_string();
    let mut ws = TypeWs::new(&defs);
    let mut aliases = BTreeMap::new();
    for a in rep["aliases"].as_array().cloned().unwrap_or_default() {
        if let (Some(n), Some(t)) = (a["name"].as_str(), a["type"].as_str()) {
            if let Some(lt) = ws.ty(t) {
                let c = canon(&lt, false).expand(&aliases);
                aliases.insert(n.to_string(), c);
            }
        }
    }
    println!("replay: T = `{ty}`\ndefinitions:\n{defs}");
    match roundtrip(&mut ws, &ty, &aliases) {
        Outcome::Held { rendered } => {
            println!("replay: held (rendered `{rendered}` reads back as the same type)");
            ctx.held(fnv(ty.as_bytes()), true);
        }
        Outcome::Skipped(w) => {
            println!("replay: skipped ({w})");
            ctx.inconclusive(w);
        }
        Outcome::Inconclusive(r) => {
            println!("replay: inconclusive ({r})");
            ctx.inconclusive(&r);
        }
        Outcome::Violated { rendered, expected, observed, rerender_same } => {
            println!("replay: VIOLATED — rendered `{rendered}`; expected read-back {expected}; observed {observed}; rerender_same={rerender_same}");
            let sig = rep["sig"].as_str().map(|s| s.to_string()).unwrap_or_else(|| "C17:roundtrip:replay".to_string());
            ctx.violated(&sig, &format!("rendered `{rendered}` reads back as {observed}, expected {expected}"), rep);
        }
    }
}

pub fn run(ctx: &mut Ctx) {
    if let Some(rep) = ctx.replay.clone() {
        if let Err(p) = guarded(|| replay(ctx, rep.clone())) {
            println!("replay: PANIC {}", p.sig());
            ctx.violated(&format!("C17:panic:{}", p.sig()), &p.message, rep);
        }
        return;
    }
    let per_batch = 80usize;
    let n = ctx.budget(250, 3750);
    for i in 0..n {
        if ctx.out_of_time() {
            break;
        }
        let mut rng = Rng::new(ctx.case_seed(i));
        let depth = if ctx.is_quick() || i % 3 != 0 { 4 } else { 5 };
        if let Err(p) = guarded(|| run_batch(ctx, &mut rng, depth, per_batch)) {
            ctx.inconclusive(&format!("panic:{}", p.sig()));
        }
    }
}
