//! C40 — JSON-schema conversion emits valid annotations.
//!
//! Generated JSON schemas → `SchemaConverter::new(p).convert(&schema)` under `catch_unwind` → the
//! annotation text is parsed with the real Lua parser.
//!
//! Clauses: (a) no panic; (b) the annotation text has no parse errors (syntax or doc); (c) some
//! `---@class` / `---@alias` / `---@enum` in the parsed text declares exactly `root_type_name`.

use super::c31::{panic_class, shrink_json};
use crate::report::{Ctx, clip};
use crate::rng::{Rng, fnv};
use crate::util::guarded;
use emmylua_parser::{LuaAstNode, LuaDocTagAlias, LuaDocTagClass, LuaDocTagEnum, LuaParser, ParserConfig};
use schema_to_emmylua::SchemaConverter;
use serde_json::{Map, Value, json};

const PLAIN_NAMES: &[&str] = &["name", "count", "items", "Level", "Config", "enable", "severity", "a1", "_x", "camelCase", "snake_case"];
const ODD_NAMES: &[&str] = &[
    "end", "local", "function", "nil", "true", "self", "with space", "a.b", "a-b", "1abc", "$schema", "", " ", "quo\"te", "apos'trophe", "back\\slash", "new\nline", "tab\there", "é", "名前", "😀",
    "]", "[", "\"]", "a]b", "--", "---@class X", "?", "a?", "#", "@", "a,b", "a|b", "a:b", "<T>", "(x)", "{}", "a\rb", "\u{0}", "\u{feff}x", "very_long_name_very_long_name_very_long_name_very_long_name",
];
const STRINGS: &[&str] = &[
    "red", "green", "info", "error", "", " ", "with space", "quo\"te", "\"", "\\", "\\\"", "apos'", "new\nline", "line1\nline2\nline3", "cr\rlf", "\r\n", "tab\t", "é", "名", "😀", "# hash", "-- dash", "|", "a | b", "`tick`",
    "]]", "[[", "--[[", "---@field x y", "@", "{", "}", "<", ">", "\u{0}", "\u{2028}", "end", "nil", "100%", "*/", "${x}",
];
const TYPES: &[&str] = &["string", "integer", "number", "boolean", "null", "object", "array", "weird", ""];

fn name(rng: &mut Rng) -> String {
    if rng.chance(2, 3) { rng.pick(PLAIN_NAMES).to_string() } else { rng.pick(ODD_NAMES).to_string() }
}
fn text(rng: &mut Rng) -> String {
    if rng.chance(1, 2) { rng.pick(&STRINGS[..4]).to_string() } else { rng.pick(STRINGS).to_string() }
}
fn description(rng: &mut Rng) -> Value {
    match rng.below(8) {
        0 => json!("Single line."),
        1 => json!("First line.\nSecond line."),
        2 => json!("  padded \n\n trailing\n"),
        3 => json!(text(rng)),
        4 => json!(42),
        5 => json!(null),
        6 => json!("ends with backslash \\"),
        _ => json!("Uses `code`, \"quotes\" and # hash; see ---@class Foo"),
    }
}

fn wrong(rng: &mut Rng) -> Value {
    match rng.below(8) {
        0 => json!(null),
        1 => json!(1),
        2 => json!("str"),
        3 => json!([]),
        4 => json!({}),
        5 => json!(true),
        6 => json!([1, "a", null, {}]),
        _ => json!({"a": {"b": 1}}),
    }
}

fn reference(rng: &mut Rng, defs: &[String]) -> Value {
    match rng.below(10) {
        0 => json!("#"),
        1 => json!(""),
        2 => json!("#/$defs/"),
        3 => json!("#/definitions/Missing"),
        4 => json!("http://example.com/schema.json#/x y"),
        5 => json!(format!("#/$defs/{}", name(rng))),
        6 => json!(7),
        _ => {
            if defs.is_empty() {
                json!("#/$defs/Dangling")
            } else {
                json!(format!("#/$defs/{}", defs[rng.below(defs.len())]))
            }
        }
    }
}

fn gen_schema(rng: &mut Rng, depth: usize, defs: &[String]) -> Value {
    let mut m = Map::new();
    if rng.chance(1, 3) {
        m.insert("description".into(), description(rng));
    }
    let roll = rng.below(if depth >= 3 { 9 } else { 15 });
    match roll {
        0 | 1 => {
            m.insert("type".into(), json!(rng.pick(TYPES)));
        }
        2 => {
            let n = rng.range(1, 3);
            m.insert("type".into(), Value::Array((0..n).map(|_| json!(rng.pick(TYPES))).collect()));
        }
        3 => {
            m.insert("$ref".into(), reference(rng, defs));
        }
        4 | 5 => {
            let n = rng.range(0, 4);
            let vals: Vec<Value> = (0..n).map(|_| if rng.chance(1, 6) { wrong(rng) } else { json!(text(rng)) }).collect();
            m.insert("enum".into(), Value::Array(vals));
            if rng.bool() {
                m.insert("type".into(), json!("string"));
            }
        }
        6 => {
            m.insert("const".into(), if rng.chance(1, 4) { wrong(rng) } else { json!(text(rng)) });
        }
        7 => {
            // oneOf of consts with descriptions (the DiagnosticCode style of the repo's own schema)
            let n = rng.range(0, 3);
            let alts: Vec<Value> = (0..n)
                .map(|_| {
                    let mut a = Map::new();
                    a.insert("type".into(), json!("string"));
                    if rng.chance(5, 6) {
                        a.insert("const".into(), json!(text(rng)));
                    } else {
                        a.insert("enum".into(), json!([text(rng)]));
                    }
                    if rng.bool() {
                        a.insert("description".into(), description(rng));
                    }
                    Value::Object(a)
                })
                .collect();
            m.insert("oneOf".into(), Value::Array(alts));
        }
        8 => {
            m.insert(rng.pick(&["type", "enum", "oneOf", "anyOf", "properties", "required", "items", "additionalProperties", "$ref", "title", "$defs"]).to_string(), wrong(rng));
        }
        9 | 10 => {
            let key = rng.pick(&["anyOf", "oneOf", "allOf"]);
            let n = rng.range(0, 3);
            let mut alts: Vec<Value> = (0..n).map(|_| gen_schema(rng, depth + 1, defs)).collect();
            if rng.chance(1, 3) {
                alts.push(json!({"type": "null"}));
            }
            m.insert(key.into(), Value::Array(alts));
        }
        11 => {
            m.insert("type".into(), json!("array"));
            if rng.chance(4, 5) {
                m.insert("items".into(), gen_schema(rng, depth + 1, defs));
            }
        }
        _ => {
            m.insert("type".into(), json!("object"));
            if rng.chance(4, 5) {
                let n = rng.range(0, 4);
                let mut props = Map::new();
                let mut names = Vec::new();
                for _ in 0..n {
                    let k = name(rng);
                    names.push(k.clone());
                    props.insert(k, gen_schema(rng, depth + 1, defs));
                }
                m.insert("properties".into(), Value::Object(props));
                if rng.bool() {
                    let mut req: Vec<Value> = names.iter().filter(|_| rng.bool()).map(|n| json!(n)).collect();
                    if rng.chance(1, 5) {
                        req.push(wrong(rng));
                    }
                    m.insert("required".into(), Value::Array(req));
                }
            }
            if rng.chance(1, 3) {
                m.insert("additionalProperties".into(), if rng.chance(1, 4) { json!(rng.bool()) } else { gen_schema(rng, depth + 1, defs) });
            }
        }
    }
    Value::Object(m)
}

fn gen_root(rng: &mut Rng) -> (Value, bool) {
    let ndefs = rng.range(0, 4);
    let def_names: Vec<String> = (0..ndefs).map(|_| name(rng)).collect();
    let mut root = match gen_schema(rng, 0, &def_names) {
        Value::Object(m) => m,
        _ => Map::new(),
    };
    // most roots are object schemas with a title, as the converter expects
    if rng.chance(4, 5) {
        root.insert("type".into(), json!("object"));
        if !root.contains_key("properties") {
            let mut props = Map::new();
            for _ in 0..rng.range(0, 4) {
                props.insert(name(rng), gen_schema(rng, 1, &def_names));
            }
            root.insert("properties".into(), Value::Object(props));
        }
    }
    match rng.below(10) {
        0 => {}
        1 => {
            root.insert("title".into(), json!(name(rng)));
        }
        2 => {
            root.insert("title".into(), wrong(rng));
        }
        _ => {
            root.insert("title".into(), json!(rng.pick(PLAIN_NAMES)));
        }
    }
    if ndefs > 0 {
        let mut defs = Map::new();
        for n in &def_names {
            defs.insert(n.clone(), gen_schema(rng, 1, &def_names));
        }
        root.insert(if rng.chance(5, 6) { "$defs" } else { "definitions" }.into(), Value::Object(defs));
    }
    root.insert("$schema".into(), json!("https://json-schema.org/draft/2020-12/schema"));
    (Value::Object(root), rng.chance(1, 4))
}

#[derive(Clone, Debug)]
struct Bad {
    sig: String,
    detail: String,
}

struct Good {
    lines: usize,
    decls: usize,
}

/// kind of the emitted line an error sits on
fn line_kind(line: &str) -> &'static str {
    let t = line.trim_start();
    if t.starts_with("---@class") {
        "class"
    } else if t.starts_with("---@alias") {
        "alias"
    } else if t.starts_with("---@field") {
        "field"
    } else if t.starts_with("---|") {
        "alias-variant"
    } else if t.starts_with("---@") {
        "other-tag"
    } else if t.starts_with("---") {
        "description"
    } else if t.starts_with("--") {
        "comment"
    } else if t.is_empty() {
        "blank"
    } else {
        "not-a-comment"
    }
}

/// Defect class of a syntax error, read off the (shrunk) schema and the offending emitted line:
///  * `index-signature` — the `additionalProperties` line `---@field ["[string] : T"] `;
///  * `unescaped:<role>:<char class>` — a user string that reaches the output verbatim and contains a
///    character that breaks the annotation there (role = type-name | field-name | string-literal |
///    description). A candidate string only counts when it is *causal*: replacing it by a plain string
///    makes the emitted text parse;
///  * `empty-type` — an empty `anyOf` / `oneOf` / `enum` / `type` list produces an empty type expression;
///  * `other`.
fn defect_class(schema: &Value, line: &str, private: bool) -> String {
    if line.trim_start().starts_with("---@field [\"[string] : ") {
        return "index-signature".into();
    }
    fn relevant(role: &str, c: char) -> Option<(u32, &'static str)> {
        let k = match c {
            '\n' | '\r' | '\u{2028}' => (10, "newline"),
            '"' => (9, "quote"),
            '\\' => (8, "backslash"),
            c if c.is_control() => (7, "control"),
            c if (role == "type-name" || role == "field-name") && !(c.is_ascii_alphanumeric() || c == '_' || c == '.') => (3, "non-identifier"),
            c if role == "description" && c.is_ascii_punctuation() => (5, "markup-character"),
            _ => return None,
        };
        if role == "description" && !matches!(k.1, "newline" | "markup-character") {
            return None;
        }
        Some(k)
    }
    struct Cand {
        rank: u32,
        role: &'static str,
        class: &'static str,
        /// JSON path of the string; for keys the path of the object plus the key
        path: Vec<String>,
        key: Option<String>,
    }
    fn see(role: &'static str, s: &str, path: &[String], key: Option<&str>, out: &mut Vec<Cand>) {
        let mut best: Option<(u32, &'static str)> = None;
        if role == "type-name" && s.is_empty() {
            best = Some((3, "empty"));
        }
        for c in s.chars() {
            if let Some(k) = relevant(role, c) {
                if best.map(|b| b.0 < k.0).unwrap_or(true) {
                    best = Some(k);
                }
            }
        }
        if let Some((rank, class)) = best {
            out.push(Cand { rank, role, class, path: path.to_vec(), key: key.map(|k| k.to_string()) });
        }
    }
    fn walk(v: &Value, path: &mut Vec<String>, out: &mut Vec<Cand>, empty: &mut bool, depth: usize) {
        let Value::Object(m) = v else { return };
        if depth > 12 {
            return;
        }
        for (k, x) in m {
            path.push(k.clone());
            match k.as_str() {
                "title" | "$ref" => {
                    if let Some(s) = x.as_str() {
                        see("type-name", if k == "$ref" { s.rsplit('/').next().unwrap_or("") } else { s }, path, None, out)
                    }
                }
                "description" => {
                    if let Some(s) = x.as_str() {
                        see("description", s, path, None, out)
                    }
                }
                "const" => {
                    if let Some(s) = x.as_str() {
                        see("string-literal", s, path, None, out)
                    }
                }
                "enum" => {
                    if let Some(a) = x.as_array() {
                        if !a.iter().any(|e| e.is_string()) {
                            *empty = true;
                        }
                        for (i, e) in a.iter().enumerate() {
                            if let Some(s) = e.as_str() {
                                path.push(i.to_string());
                                see("string-literal", s, path, None, out);
                                path.pop();
                            }
                        }
                    }
                }
                "properties" | "$defs" => {
                    if let Some(o) = x.as_object() {
                        for (name, sub) in o {
                            see(if k == "properties" { "field-name" } else { "type-name" }, name, path, Some(name), out);
                            path.push(name.clone());
                            walk(sub, path, out, empty, depth + 1);
                            path.pop();
                        }
                    }
                }
                "oneOf" | "anyOf" | "allOf" => {
                    if let Some(a) = x.as_array() {
                        if k != "allOf" && !a.iter().any(|e| e.get("type").and_then(|t| t.as_str()) != Some("null")) {
                            *empty = true;
                        }
                        for (i, e) in a.iter().enumerate() {
                            path.push(i.to_string());
                            walk(e, path, out, empty, depth + 1);
                            path.pop();
                        }
                    }
                }
                "type" => {
                    if let Some(a) = x.as_array() {
                        if !a.iter().any(|e| e.as_str().map(|t| t != "null").unwrap_or(false)) {
                            *empty = true;
                        }
                    }
                }
                "items" | "additionalProperties" => walk(x, path, out, empty, depth + 1),
                _ => {}
            }
            path.pop();
        }
    }
    fn at<'a>(root: &'a mut Value, path: &[String]) -> Option<&'a mut Value> {
        let mut n = root;
        for seg in path {
            n = match n {
                Value::Object(m) => m.get_mut(seg)?,
                Value::Array(a) => a.get_mut(seg.parse::<usize>().ok()?)?,
                _ => return None,
            };
        }
        Some(n)
    }
    let mut cands = Vec::new();
    let mut empty = false;
    walk(schema, &mut Vec::new(), &mut cands, &mut empty, 0);
    cands.sort_by(|a, b| b.rank.cmp(&a.rank));
    for c in cands.iter().take(12) {
        // counterfactual: the same schema with this one string made harmless
        let mut fixed = schema.clone();
        let ok = match &c.key {
            Some(k) => match at(&mut fixed, &c.path) {
                Some(Value::Object(m)) => match m.remove(k) {
                    Some(v) => {
                        m.insert("plainname".into(), v);
                        true
                    }
                    None => false,
                },
                _ => false,
            },
            None => match at(&mut fixed, &c.path) {
                Some(v) => {
                    *v = if c.path.last().map(|k| k == "$ref").unwrap_or(false) { json!("#/$defs/plainname") } else { json!("plain") };
                    true
                }
                None => false,
            },
        };
        if ok && !has_parse_errors(&fixed, private) {
            return format!("unescaped:{}:{}", c.role, c.class);
        }
    }
    if empty { "empty-type".into() } else { "other".into() }
}

fn has_parse_errors(schema: &Value, private: bool) -> bool {
    match guarded(|| SchemaConverter::new(private).convert(schema)) {
        Ok(r) => match guarded(|| LuaParser::parse(&r.annotation_text, ParserConfig::default())) {
            Ok(t) => !t.get_errors().is_empty(),
            Err(_) => true,
        },
        Err(_) => true,
    }
}

fn declared_names(tree: &emmylua_parser::LuaSyntaxTree) -> Vec<String> {
    let chunk = tree.get_chunk_node();
    let mut v = Vec::new();
    for t in chunk.descendants::<LuaDocTagClass>() {
        if let Some(n) = t.get_name_token() {
            v.push(n.get_name_text().to_string());
        }
    }
    for t in chunk.descendants::<LuaDocTagAlias>() {
        if let Some(n) = t.get_name_token() {
            v.push(n.get_name_text().to_string());
        }
    }
    for t in chunk.descendants::<LuaDocTagEnum>() {
        if let Some(n) = t.get_name_token() {
            v.push(n.get_name_text().to_string());
        }
    }
    v
}

fn eval(schema: &Value, private: bool) -> Result<Good, Bad> {
    let res = guarded(|| SchemaConverter::new(private).convert(schema));
    let res = match res {
        Ok(r) => r,
        Err(p) => return Err(Bad { sig: format!("C40:panic:{}", panic_class(&p)), detail: format!("{} at {}", clip(&p.message, 200), p.location) }),
    };
    let text = res.annotation_text.clone();
    let tree = match guarded(|| LuaParser::parse(&text, ParserConfig::default())) {
        Ok(t) => t,
        Err(p) => return Err(Bad { sig: format!("C40:emitted-text-crashes-parser:{}", panic_class(&p)), detail: clip(&p.message, 200) }),
    };
    let errors = tree.get_errors();
    if let Some(e) = errors.first() {
        let off = usize::from(e.range.start()).min(text.len());
        let mut o = off;
        while !text.is_char_boundary(o) {
            o -= 1;
        }
        let ls = text[..o].rfind('\n').map(|i| i + 1).unwrap_or(0);
        let le = text[o..].find('\n').map(|i| o + i).unwrap_or(text.len());
        let line = &text[ls..le];
        return Err(Bad {
            sig: format!("C40:syntax-error:{}", defect_class(schema, line, private)),
            detail: format!("{:?} error {:?} at {:?} on emitted {} line {:?} ({} errors in total)", e.kind, e.message, e.range, line_kind(line), clip(line, 160), errors.len()),
        });
    }
    let names = declared_names(&tree);
    if !names.iter().any(|n| *n == res.root_type_name) {
        let title = schema.get("title");
        let why = match title {
            None => "no-title",
            Some(Value::String(t)) => {
                if schema.get("properties").is_none() {
                    "title-without-properties"
                } else if !t.chars().all(|c| c.is_alphanumeric() || c == '_' || c == '.' || c == '-')
                    || !t.chars().next().map(|c| c.is_alphanumeric() || c == '_').unwrap_or(true)
                    || !t.chars().last().map(|c| c.is_alphanumeric() || c == '_').unwrap_or(true)
                {
                    // characters the doc lexer does not take as part of a type name: the unescaped-name family
                    "title-not-a-name"
                } else {
                    "other"
                }
            }
            Some(_) => "title-not-a-string",
        };
        return Err(Bad {
            sig: format!("C40:root-type-undeclared:{why}"),
            detail: format!("root_type_name {:?} is not declared by any @class/@alias/@enum; declared: {:?}", res.root_type_name, &names[..names.len().min(8)]),
        });
    }
    Ok(Good { lines: text.lines().count(), decls: names.len() })
}

pub fn run(ctx: &mut Ctx) {
    if let Some(rep) = ctx.replay.clone() {
        let schema = rep["schema"].clone();
        let private = rep["private"].as_bool().unwrap_or(false);
        match eval(&schema, private) {
            Ok(g) => {
                println!("replay: held ({} emitted lines, {} declarations, no parse errors, root declared)", g.lines, g.decls);
                ctx.held(fnv(schema.to_string().as_bytes()), true);
            }
            Err(b) => {
                println!("replay: VIOLATED {}: {}", b.sig, b.detail);
                if let Ok(r) = guarded(|| SchemaConverter::new(private).convert(&schema)) {
                    println!("--- emitted ---\n{}", clip(&r.annotation_text, 1500));
                }
                ctx.violated(&b.sig, &b.detail, rep);
            }
        }
        return;
    }
    let n = ctx.budget(4_000, 200_000);
    // the repository's own schema is case 0 of shard 0
    if ctx.shard == 0 {
        let p = format!("{}/crates/emmylua_code_analysis/resources/schema.json", ctx.repo);
        match std::fs::read_to_string(&p).ok().and_then(|s| serde_json::from_str::<Value>(&s).ok()) {
            Some(schema) => {
                ctx.clause("repo-schema");
                match eval(&schema, false) {
                    Ok(g) => {
                        ctx.held(fnv(b"repo-schema"), true);
                        ctx.sample(json!({"family": "repo-schema", "emitted_lines": g.lines, "declarations": g.decls}));
                    }
                    Err(b) => ctx.violated(&format!("{}:repo-schema", b.sig), &b.detail, json!({"schema": schema, "private": false})),
                }
            }
            None => ctx.inconclusive("repo-schema-unreadable"),
        }
    }
    for i in 0..n {
        super::c31::note_first_violation(ctx, i.saturating_sub(1));
        if ctx.out_of_time() {
            break;
        }
        let mut rng = Rng::new(ctx.case_seed(i));
        let (schema, private) = gen_root(&mut rng);
        let fp = fnv(schema.to_string().as_bytes());
        match eval(&schema, private) {
            Ok(g) => {
                ctx.clause("a:no-panic");
                ctx.clause("b:parses");
                ctx.clause("c:root-declared");
                ctx.extra_add("emitted_lines", g.lines as u64);
                // non-trivial: the emitted text declares >= 2 types or has >= 6 lines of annotations
                ctx.held(fp, g.decls >= 2 || g.lines >= 9);
                if ctx.want_sample() && g.decls >= 3 && i % 97 == 1 {
                    ctx.sample(json!({"schema": schema, "emitted_lines": g.lines, "declarations": g.decls}));
                }
            }
            Err(b) => {
                ctx.fps.insert(fp);
                ctx.clause("violating-schema");
                let clause = b.sig.split(':').nth(1).unwrap_or("").to_string();
                // The defect class is only reliable on a shrunk schema; shrinking every refuted schema costs
                // ~400 conversions each, so once the (pre-shrink) signature has its witnesses, only every
                // 16th further case is shrunk and classified properly, the rest are counted as they look.
                if ctx.sig_counts.get(&b.sig).copied().unwrap_or(0) >= crate::report::MAX_VIOLATIONS_PER_SIG && i % 16 != 0 {
                    ctx.extra_add("refuted_counted_without_shrinking", 1);
                    ctx.violated(&b.sig, "", json!(null));
                    continue;
                }
                // Shrink while the same *clause* fails, then classify the minimal schema (the discriminator
                // of an unshrunk schema would name the most exotic character anywhere in it, not the trigger).
                // The root-type clause is classified by the title alone, which is reliable before shrinking: there the
                // whole signature has to be preserved, or every titled witness slips to the title-less schema.
                let whole = clause == "root-type-undeclared";
                let sig0 = b.sig.clone();
                let small = shrink_json(&schema, |c| c.is_object() && matches!(eval(c, private), Err(b2) if if whole { b2.sig == sig0 } else { b2.sig.split(':').nth(1) == Some(clause.as_str()) }), 400);
                let b2 = eval(&small, private).err().unwrap_or(b);
                ctx.violated(&b2.sig, &format!("{}; shrunk schema {}", b2.detail, clip(&small.to_string(), 400)), json!({"schema": small, "private": private}));
            }
        }
    }
}
