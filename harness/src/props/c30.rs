//! C30 — published diagnostics converge to the current content (SimServer, push-diagnostics client).

use crate::props::c27::sanitize;
use crate::report::{Ctx, clip};
use crate::rng::Rng;
use crate::simscript::*;
use serde_json::{Value, json};

fn canon(v: &Value) -> Vec<String> {
    let mut items: Vec<String> = v.as_array().map(|a| a.iter().map(|d| d.to_string()).collect()).unwrap_or_default();
    items.sort();
    items
}

fn last_ops(script: &Script, d: usize) -> String {
    let v: Vec<&str> = script
        .ops
        .iter()
        .filter_map(|op| match op {
            Op::Open(x) if *x == d => Some("open"),
            Op::Change(x) if *x == d => Some("change"),
            Op::Close(x) if *x == d => Some("close"),
            Op::Disk(x, true) if *x == d => Some("disk-write"),
            Op::Disk(x, false) if *x == d => Some("disk-delete"),
            Op::Save(x) if *x == d => Some("save"),
            _ => None,
        })
        .collect();
    let n = v.len();
    v[n.saturating_sub(2)..].join(",")
}

pub fn oracle(script: &Script, o: &Outcome) -> Option<(String, String)> {
    for d in 0..script.docs.len() {
        let open = o.model.editor[d].is_some();
        match (&o.expected_diagnostics[d], &o.last_published[d]) {
            (Some(exp), last) if open => {
                // only judge files whose analysed text IS the current content (otherwise C27/C29's business)
                if o.final_text[d] != o.model.editor[d] {
                    continue;
                }
                let e = canon(exp);
                match last {
                    Some(l) => {
                        if canon(l) != e {
                            return Some((
                                format!("C30:last-publication-differs-from-current-diagnosis:last-ops={}", last_ops(script, d)),
                                format!("doc{d}: last published {} vs diagnosis of current content {}", clip(&l.to_string(), 300), clip(&exp.to_string(), 300)),
                            ));
                        }
                    }
                    None => {
                        if !e.is_empty() {
                            return Some((format!("C30:never-published:last-ops={}", last_ops(script, d)), format!("doc{d} is open with {} diagnostics but nothing was ever published for it", e.len())));
                        }
                    }
                }
            }
            (None, Some(l)) => {
                // file is not in the analysis any more: its last publication must be empty
                if !canon(l).is_empty() {
                    return Some((
                        format!("C30:removed-file-keeps-diagnostics:last-ops={}", last_ops(script, d)),
                        format!("doc{d} was removed from the analysis but its last publication still lists {}", clip(&l.to_string(), 300)),
                    ));
                }
            }
            _ => {}
        }
    }
    None
}

pub const FLAVOR: Flavor = Flavor { reloads: false, requests: true, malformed: false, disk_events: true, saves: false };

pub fn judge(ctx: &mut Ctx, script: &Script, shrink: bool) {
    let o = run_script(script, &ctx.work.clone(), true);
    if o.wedged || !o.stalled_dispatch.is_empty() {
        ctx.inconclusive("server-wedged(reported-by-C28)");
        return;
    }
    if !o.settled {
        ctx.inconclusive("not-settled");
        return;
    }
    ctx.clause_n("publications-observed", o.publish_count as u64);
    match oracle(script, &o) {
        None => {
            ctx.clause("converged-state-checked");
            let judged = (0..script.docs.len()).filter(|d| o.model.editor[*d].is_some() && o.last_published[*d].is_some()).count();
            if (0..script.docs.len()).any(|d| o.expected_diagnostics[d].is_none() && o.last_published[d].is_some()) {
                ctx.clause("removed-file-observed");
            }
            ctx.held(interleaving_hash(&o.lock_events) ^ o.publish_count as u64, judged >= 1 && o.publish_count >= 2);
            if ctx.want_sample() && o.publish_count >= 4 && o.publish_count % 5 == 0 {
                ctx.sample(json!({"script_ops": script_to_json(script)["ops"], "publications": o.publish_count, "virtual_ms": o.virtual_ms, "last_published": o.last_published}));
            }
        }
        Some((sig, detail)) => {
            let mut best = script.clone();
            if shrink {
                let work = ctx.work.clone();
                let ops = crate::util::ddmin(script.ops.clone(), |ops| {
                    let s = sanitize(&Script { ops: ops.to_vec(), ..script.clone() });
                    let o2 = run_script(&s, &work, true);
                    o2.settled && oracle(&s, &o2).is_some()
                }, 100);
                best = sanitize(&Script { ops, ..script.clone() });
            }
            let o2 = run_script(&best, &ctx.work.clone(), true);
            let (sig2, detail2) = oracle(&best, &o2).unwrap_or((sig, detail));
            ctx.violated(&sig2, &format!("{detail2}; script {}", script_to_json(&best)["ops"]), script_to_json(&best));
        }
    }
}

pub fn run(ctx: &mut Ctx) {
    crate::util::private_home(&ctx.work.clone(), "c30");
    if let Some(rep) = ctx.replay.clone() {
        let s = script_from_json(&rep);
        judge(ctx, &s, false);
        println!("replay: signatures {:?}", ctx.sig_counts.keys().collect::<Vec<_>>());
        return;
    }
    let n = ctx.budget(100, 5000);
    for i in 0..n {
        if ctx.out_of_time() {
            break;
        }
        let mut rng = Rng::new(ctx.case_seed(i));
        let nops = rng.range(6, 36);
        let mut script = gen_script(&mut rng, FLAVOR, nops);
        if i % 2 == 1 {
            // targeted family: edits arriving while a debounced diagnostic task is between its timer and its lock
            script = gen_race_script(&mut rng, false, 500);
            ctx.clause("family:race-with-debounce");
        }
        for k in 0..3u64 {
            let mut s = script.clone();
            s.sched_seed = if k == 0 { 0 } else { rng.next_u64() | 1 };
            judge(ctx, &s, true);
        }
    }
}
