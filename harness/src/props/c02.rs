//! C02 — parsing never crashes or hangs on any input.
//!
//! Clauses: (a) no panic, (b) no abort (stack overflow on a 2 MiB stack — observed by the
//! driver through the announce file, because an abort escapes catch_unwind), (c) CPU time
//! roughly linear in input size (scaling exponent over n,2n,4n,8n), (d) no single input
//! costs more than 500x the measured per-byte baseline, (e) the result is still lossless.

use crate::corpus::Corpus;
use crate::gens::soup;
use crate::props::c01::{check_lossless, parse_with};
use crate::report::{Ctx, clip};
use crate::rng::{Rng, fnv};
use crate::util::{PanicInfo, on_stack, thread_cpu};
use serde_json::{Value, json};

pub const STACK: usize = 2 << 20; // tokio worker default

/// (name, prefix, open, middle, close, recursive?)  text = prefix + open*d + middle + close*d
pub const NEST: &[(&str, &str, &str, &str, &str)] = &[
    ("paren", "x = ", "(", "1", ")"),
    ("table", "x = ", "{", "", "}"),
    ("table-field", "x = ", "{a=", "1", "}"),
    ("closure", "x = ", "function() return ", "1", " end"),
    ("do", "", "do ", "", "end "),
    ("if", "", "if a then ", "", "end "),
    ("while", "", "while a do ", "", "end "),
    ("repeat", "", "repeat ", "", "until a "),
    ("for", "", "for i=1,2 do ", "", "end "),
    ("function-stat", "", "function f() ", "", "end "),
    ("unary-minus", "x = ", "- ", "1", ""),
    ("unary-not", "x = ", "not ", "1", ""),
    ("concat-right", "x = ", "a .. ", "a", ""),
    ("pow-right", "x = ", "a ^ ", "a", ""),
    ("call-args", "", "f(", "", ")"),
    ("index-bracket", "x = ", "a[", "1", "]"),
    ("unclosed-paren", "x = ", "(", "", ""),
    ("unclosed-table", "x = ", "{", "", ""),
    ("unclosed-call", "", "f(", "", ""),
    ("doc-paren", "---@type ", "(", "A", ")"),
    ("doc-generic", "---@type ", "A<", "B", ">"),
    ("doc-fun-ret", "---@type ", "fun():", "A", ""),
    ("doc-fun-param", "---@type ", "fun(a:", "A", ")"),
    ("doc-table", "---@type ", "{a:", "A", "}"),
    ("doc-tuple", "---@type ", "[", "A", "]"),
    ("doc-unclosed-paren", "---@type ", "(", "", ""),
    ("doc-unclosed-generic", "---@type ", "A<", "", ""),
    // left-deep (iterative in the grammar, deep in the tree)
    ("binary-left", "x = 1", "", "", " + 1"),
    ("index-chain", "x = a", "", "", ".b"),
    ("call-chain", "x = a", "", "", "()"),
    ("method-chain", "x = a", "", "", ":m()"),
    ("doc-array-suffix", "---@type A", "", "", "[]"),
    ("doc-union", "---@type A", "", "", "|B"),
    ("doc-nullable-suffix", "---@type A", "", "", "?"),
];

pub const RUNGS_QUICK: &[usize] = &[64, 256, 1000, 4000, 10000];
pub const RUNGS_THOROUGH: &[usize] = &[64, 256, 1000, 4000, 10000, 30000, 100000];

/// Trivia interleaved into the code nesting families every 100 levels (variant v of family f is family
/// index f + v * NEST.len()): the comment / doc-comment paths run inside the recursion, too.
pub const TRIVIA: &[(&str, &str)] = &[("", ""), ("+line-comment", " --c\n"), ("+doc-comment", "\n---@type A<B>\n")];
/// number of leading NEST families that are code (not doc-type) nesting
pub const CODE_NEST: usize = 19;

pub fn nest_families() -> usize {
    NEST.len() + (TRIVIA.len() - 1) * CODE_NEST
}

pub fn nest_name(fam: usize) -> String {
    if fam < NEST.len() {
        NEST[fam].0.to_string()
    } else {
        let k = fam - NEST.len();
        format!("{}{}", NEST[k % CODE_NEST].0, TRIVIA[1 + k / CODE_NEST].0)
    }
}

pub fn nest_text(fam: usize, depth: usize) -> String {
    let (base, trivia) = if fam < NEST.len() {
        (fam, "")
    } else {
        let k = fam - NEST.len();
        (k % CODE_NEST, TRIVIA[(1 + k / CODE_NEST).min(TRIVIA.len() - 1)].1)
    };
    let (_, prefix, open, mid, close) = NEST[base];
    let mut s = String::with_capacity(prefix.len() + depth * (open.len() + close.len()) + mid.len() + 1);
    s.push_str(prefix);
    for d in 0..depth {
        s.push_str(open);
        if !trivia.is_empty() && d % 100 == 99 {
            s.push_str(trivia);
        }
    }
    s.push_str(mid);
    for _ in 0..depth {
        s.push_str(close);
    }
    s.push('\n');
    s
}

/// Width families for the scaling clause: unit repeated n times.
pub const WIDTH: &[(&str, &str, &str, &str)] = &[
    ("stat-list", "", "local a = 1\n", ""),
    ("call-stats", "", "f(a, b)\n", ""),
    ("arg-list", "f(", "a, ", "a)\n"),
    ("table-items", "t = {", "1, ", "}\n"),
    ("long-string", "s = \"", "abcdefgh", "\"\n"),
    ("long-comment", "--[[", "abcdefgh ", "]]\n"),
    ("short-comments", "", "-- c\n", ""),
    ("doc-comments", "", "---@field a integer\n", ""),
    ("doc-union", "---@type A", "|B", "\n"),
    ("doc-array-suffix", "---@type A", "[]", "\n"),
    ("index-chain", "x = a", ".b", "\n"),
    ("call-chain", "x = a", "()", "\n"),
    ("binary-left", "x = 1", " + 1", "\n"),
    ("concat-right", "x = a", " .. a", "\n"),
    ("assign-targets", "", "a, ", "a = 1\n"),
    ("if-chain", "if a then\n", "elseif b then\n", "end\n"),
    ("unknown-tokens", "", "$ ", "\n"),
    ("unterminated-strings", "", "x = \"abc\n", ""),
];

pub fn width_text(fam: usize, n: usize) -> String {
    let (_, pre, unit, post) = WIDTH[fam];
    let mut s = String::with_capacity(pre.len() + unit.len() * n + post.len());
    s.push_str(pre);
    for _ in 0..n {
        s.push_str(unit);
    }
    s.push_str(post);
    s
}

/// Parse on a 2 MiB stack; returns (cpu seconds, lossless verdict).
fn parse_case(text: &str, level: usize, doc: bool, stack: usize) -> Result<(f64, Result<usize, (String, String)>), PanicInfo> {
    on_stack(stack, || {
        let t0 = thread_cpu();
        let tree = parse_with(text, level, doc, None);
        let dt = thread_cpu() - t0;
        let r = check_lossless(text, &tree);
        // dropping a deep tree is part of what a caller has to survive
        drop(tree);
        (dt, r)
    })
}

/// Instructions executed (valgrind cachegrind "I refs") by a child process that parses
/// width family `fam` at `n` units exactly once. Deterministic and independent of machine load,
/// unlike CPU time (measured here: CPU time of the same parse varies 40x on a loaded box).
fn icount(fam: usize, n: usize, work: &str) -> Result<u64, String> {
    let _ = work;
    let exe = std::env::current_exe().map_err(|e| e.to_string())?;
    let vparse = exe.parent().map(|d| d.join("vparse")).ok_or("no exe dir")?;
    if !vparse.exists() {
        return Err(format!("{} missing", vparse.display()));
    }
    let out = std::process::Command::new("valgrind")
        .args(["--tool=cachegrind", "--cache-sim=no", "--cachegrind-out-file=/dev/null"])
        .arg(vparse)
        .args([fam.to_string(), n.to_string()])
        .output();
    let out = out.map_err(|e| format!("valgrind: {e}"))?;
    let err = String::from_utf8_lossy(&out.stderr);
    for line in err.lines() {
        if let Some(pos) = line.find("I   refs:").or_else(|| line.find("I refs:")) {
            let digits: String = line[pos..].chars().filter(|c| c.is_ascii_digit()).collect();
            return digits.parse::<u64>().map_err(|e| e.to_string());
        }
    }
    Err(format!("no I refs line; status {:?}; stderr tail {:?}", out.status.code(), clip(&err, 200)))
}

/// Scaling exponent of the instruction count over the last three doublings.
/// Returns (exponent, [(n, instructions-above-baseline)]).
fn scale_exponent(fam: usize, cap_bytes: usize, work: &str) -> Result<(f64, Vec<(usize, u64)>), String> {
    let unit = WIDTH[fam].2.len().max(1);
    let base = icount(fam, 0, work)?;
    let mut pts: Vec<(usize, u64)> = Vec::new();
    let mut n = 256usize;
    loop {
        let i = icount(fam, n, work)?.saturating_sub(base);
        pts.push((n, i));
        if n * unit * 2 > cap_bytes || i > 400_000_000 {
            break;
        }
        n *= 2;
    }
    if pts.len() < 4 {
        return Err(format!("too few points {pts:?}"));
    }
    let hi = pts[pts.len() - 1].1.max(1) as f64;
    let lo = pts[pts.len() - 4].1.max(1) as f64;
    Ok(((hi / lo).ln() / 8f64.ln(), pts))
}

fn replay(ctx: &mut Ctx, rep: &Value) {
    let kind = rep["kind"].as_str().unwrap_or("");
    let level = rep["level"].as_u64().unwrap_or(7) as usize;
    let doc = rep["doc"].as_bool().unwrap_or(true);
    let stack = rep["stack"].as_u64().unwrap_or(STACK as u64) as usize;
    let text = match kind {
        "nest" => nest_text(rep["family"].as_u64().unwrap_or(0) as usize, rep["depth"].as_u64().unwrap_or(1) as usize),
        "icount" => {
            // parse once on this thread; the parent reads the instruction count from valgrind
            let text = width_text(rep["family"].as_u64().unwrap_or(0) as usize, rep["n"].as_u64().unwrap_or(0) as usize);
            let tree = parse_with(&text, 7, true, None);
            std::hint::black_box(&tree);
            return;
        }
        "scale" => {
            let fam = rep["family"].as_u64().unwrap_or(0) as usize;
            let cap = rep["cap_bytes"].as_u64().unwrap_or(128 << 10) as usize;
            match scale_exponent(fam, cap, &ctx.work.clone()) {
                Ok((e, pts)) => {
                    println!("replay scale family={} exponent={:.2} points(n, instructions)={:?}", WIDTH[fam].0, e, pts);
                    if e > 1.5 {
                        ctx.violated(&format!("C02:superlinear:family={}", WIDTH[fam].0), &format!("instruction-count exponent {e:.2}: {pts:?}"), rep.clone());
                    } else {
                        ctx.held(fam as u64, true);
                    }
                }
                Err(e) => {
                    println!("replay scale: measurement failed: {e}");
                    ctx.inconclusive("icount-failed");
                }
            }
            return;
        }
        _ => rep["text"].as_str().unwrap_or("").to_string(),
    };
    println!("replay: kind={kind} len={} (a stack overflow will abort this process)", text.len());
    match parse_case(&text, level, doc, stack) {
        Ok((dt, Ok(_))) => {
            println!("replay: held, cpu {dt:.4}s");
            ctx.held(fnv(text.as_bytes()), true);
        }
        Ok((_, Err((k, d)))) => ctx.violated(&format!("C02:lossy:{k}"), &d, rep.clone()),
        Err(p) => ctx.violated(&format!("C02:panic:{}", p.sig()), &format!("{} at {}", p.message, p.location), rep.clone()),
    }
}

pub fn run(ctx: &mut Ctx) {
    if let Some(rep) = ctx.replay.clone() {
        replay(ctx, &rep);
        return;
    }
    let thorough = !ctx.is_quick();
    let shard = ctx.shard as usize;
    let nshards = ctx.nshards.max(1) as usize;

    // ---- (a),(d),(e) soup / corpus mutants on the 2 MiB stack ------------------------------
    let corpus = Corpus::load(&ctx.repo);
    if corpus.is_empty() {
        ctx.inconclusive("corpus-empty");
    }
    // per-byte baseline from the verbatim corpus (CPU time, this machine, this load)
    let mut total_bytes = 0usize;
    let mut total_cpu = 0f64;
    for i in 0..corpus.len().min(400) {
        let t = corpus.get(i);
        if let Ok((dt, _)) = parse_case(t, 7, true, 64 << 20) {
            total_bytes += t.len();
            total_cpu += dt;
        }
    }
    let per_byte = (total_cpu / total_bytes.max(1) as f64).max(1e-9);
    ctx.extra_set("const_baseline_ns_per_byte", json!((per_byte * 1e9 * 100.0).round() / 100.0));
    let n = ctx.budget(12_000, 400_000);
    // run the soup in batches on one 2 MiB thread per batch (thread spawn per case would dominate)
    let batch = 200u64;
    let mut i = 0u64;
    while i < n {
        if ctx.out_of_time() {
            break;
        }
        let hi = (i + batch).min(n);
        let mut texts: Vec<(u64, String, usize, bool, &'static str)> = Vec::new();
        for c in i..hi {
            let mut rng = Rng::new(ctx.case_seed(c));
            let big = c % 40 == 7;
            let level = rng.below(8);
            let doc = !rng.chance(1, 5);
            let (fam, text) = match rng.below(10) {
                0..=4 => ("soup", soup::soup(&mut rng, if big { 3000 } else { 60 })),
                5..=7 => {
                    let base = corpus.pick(&mut rng);
                    ("corpus-mutant", soup::mutate(&mut rng, base))
                }
                8 => ("lossy-bytes", soup::lossy_bytes(&mut rng, if big { 65536 } else { 300 })),
                _ => {
                    // moderately nested random mix (below the known stack limits): recovery paths under depth
                    let f = rng.below(NEST.len());
                    let d = rng.range(1, 120);
                    let mut t = nest_text(f, d);
                    t.push_str(&soup::soup(&mut rng, 10));
                    ("nest-mix", t)
                }
            };
            texts.push((c, text, level, doc, fam));
        }
        ctx.announce(&json!({"kind": "soup-batch", "from": i, "to": hi, "abort_sig": "C02:abort:soup-batch"}));
        // the batch runs on ONE 2 MiB-stack thread; per case catch_unwind inside
        let results: Vec<(f64, Result<Result<usize, (String, String)>, PanicInfo>)> = on_stack(STACK, || {
            texts
                .iter()
                .map(|(_, text, level, doc, _)| {
                    let t0 = thread_cpu();
                    let r = crate::util::guarded(|| {
                        let tree = parse_with(text, *level, *doc, None);
                        check_lossless(text, &tree)
                    });
                    (thread_cpu() - t0, r)
                })
                .collect()
        })
        .unwrap_or_default();
        if results.len() != texts.len() {
            ctx.inconclusive("batch-thread-failed");
            i = hi;
            continue;
        }
        for ((c, text, level, doc, fam), (dt, r)) in texts.iter().zip(results.into_iter()) {
            ctx.clause(&format!("family:{fam}"));
            let case = json!({"kind": "text", "text": text, "level": level, "doc": doc, "case": c, "family": fam});
            match r {
                Ok(Ok(ntok)) => {
                    ctx.clause("a:no-panic");
                    ctx.clause("e:lossless");
                    // (d) cost bound relative to the measured baseline (CPU time, not wall clock)
                    let bound = 500.0 * per_byte * text.len() as f64 + 0.5;
                    if dt > bound {
                        // confirm in isolation (same thread kind)
                        let again = parse_case(text, *level, *doc, STACK).map(|x| x.0).unwrap_or(0.0);
                        if again > bound {
                            ctx.violated(&format!("C02:slow-input:family={fam}"), &format!("cpu {dt:.2}s / {again:.2}s for {} bytes; bound {bound:.2}s (500x baseline)", text.len()), case);
                            continue;
                        } else {
                            ctx.inconclusive("slow-not-repeatable");
                        }
                    }
                    ctx.clause("d:cost-within-bound");
                    ctx.held(fnv(text.as_bytes()) ^ (*level as u64), ntok >= 8);
                    if ctx.want_sample() && c % 1999 == 5 {
                        ctx.sample(json!({"kind": "text", "family": fam, "bytes": text.len(), "cpu_us": (dt * 1e6) as u64, "text": clip(text, 160)}));
                    }
                }
                Ok(Err((k, d))) => ctx.violated(&format!("C02:lossy:{k}"), &d, case),
                Err(p) => {
                    // shrink at piece level so the signature is stable and the witness small
                    let pieces = soup::split_keep_ws(text);
                    let (lv, dc) = (*level, *doc);
                    let small = crate::util::ddmin(pieces, |ps| {
                        let t: String = ps.concat();
                        crate::util::guarded(|| parse_with(&t, lv, dc, None)).is_err()
                    }, 300);
                    let st: String = small.concat();
                    ctx.violated(&format!("C02:panic:{}", p.sig()), &format!("{} at {}; shrunk input {:?}", p.message, p.location, clip(&st, 200)), json!({"kind": "text", "text": st, "level": lv, "doc": dc}));
                }
            }
        }
        i = hi;
    }

    // ---- (b) nesting ladders: family f is handled by shard f % nshards; every rung runs in a
    //      sacrificial child process, because a stack overflow aborts the process -------------
    let rungs = if thorough { RUNGS_THOROUGH } else { RUNGS_QUICK };
    let stacks: &[usize] = if thorough { &[STACK, 8 << 20] } else { &[STACK] };
    let work = ctx.work.clone();
    for fam in 0..nest_families() {
        if fam % nshards != shard {
            continue;
        }
        let fam_name = nest_name(fam);
        for &stack in stacks {
            let tag = if stack == STACK { "abort" } else { "abort8m" };
            let mut smallest_failing: Option<usize> = None;
            for &depth in rungs {
                let b = if fam < NEST.len() { fam } else { (fam - NEST.len()) % CODE_NEST };
                let len = NEST[b].1.len() + depth * (NEST[b].2.len() + NEST[b].4.len());
                if len > (2 << 20) {
                    continue;
                }
                let case = json!({"kind": "nest", "family": fam, "family_name": fam_name, "depth": depth, "level": 7, "doc": true, "stack": stack});
                ctx.clause(if stack == STACK { "b:nesting-rung" } else { "b:nesting-rung-8MiB" });
                match crate::util::isolated("C02", &case, &work, 300) {
                    crate::util::ChildOutcome::Held => {
                        ctx.clause("a:no-panic");
                        ctx.held(fnv(format!("nest:{fam}:{depth}:{stack}").as_bytes()), depth >= 64);
                        if depth == 1000 && stack == STACK && ctx.want_sample() {
                            ctx.sample(json!({"kind": "nest", "family": fam_name, "depth": depth, "text": clip(&nest_text(fam, depth), 80)}));
                        }
                    }
                    crate::util::ChildOutcome::Violated(sigs) => {
                        for s in sigs {
                            ctx.violated(&s, &format!("family {fam_name} depth {depth}"), case.clone());
                        }
                    }
                    crate::util::ChildOutcome::Died(sig) => {
                        // confirm once more, then report the SMALLEST failing rung of this family only
                        if let crate::util::ChildOutcome::Died(_) = crate::util::isolated("C02", &case, &work, 300) {
                            if smallest_failing.is_none() {
                                smallest_failing = Some(depth);
                                ctx.violated(
                                    &format!("C02:{tag}:family={fam_name}:depth={depth}"),
                                    &format!("parser process killed by signal {sig} (stack overflow) on a {} KiB stack: {}", stack >> 10, clip(&nest_text(fam, depth), 60)),
                                    case.clone(),
                                );
                            } else {
                                ctx.clause("b:deeper-rung-also-aborts");
                            }
                        } else {
                            ctx.inconclusive("child-death-not-repeatable");
                        }
                    }
                    crate::util::ChildOutcome::Timeout => ctx.inconclusive("child-watchdog"),
                    crate::util::ChildOutcome::Error(e) => ctx.inconclusive(&format!("child-error:{}", clip(&e, 40))),
                }
            }
        }
    }
    // from here on no aborts are expected; keep announcing so that one would be attributed
    // ---- (c) scaling -------------------------------------------------------------------
    for fam in 0..WIDTH.len() {
        if fam % nshards != shard {
            continue;
        }
        let cap = if thorough { 1usize << 20 } else { 128 << 10 };
        let case = json!({"kind": "scale", "family": fam, "family_name": WIDTH[fam].0, "cap_bytes": cap});
        match scale_exponent(fam, cap, &work) {
            Ok((e, pts)) => {
                ctx.clause("c:scaling-measured");
                let mut exps = ctx.extra.get("scaling_exponents").cloned().unwrap_or(json!({}));
                exps[WIDTH[fam].0] = json!((e * 100.0).round() / 100.0);
                ctx.extra_set("scaling_exponents", exps);
                if e <= 1.25 {
                    ctx.held(fnv(format!("scale:{fam}").as_bytes()), true);
                } else if e <= 1.5 {
                    ctx.inconclusive(&format!("scaling-exponent-in-band:{}", WIDTH[fam].0));
                } else {
                    ctx.violated(
                        &format!("C02:superlinear:family={}", WIDTH[fam].0),
                        &format!("instruction count grows with exponent {e:.2} over the last three doublings of {:?}: (n, instructions) = {pts:?}", WIDTH[fam].2),
                        case,
                    );
                }
            }
            Err(e) => ctx.inconclusive(&format!("icount-failed:{}", clip(&e, 60))),
        }
    }

}
