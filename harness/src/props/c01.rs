//! C01 — syntax trees are lossless for every input text.

use crate::corpus::Corpus;
use crate::gens::soup;
use crate::report::{Ctx, clip};
use crate::rng::{Rng, fnv};
use crate::util::guarded;
use emmylua_parser::{LuaLanguageLevel, LuaParser, LuaSyntaxKind, LuaSyntaxTree, ParserConfig};
use rowan::NodeCache;
use serde_json::json;
use std::collections::HashMap;

pub const LEVELS: [LuaLanguageLevel; 8] = [
    LuaLanguageLevel::Lua51,
    LuaLanguageLevel::LuaJIT2,
    LuaLanguageLevel::LuaJIT,
    LuaLanguageLevel::LuaJIT3,
    LuaLanguageLevel::Lua52,
    LuaLanguageLevel::Lua53,
    LuaLanguageLevel::Lua54,
    LuaLanguageLevel::Lua55,
];

pub fn parse_with(text: &str, level: usize, doc: bool, cache: Option<&mut NodeCache>) -> LuaSyntaxTree {
    let cfg = ParserConfig::new(LEVELS[level % 8], cache, HashMap::new(), Default::default(), doc);
    LuaParser::parse(text, cfg)
}

/// The losslessness oracle. Returns Err((kind, detail)) on the first violated clause.
pub fn check_lossless(text: &str, tree: &LuaSyntaxTree) -> Result<usize, (String, String)> {
    let root = tree.get_red_root();
    if root.kind() != LuaSyntaxKind::Chunk.into() {
        return Err(("root-not-chunk".into(), format!("root kind {:?}", root.kind())));
    }
    // (b) tiling
    let mut pos: usize = 0;
    let mut ntok = 0usize;
    let mut last_kind = String::from("none");
    for el in root.descendants_with_tokens() {
        match el {
            rowan::NodeOrToken::Token(t) => {
                let r = t.text_range();
                let (s, e) = (usize::from(r.start()), usize::from(r.end()));
                if s != pos {
                    let k = if s > pos { "gap" } else { "overlap" };
                    return Err((format!("{k}:after={last_kind}"), format!("token {:?} starts at {s}, expected {pos}", t.kind())));
                }
                if e > text.len() || !text.is_char_boundary(s) || !text.is_char_boundary(e) {
                    return Err(("range-out-of-input".into(), format!("token {:?} range {s}..{e} input len {}", t.kind(), text.len())));
                }
                if t.text() != &text[s..e] {
                    return Err((format!("token-text-mismatch:kind={:?}", t.kind()), format!("token {:?} at {s}..{e}: {:?} vs input {:?}", t.kind(), t.text(), &text[s..e])));
                }
                if s == e {
                    return Err((format!("zero-length-token:kind={:?}", t.kind()), format!("at {s}")));
                }
                pos = e;
                ntok += 1;
                last_kind = format!("{:?}", t.kind());
            }
            rowan::NodeOrToken::Node(n) => {
                let r = n.text_range();
                if usize::from(r.end()) > text.len() {
                    return Err(("node-range-out-of-input".into(), format!("node {:?} {:?} input len {}", n.kind(), r, text.len())));
                }
            }
        }
    }
    if pos != text.len() {
        let lost = text[pos..].chars().next().map(char_class).unwrap_or("?");
        return Err((format!("suffix-dropped:after={last_kind}:lost={lost}"), format!("tokens cover {pos} of {} bytes; lost {:?}", text.len(), clip(&text[pos..], 60))));
    }
    // (a) concatenated text
    let rt = root.text().to_string();
    if rt != text {
        return Err(("root-text-mismatch".into(), format!("root.text() len {} vs input len {}", rt.len(), text.len())));
    }
    Ok(ntok)
}

pub fn char_class(c: char) -> &'static str {
    match c {
        '\0' => "nul",
        '\n' | '\r' => "newline",
        ' ' | '\t' => "space",
        c if c.is_ascii_alphabetic() || c == '_' => "letter",
        c if c.is_ascii_digit() => "digit",
        c if c.is_ascii_punctuation() => "punct",
        c if c.is_ascii() => "control",
        _ => "non-ascii",
    }
}

struct Case {
    parts: Vec<String>,
    level: usize,
    doc: bool,
    cache: bool,
    family: &'static str,
}

fn gen_case(rng: &mut Rng, corpus: &Corpus, big: bool) -> Case {
    let level = rng.below(8);
    let doc = !rng.chance(1, 4);
    let cache = rng.chance(1, 3);
    let (family, parts): (&'static str, Vec<String>) = match rng.below(100) {
        0..=54 => ("soup", soup::soup_parts(rng, if big { 400 } else { 30 })),
        55..=79 => {
            let base = corpus.pick(rng);
            ("corpus-mutant", soup::split_keep_ws(&soup::mutate(rng, base)))
        }
        80..=87 => ("corpus", soup::split_keep_ws(corpus.pick(rng))),
        88..=94 => ("lossy-bytes", vec![soup::lossy_bytes(rng, if big { 4096 } else { 120 })]),
        _ => ("special", special(rng)),
    };
    Case { parts, level, doc, cache, family }
}

fn special(rng: &mut Rng) -> Vec<String> {
    const S: &[&str] = &[
        "local a = 1\0local b = 2\n",
        "\u{feff}local a = 1",
        "a\rb\rc",
        "a --region\nb",
        "a--endregion\nb",
        "local t = { a = , b }",
        "x = [==[ never closed",
        "--[[ never closed",
        "---@type fun(\nlocal x",
        "return {\n---@type A<\n}",
        "local x = \"abc\nlocal y",
        "f(--[[c]])",
        "\0",
        "",
        "\n",
        "---",
        "---@",
        "--- ```lua\n--- x\n",
    ];
    let mut v = vec![rng.pick(S).to_string()];
    if rng.bool() {
        v.push(soup::soup(rng, 6));
    }
    v
}

fn eval(parts: &[String], level: usize, doc: bool, cache: bool) -> Result<Result<usize, (String, String)>, crate::util::PanicInfo> {
    let text: String = parts.concat();
    guarded(|| {
        let mut nc = NodeCache::default();
        if cache {
            // warm the cache with a near-duplicate first: sharing must not change the tree
            let mut warm = text.clone();
            warm.push_str("\nlocal __warm = 1\n");
            let _ = parse_with(&warm, level, doc, Some(&mut nc));
            let tree = parse_with(&text, level, doc, Some(&mut nc));
            check_lossless(&text, &tree)
        } else {
            let tree = parse_with(&text, level, doc, None);
            check_lossless(&text, &tree)
        }
    })
}

pub fn run(ctx: &mut Ctx) {
    if let Some(rep) = ctx.replay.clone() {
        let text = rep["text"].as_str().unwrap_or("").to_string();
        let level = rep["level"].as_u64().unwrap_or(7) as usize;
        let doc = rep["doc"].as_bool().unwrap_or(true);
        let cache = rep["cache"].as_bool().unwrap_or(false);
        match eval(&[text.clone()], level, doc, cache) {
            Ok(Ok(n)) => {
                println!("replay: held ({n} tokens tile the input)");
                ctx.held(fnv(text.as_bytes()), true);
            }
            Ok(Err((k, d))) => {
                println!("replay: VIOLATED {k}: {d}");
                ctx.violated(&format!("C01:{k}"), &d, rep);
            }
            Err(p) => {
                println!("replay: PANIC {}", p.sig());
                ctx.violated(&format!("C01:panic:{}", p.sig()), &p.message, rep);
            }
        }
        return;
    }
    let corpus = Corpus::load(&ctx.repo);
    ctx.extra_set("corpus_items", json!(corpus.len()));
    if corpus.is_empty() {
        ctx.inconclusive("corpus-empty");
        return;
    }
    let n = ctx.budget(100_000, 3_000_000);
    for i in 0..n {
        if ctx.out_of_time() {
            break;
        }
        let mut rng = Rng::new(ctx.case_seed(i));
        let big = !ctx.is_quick() && i % 50 == 0;
        let case = gen_case(&mut rng, &corpus, big);
        let text: String = case.parts.concat();
        let res = eval(&case.parts, case.level, case.doc, case.cache);
        ctx.clause(&format!("family:{}", case.family));
        match res {
            Ok(Ok(ntok)) => {
                ctx.clause("a:text-equal");
                ctx.clause("b:tokens-tile");
                ctx.clause("c:root-chunk");
                // fingerprint: the text itself; non-trivial: >= 8 tokens in the tree
                ctx.held(fnv(text.as_bytes()) ^ ((case.level as u64) << 1 | case.doc as u64), ntok >= 8);
                if ctx.want_sample() && ntok >= 8 && i % 997 == 3 {
                    ctx.sample(json!({"family": case.family, "level": format!("{:?}", LEVELS[case.level]), "doc": case.doc, "cache": case.cache, "tokens": ntok, "text": clip(&text, 300)}));
                }
            }
            Ok(Err((_kind, _detail))) => {
                // shrink by parts while *some* lossless failure persists, then classify
                let (lv, dc, ch) = (case.level, case.doc, case.cache);
                let small = crate::util::ddmin(case.parts.clone(), |p| matches!(eval(p, lv, dc, ch), Ok(Err(_))), 400);
                // second pass at character level if small enough
                let small_text: String = small.concat();
                let chars: Vec<String> = small_text.chars().map(|c| c.to_string()).collect();
                let small = if chars.len() <= 200 {
                    crate::util::ddmin(chars, |p| matches!(eval(p, lv, dc, ch), Ok(Err(_))), 600)
                } else {
                    small
                };
                let st: String = small.concat();
                let (k, d) = match eval(&small, lv, dc, ch) {
                    Ok(Err(x)) => x,
                    _ => ("unstable".into(), "shrunk case no longer fails".into()),
                };
                let sig = format!("C01:{k}");
                ctx.violated(&sig, &format!("{d}; shrunk input {:?}", clip(&st, 200)), json!({"text": st, "level": lv, "doc": dc, "cache": ch, "original_len": text.len(), "family": case.family}));
            }
            Err(p) => {
                // a panic is C02's business, but it also means no tree: report under C01 as its own signature
                ctx.violated(&format!("C01:panic:{}", p.sig()), &format!("{} at {}", p.message, p.location), json!({"text": text, "level": case.level, "doc": case.doc, "cache": case.cache}));
            }
        }
    }
}
