//! C10 — removed files leave no trace.
//!
//! Case = G-workspace (every file has a unique marker in the names and doc texts it declares
//! and a unique path) + a history that ends with the removal of a subset R of the files
//! (`remove_file_by_uri`, sometimes `update_file_by_uri(u, None)`), optionally followed by
//! re-submissions of surviving files. Oracle over `observe(A)` afterwards:
//!   (a) no string of the dump contains a path of R, no location is dangling;
//!   (b) no type whose name carries a marker of R (and has no surviving location), no
//!       documentation text written by a file of R, `find_module` of R's module names does not
//!       resolve into R;
//!   (c) the per-file syntactic indexes (decl, flow) and the Vfs maps are exactly as large as
//!       in a fresh analysis of the survivors (memory released).
//! Results of *surviving* files that merely went stale (an inferred type that was computed
//! while R still existed) are not judged: the statement forbids references to R, not stale
//! values.

use crate::gens::workspace::{self as gw, Case, GenOpts, Load, Model, Setup, Step};
use crate::observe;
use crate::report::{Ctx, clip};
use crate::rng::Rng;
use crate::util::guarded;
use serde_json::json;
use std::collections::{BTreeMap, BTreeSet};

/// Indexes whose census is a function of the surviving files' text alone.
const SYNTACTIC: &[&str] = &["decl", "flow", "vfs.file_data_live", "vfs.line_index_map", "vfs.tree_map", "vfs.remote_file_id_map", "vfs.file_id_map", "vfs.file_path_map"];

#[derive(Clone, Debug)]
pub struct Trace {
    /// clause:discriminator, e.g. `path-of-removed-file:section=globals`
    pub clause: String,
    pub detail: String,
}

#[derive(Clone, Debug)]
pub enum Outcome {
    Held { removed: usize, survivors: usize, strings: usize },
    NothingRemoved,
    Traces(Vec<Trace>),
    Panic(String),
}

fn has_marker(name: &str, up: &str) -> bool {
    // `F1` must not match `F12…`
    let mut rest = name;
    while let Some(i) = rest.find(up) {
        let after = rest[i + up.len()..].chars().next();
        if !after.map(|c| c.is_ascii_digit()).unwrap_or(false) {
            return true;
        }
        rest = &rest[i + up.len()..];
    }
    false
}

pub fn eval(case: &Case) -> Outcome {
    let r = guarded(|| {
        let mut a = case.start();
        let mut m = Model::new(&case.ws);
        let mut by_none: BTreeSet<usize> = BTreeSet::new();
        for st in &case.steps {
            if gw::apply_step(&mut a, &case.ws, &mut m, st) {
                if let Step::Remove { file, by_none: true } = st {
                    by_none.insert(*file);
                }
                if let Step::ReAdd { file } = st {
                    by_none.remove(file);
                }
            }
        }
        let removed: Vec<usize> = (0..case.ws.files.len()).filter(|i| !m.present(*i)).collect();
        let survivors: Vec<usize> = (0..case.ws.files.len()).filter(|i| m.present(*i)).collect();
        if removed.is_empty() {
            return Outcome::NothingRemoved;
        }
        let d = observe::observe(&a);
        let mut traces: Vec<Trace> = Vec::new();
        let mut seen: BTreeSet<String> = BTreeSet::new();
        let mut nstrings = 0usize;
        let rpaths: Vec<String> = removed.iter().map(|i| case.ws.files[*i].abs_path()).collect();
        let rdoc: Vec<String> = removed.iter().map(|i| format!("#{}#", case.ws.files[*i].lower())).collect();
        // (a) + doc texts of (b)
        observe::walk_strings(&d, &mut |path, s| {
            nstrings += 1;
            let sec = observe::section_of_path(path);
            let mut hit = |clause: String, what: &str| {
                if seen.insert(clause.clone()) {
                    traces.push(Trace { clause, detail: format!("{} in {}: {}", what, path.join("/"), clip(s, 300)) });
                }
            };
            for p in &rpaths {
                if s.contains(p.as_str()) {
                    hit(format!("path-of-removed-file:section={sec}"), "path of a removed file");
                }
            }
            // ("<dangling>" alone is not judged: ids of table-expression pseudo declarations never
            // resolve in the decl index, removal or not)
            if s.contains("<no-path>") {
                hit(format!("dangling-location:section={sec}"), "location in a file that no longer exists");
            }
            for t in &rdoc {
                if s.contains(t.as_str()) {
                    hit(format!("marker-of-removed-file:section={sec}"), "text (documentation / literal) written only by a removed file");
                }
            }
        });
        // (b) type names carrying a marker of R without a surviving location
        if let Some(types) = d.get("types").and_then(|t| t.as_object()) {
            for (name, v) in types {
                for i in &removed {
                    if has_marker(name, &case.ws.files[*i].marker) {
                        let locs = v.get("locations").and_then(|l| l.as_array()).map(|l| l.len()).unwrap_or(0);
                        if locs == 0 && seen.insert("type-of-removed-file".into()) {
                            traces.push(Trace { clause: "type-of-removed-file:section=types".into(), detail: format!("type {name} survives the removal of its only declaring file: {}", clip(&v.to_string(), 300)) });
                        }
                    }
                }
            }
        }
        // (b') super-class relations stated only by a removed file: the generator declares
        // `---@class <Shared>: <Marker>Base<n>` (and the base class itself) in ONE file only, so a
        // super entry naming `<Marker>Base…` of a removed file is a fact that file left behind
        if let Some(types) = d.get("types").and_then(|t| t.as_object()) {
            for (name, v) in types {
                for sup in v.get("supers").and_then(|l| l.as_array()).cloned().unwrap_or_default() {
                    let sup = sup.as_str().unwrap_or("").to_string();
                    for i in &removed {
                        let base = format!("{}Base", case.ws.files[*i].marker);
                        if has_marker(&sup, &case.ws.files[*i].marker) && sup.contains(&base) && seen.insert("super-of-removed-file".into()) {
                            traces.push(Trace { clause: "super-class-stated-by-removed-file:section=types.supers".into(), detail: format!("type {name} still has the super class {sup}, which only the removed file {} stated", case.ws.files[*i].path) });
                        }
                    }
                }
            }
        }
        // (b) module resolution of R's module names
        {
            let db = a.compilation.get_db();
            for i in &removed {
                let f = &case.ws.files[*i];
                if let Some(mi) = db.get_module_index().find_module(&f.module) {
                    let p = observe::path_of(db, mi.file_id);
                    if (p == f.abs_path() || p == "<no-path>") && seen.insert("module".into()) {
                        traces.push(Trace { clause: "module-resolves-to-removed-file:section=modules.find".into(), detail: format!("find_module({:?}) -> {p}", f.module) });
                    }
                }
                if a.get_file_id(&f.uri()).is_some() && !by_none.contains(i) && seen.insert("vfs-id".into()) {
                    traces.push(Trace { clause: "vfs-still-maps-uri:section=vfs".into(), detail: format!("get_file_id({}) is still Some after remove_file_by_uri", f.path) });
                }
            }
        }
        // (c) census of the syntactic indexes against a fresh analysis of the survivors
        let list = super::c09::survivors_in_id_order(&a, case, &m);
        let mut b = gw::new_analysis(case.ws.library, m.config);
        gw::load_files(&mut b, &list, Load::Sorted);
        let (ca, cb) = (observe::census(&a), observe::census(&b));
        let exempt_maps = !by_none.is_empty();
        for k in SYNTACTIC {
            if exempt_maps && (*k == "vfs.file_id_map" || *k == "vfs.file_path_map") {
                continue; // update(u, None) keeps the uri <-> id mapping by design of the Vfs
            }
            let (x, y) = (ca.get(*k).copied().unwrap_or(0), cb.get(*k).copied().unwrap_or(0));
            if x > y {
                traces.push(Trace { clause: format!("census-not-released:index={k}"), detail: format!("census[{k}] = {x} after the removals, {y} in a fresh analysis of the {} surviving files", survivors.len()) });
            }
        }
        if traces.is_empty() {
            Outcome::Held { removed: removed.len(), survivors: survivors.len(), strings: nstrings }
        } else {
            Outcome::Traces(traces)
        }
    });
    match r {
        Ok(o) => o,
        Err(p) => Outcome::Panic(p.sig()),
    }
}

pub fn clauses_of(o: &Outcome) -> Vec<String> {
    match o {
        Outcome::Traces(t) => t.iter().map(|t| t.clause.clone()).collect(),
        Outcome::Panic(s) => vec![format!("panic:{s}")],
        _ => vec![],
    }
}

fn detail(o: &Outcome, clause: &str, case: &Case) -> String {
    let head = match o {
        Outcome::Traces(t) => t.iter().filter(|t| t.clause == clause).map(|t| t.detail.clone()).collect::<Vec<_>>().join("\n"),
        other => format!("{other:?}"),
    };
    format!("{head}\n--- shrunk case (line shapes: {}) ---\n{}", case.shapes().join(","), clip(&case.describe(), 2500))
}

fn gen_case(rng: &mut Rng, quick: bool) -> Case {
    let ws = gw::gen_workspace(rng, &GenOpts { min_files: 3, max_files: if quick { 6 } else { 8 }, ..GenOpts::default() });
    let setup = match rng.below(5) {
        0 | 1 => Setup::Sorted,
        2 => Setup::OneByOne,
        3 => Setup::OneByOneReindex,
        _ => Setup::ProductionReindex,
    };
    let nf = ws.files.len();
    let mut steps = Vec::new();
    let mut m = Model::new(&ws);
    // a little life before the removal
    for _ in 0..rng.below(4) {
        let f = rng.below(nf);
        let cur = m.cur[f].clone().unwrap_or_default();
        match rng.below(3) {
            0 => steps.push(Step::Resubmit { file: f }),
            1 => {
                let c = gw::edit_chunks(rng, &ws, f, &cur);
                m.cur[f] = Some(c.clone());
                steps.push(Step::Update { file: f, chunks: c });
            }
            _ => steps.push(Step::EditRestore { file: f, edited: gw::edit_chunks(rng, &ws, f, &cur) }),
        }
    }
    // remove 1..3 files in a random order
    let mut order: Vec<usize> = (0..nf).collect();
    rng.shuffle(&mut order);
    let k = rng.range(1, 3.min(nf - 1));
    let removed: Vec<usize> = order[..k].to_vec();
    for f in &removed {
        steps.push(Step::Remove { file: *f, by_none: rng.chance(1, 5) });
        if rng.chance(1, 4) {
            // a survivor is re-submitted between two removals
            if let Some(s) = order[k..].first() {
                steps.push(Step::Resubmit { file: *s });
            }
        }
    }
    // afterwards: survivors may be touched again (must not resurrect anything)
    for _ in 0..rng.below(3) {
        let s = order[k + rng.below(nf - k)];
        if rng.bool() {
            steps.push(Step::Resubmit { file: s });
        } else {
            steps.push(Step::BatchResubmit { files: order[k..].to_vec() });
        }
    }
    Case { ws, setup, steps }
}

fn judge(ctx: &mut Ctx, case: &Case, shrink: bool) {
    let o = eval(case);
    match &o {
        Outcome::Held { removed, survivors, strings } => {
            ctx.clause("a:no-path-of-removed-file");
            ctx.clause("b:no-symbol-or-doc-of-removed-file");
            ctx.clause("c:census-released");
            ctx.clause_n("strings-scanned", *strings as u64);
            for s in &case.steps {
                ctx.clause(&format!("step:{}", s.kind()));
            }
            let nontrivial = *removed >= 1 && *survivors >= 1 && *strings >= 50;
            ctx.held(case.fingerprint(), nontrivial);
            if ctx.want_sample() && nontrivial {
                ctx.sample(json!({"files": case.ws.files.len(), "removed": removed, "setup": case.setup.name(), "steps": case.steps.iter().map(|s| s.kind()).collect::<Vec<_>>(), "strings_scanned": strings, "first_file": clip(&case.ws.files[0].text(), 300)}));
            }
        }
        Outcome::NothingRemoved => ctx.inconclusive("nothing-removed"),
        _ => {
            let mut first = true;
            let mut clauses = clauses_of(&o);
            clauses.sort();
            clauses.dedup();
            for clause in clauses.into_iter().take(3) {
                let small = if shrink {
                    let want = clause.clone();
                    gw::shrink_case(case, 1500, &mut |c: &Case| clauses_of(&eval(c)).contains(&want))
                } else {
                    case.clone()
                };
                let o2 = eval(&small);
                let again = eval(&small);
                if !clauses_of(&o2).contains(&clause) || !clauses_of(&again).contains(&clause) {
                    ctx.inconclusive("violation-not-reproducible-in-process");
                    continue;
                }
                let sig = super::c08::signature_steps("C10", &clause, &small);
                if first {
                    ctx.violated(&sig, &detail(&o2, &clause, &small), small.to_json());
                    first = false;
                } else {
                    ctx.add_violation(&sig, &detail(&o2, &clause, &small), small.to_json());
                }
            }
        }
    }
}

pub fn run(ctx: &mut Ctx) {
    if let Some(rep) = ctx.replay.clone() {
        let Some(case) = Case::from_json(&rep) else {
            println!("replay: cannot parse case");
            ctx.inconclusive("bad-replay");
            return;
        };
        let o = eval(&case);
        println!("replay: expected no path/symbol/doc of a removed file in the dump and released census\nobserved: {}", clip(&format!("{o:?}"), 3000));
        judge(ctx, &case, false);
        return;
    }
    let n = ctx.budget(60, 2000);
    for i in 0..n {
        if ctx.out_of_time() {
            break;
        }
        let mut rng = Rng::new(ctx.case_seed(i));
        let case = gen_case(&mut rng, ctx.is_quick());
        judge(ctx, &case, true);
    }
}

#[allow(dead_code)]
fn _unused(_: BTreeMap<String, usize>) {}
