//! C24 — every client request gets exactly one response (SimServer, E2; history checker).

use crate::props::c27::sanitize;
use crate::report::Ctx;
use crate::rng::Rng;
use crate::simscript::*;
use serde_json::json;

pub const FLAVOR: Flavor = Flavor { reloads: true, requests: true, malformed: true, disk_events: true, saves: true };

/// request index (in send order) -> (method, malformed kind)
fn request_meta(script: &Script) -> Vec<(String, u8)> {
    let mut v = Vec::new();
    for op in &script.ops {
        match op {
            Op::Req(k, _, m) => v.push((REQ_KINDS[*k].to_string(), *m)),
            Op::Unknown => v.push(("verif/unknownMethod".to_string(), 0)),
            _ => {}
        }
    }
    v
}

fn mal_name(m: u8) -> &'static str {
    match m {
        0 => "valid",
        1 => "wrong-typed",
        2 => "null",
        _ => "missing-field",
    }
}

pub fn oracle(script: &Script, o: &Outcome) -> Vec<(String, String)> {
    let meta = request_meta(script);
    let mut out = Vec::new();
    for (id, method, n) in &o.anomalies {
        // ids are assigned 1,2,3… in send order; the final documentSymbol probes come after the script
        let idx: usize = id.parse::<usize>().unwrap_or(0);
        let (m, mal) = meta.get(idx.wrapping_sub(1)).cloned().unwrap_or((method.clone(), 0));
        let cancelled = o.cancelled_ids.contains(id);
        let panic = o.panics.first().map(|p| format!(":handler-panicked:{}", p.sig())).unwrap_or_default();
        let what = if *n == 0 { "no-response".to_string() } else { format!("{n}-responses") };
        out.push((
            format!("C24:{what}:method={m}:params={}{}{}", mal_name(mal), if cancelled { ":cancelled" } else { "" }, if *n == 0 { panic } else { String::new() }),
            format!("request id {id} ({method}) received {n} responses after quiescence"),
        ));
    }
    out
}

pub fn judge(ctx: &mut Ctx, script: &Script, shrink: bool) {
    let o = run_script(script, &ctx.work.clone(), true);
    if o.wedged || !o.stalled_dispatch.is_empty() {
        ctx.inconclusive("server-wedged(reported-by-C28)");
        return;
    }
    if !o.settled {
        ctx.inconclusive("not-settled");
        return;
    }
    let v = oracle(script, &o);
    ctx.clause_n("requests-sent", o.requests as u64);
    ctx.clause_n("error-responses", o.error_codes.len() as u64);
    ctx.clause_n("cancels-sent", o.cancelled_ids.len() as u64);
    if v.is_empty() {
        ctx.clause("history-checked");
        let nreq = request_meta(script).len();
        let mut h = interleaving_hash(&o.lock_events);
        for (m, k) in request_meta(script) {
            h = h.wrapping_mul(31).wrapping_add(crate::rng::fnv(m.as_bytes()) + k as u64);
        }
        ctx.held(h, nreq >= 2);
        if ctx.want_sample() && nreq >= 4 && h % 11 == 0 {
            ctx.sample(json!({"script_ops": script_to_json(script)["ops"], "requests": o.requests, "error_responses": o.error_codes, "cancelled": o.cancelled_ids, "virtual_ms": o.virtual_ms}));
        }
        return;
    }
    let mut first = true;
    for (sig, detail) in v {
        if first {
            // one evaluation per script; shrink for the first signature only
            first = false;
            let mut best = script.clone();
            if shrink {
                let work = ctx.work.clone();
                let want = sig.clone();
                let ops = crate::util::ddmin(script.ops.clone(), |ops| {
                    let s = sanitize(&Script { ops: ops.to_vec(), ..script.clone() });
                    let o2 = run_script(&s, &work, true);
                    o2.settled && oracle(&s, &o2).iter().any(|(g, _)| *g == want)
                }, 80);
                best = sanitize(&Script { ops, ..script.clone() });
            }
            ctx.violated(&sig, &format!("{detail}; script {}", script_to_json(&best)["ops"]), script_to_json(&best));
        } else {
            ctx.add_violation(&sig, &detail, script_to_json(script));
        }
    }
}

pub fn run(ctx: &mut Ctx) {
    crate::util::private_home(&ctx.work.clone(), "c24");
    if let Some(rep) = ctx.replay.clone() {
        if rep["stdio"].as_bool().unwrap_or(false) {
            judge_stdio(ctx, &crate::lspstdio::case_from_json(&rep));
            println!("replay: signatures {:?}", ctx.sig_counts.keys().collect::<Vec<_>>());
            return;
        }
        let s = script_from_json(&rep);
        judge(ctx, &s, false);
        println!("replay: signatures {:?}", ctx.sig_counts.keys().collect::<Vec<_>>());
        return;
    }
    let n = ctx.budget(150, 8000);
    for i in 0..n {
        if ctx.out_of_time() {
            break;
        }
        let mut rng = Rng::new(ctx.case_seed(i));
        let nops = rng.range(8, 40);
        let mut script = gen_script(&mut rng, FLAVOR, nops);
        // every method x every params shape is reached systematically by the first shards' first cases
        let k = (i as usize * 16 + ctx.shard as usize) % (REQ_KINDS.len() * 4);
        script.ops.insert(script.ops.len() / 2, Op::Req(k / 4, 0, (k % 4) as u8));
        if i % 3 == 0 {
            script.sched_seed = 0;
        }
        judge(ctx, &script, true);
    }
    // ---- the shipped binary over real stdio (initialize handshake, init-time queue, shutdown, process death) ----
    let ns = ctx.budget(3, 40);
    for i in 0..ns {
        if ctx.out_of_time() {
            break;
        }
        let mut rng = Rng::new(ctx.case_seed(i) ^ 0x57d10);
        let case = crate::lspstdio::gen_case(&mut rng, i as usize * 16 + ctx.shard as usize);
        judge_stdio(ctx, &case);
    }
}

pub fn judge_stdio(ctx: &mut Ctx, case: &crate::lspstdio::StdioCase) {
    use crate::lspstdio as st;
    let o = match st::run_case(&ctx.work.clone(), ctx.shard, case) {
        Ok(o) => o,
        Err(e) => {
            ctx.inconclusive(&format!("stdio-harness:{}", e.split(':').next().unwrap_or("")));
            return;
        }
    };
    if let Some(r) = &o.inconclusive {
        ctx.inconclusive(r);
        return;
    }
    ctx.clause("stdio:process-run");
    ctx.clause_n("stdio:requests-sent", o.sent.len() as u64);
    ctx.clause_n("stdio:error-responses", o.error_responses as u64);
    ctx.clause_n("stdio:server-requests-answered", o.server_requests as u64);
    if case.init_mal != 0 {
        ctx.clause("stdio:initialize-malformed");
    }
    if case.pre_init_request {
        ctx.clause("stdio:request-before-initialize");
    }
    if o.exit_status.is_some() {
        ctx.clause("stdio:exit-observed");
    }
    let v = st::oracle(&o);
    if v.is_empty() {
        ctx.clause("stdio:history-checked");
        let h = crate::rng::fnv(st::case_to_json(case).to_string().as_bytes());
        ctx.held(h, o.sent.len() >= 3);
        if ctx.want_sample() && h % 7 == 0 {
            ctx.sample(json!({"stdio_case": st::case_to_json(case), "requests": o.sent.len(), "responses": o.responses.len(), "error_responses": o.error_responses, "server_requests": o.server_requests, "notifications": o.notifications, "exit": o.exit_status}));
        }
        return;
    }
    let mut first = true;
    for (sig, detail) in v {
        if first {
            first = false;
            ctx.violated(&sig, &detail, st::case_to_json(case));
        } else {
            ctx.add_violation(&sig, &detail, st::case_to_json(case));
        }
    }
}
