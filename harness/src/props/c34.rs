//! C34 — file paths and URIs convert back and forth without loss.
//!
//! Generated normalised absolute paths (Linux semantics) → `file_path_to_uri` → `uri_to_file_path`, and
//! the same URI in alternative percent-encodings → `uri_to_file_path`, `Vfs::file_id`, `Vfs::get_file_id`,
//! `Vfs::get_uri`.
//!
//! Clauses: (a) `uri_to_file_path(file_path_to_uri(p)) == p`; (b) every alternative encoding of the URI
//! decodes to `p`; (c) every alternative encoding maps to the same `FileId`, and `get_uri(id)` decodes to `p`.

use crate::report::{Ctx, clip};
use crate::rng::{Rng, fnv};
use crate::util::guarded;
use emmylua_code_analysis::{Emmyrc, Vfs, file_path_to_uri, uri_to_file_path};
use lsp_types::Uri;
use serde_json::json;
use std::path::PathBuf;
use std::str::FromStr;
use std::sync::Arc;

const RESERVED: &[&str] = &[" ", "%", "#", "?", "&", "+", "=", ";", "@", "$", "!", "'", "(", ")", "[", "]", "{", "}", "~", "^", ",", ":", "*", "|", "\"", "<", ">", "`", "\\"];
const PLAIN: &[&str] = &["a", "b", "lib", "src", "x1", "Foo", "init", "main", ".lua", ".", "-", "_", "0"];
const UNICODE: &[&str] = &["é", "ß", "名", "前", "я", "😀", "𝔘", "e\u{301}", "\u{a0}", "\u{2028}", "\u{feff}", "ｆ", "İ", "ǅ"];
const TRICKY: &[&str] = &["%20", "%2F", "%25", "%E9", "%zz", "%", "%%", "..a", "a..", "...", ".hidden", "C:", "c:", "file:", "//", "?q=1", "#frag", "%23", "%3F", "+", "\t", "\u{7f}", "\u{1}"];

fn component(rng: &mut Rng) -> String {
    let n = rng.range(1, 5);
    let mix = rng.below(5);
    let mut s = String::new();
    for _ in 0..n {
        let frag = match (mix, rng.below(10)) {
            (0, _) => rng.pick(PLAIN),
            (1, 0..=3) | (4, 0..=1) => rng.pick(RESERVED),
            (2, 0..=3) | (4, 2..=3) => rng.pick(UNICODE),
            (3, 0..=3) | (4, 4..=5) => rng.pick(TRICKY),
            _ => rng.pick(PLAIN),
        };
        s.push_str(frag);
    }
    // components must not contain '/' or NUL and must not be "." or ".." (normalised path)
    let s: String = s.chars().filter(|c| *c != '/' && *c != '\0').collect();
    if s.is_empty() || s == "." || s == ".." { "x".to_string() } else { s }
}

fn gen_path(rng: &mut Rng) -> String {
    let n = rng.range(1, 5);
    let mut p = String::new();
    for _ in 0..n {
        p.push('/');
        p.push_str(&component(rng));
    }
    p
}

fn hex(b: u8, upper: bool) -> String {
    if upper { format!("%{b:02X}") } else { format!("%{b:02x}") }
}

/// Alternative spellings of the same URI (same scheme, authority and path bytes; only the
/// percent-encoding differs). `canon` is `file:///…` as produced by the code under test.
fn alternatives(rng: &mut Rng, canon: &str) -> Vec<(&'static str, String)> {
    let Some(rest) = canon.strip_prefix("file://") else { return vec![] };
    let mut out = Vec::new();
    // (1) flip the case of every hex escape
    let flip = |upper: bool| {
        let b = rest.as_bytes();
        let mut s = String::new();
        let mut i = 0;
        while i < b.len() {
            if b[i] == b'%' && i + 2 < b.len() && b[i + 1].is_ascii_hexdigit() && b[i + 2].is_ascii_hexdigit() {
                let h = &rest[i + 1..i + 3];
                s.push('%');
                s.push_str(&if upper { h.to_ascii_uppercase() } else { h.to_ascii_lowercase() });
                i += 3;
            } else {
                s.push(b[i] as char);
                i += 1;
            }
        }
        format!("file://{s}")
    };
    if rest.is_ascii() {
        out.push(("hex-lower", flip(false)));
        out.push(("hex-upper", flip(true)));
    }
    // decode the canonical path into raw bytes per segment, then re-encode differently
    let decode = |seg: &str| -> Vec<u8> {
        let b = seg.as_bytes();
        let mut v = Vec::new();
        let mut i = 0;
        while i < b.len() {
            if b[i] == b'%' && i + 2 < b.len() && b[i + 1].is_ascii_hexdigit() && b[i + 2].is_ascii_hexdigit() {
                v.push(u8::from_str_radix(&seg[i + 1..i + 3], 16).unwrap_or(b'?'));
                i += 3;
            } else {
                v.push(b[i]);
                i += 1;
            }
        }
        v
    };
    let segs: Vec<Vec<u8>> = rest.split('/').map(decode).collect();
    let unreserved = |b: u8| b.is_ascii_alphanumeric() || matches!(b, b'-' | b'.' | b'_' | b'~');
    // (2) everything escaped, (3) unreserved characters escaped at random, (4) minimal escaping + random case
    let mut enc_all = String::new();
    let mut enc_some = String::new();
    let mut enc_mixed = String::new();
    for (i, seg) in segs.iter().enumerate() {
        if i > 0 {
            enc_all.push('/');
            enc_some.push('/');
            enc_mixed.push('/');
        }
        // a segment made only of dots must keep its dots raw or escaped consistently: "%2E%2E" *is* ".." for URL parsers
        let only_dots = !seg.is_empty() && seg.iter().all(|b| *b == b'.');
        for &b in seg {
            if only_dots {
                enc_all.push(b as char);
                enc_some.push(b as char);
                enc_mixed.push(b as char);
                continue;
            }
            enc_all.push_str(&hex(b, true));
            if unreserved(b) && !rng.chance(1, 3) {
                enc_some.push(b as char);
            } else {
                enc_some.push_str(&hex(b, rng.bool()));
            }
            if unreserved(b) {
                enc_mixed.push(b as char);
            } else {
                enc_mixed.push_str(&hex(b, rng.bool()));
            }
        }
    }
    out.push(("all-escaped", format!("file://{enc_all}")));
    out.push(("unreserved-escaped", format!("file://{enc_some}")));
    out.push(("mixed-case-hex", format!("file://{enc_mixed}")));
    out
}

#[derive(Debug)]
struct Bad {
    sig: String,
    detail: String,
}

fn char_classes(p: &str) -> String {
    // structural discriminator: which character classes the (shrunk) path contains
    let mut c: Vec<&str> = Vec::new();
    for ch in p.chars() {
        let k = match ch {
            '/' => continue,
            '%' => "percent",
            '#' => "hash",
            '?' => "question",
            '\\' => "backslash",
            ' ' => "space",
            ':' => "colon",
            c if c.is_ascii_alphanumeric() => continue,
            c if c.is_ascii_control() => "control",
            c if c.is_ascii() => "punct",
            _ => "non-ascii",
        };
        if !c.contains(&k) {
            c.push(k);
        }
    }
    c.sort();
    if c.is_empty() { "plain".into() } else { c.join("+") }
}

fn eval(p: &str, alt_seed: u64) -> Result<usize, Bad> {
    let path = PathBuf::from(p);
    let cls = char_classes(p);
    let r = guarded(|| -> Result<usize, Bad> {
        let Some(uri) = file_path_to_uri(&path) else {
            return Err(Bad { sig: format!("C34:path-has-no-uri:{cls}"), detail: format!("file_path_to_uri({p:?}) = None") });
        };
        let back = uri_to_file_path(&uri);
        if back.as_ref() != Some(&path) {
            return Err(Bad { sig: format!("C34:roundtrip:{cls}"), detail: format!("{p:?} -> {} -> {back:?}", uri.as_str()) });
        }
        let mut vfs = Vfs::new();
        vfs.update_config(Arc::new(Emmyrc::default()));
        let id = vfs.file_id(&uri);
        if vfs.get_file_id(&uri) != Some(id) {
            return Err(Bad { sig: "C34:file-id:lookup-after-register".into(), detail: format!("get_file_id({}) != file_id", uri.as_str()) });
        }
        match vfs.get_uri(&id).and_then(|u| uri_to_file_path(&u)) {
            Some(q) if q == path => {}
            other => return Err(Bad { sig: format!("C34:get-uri-decodes-differently:{cls}"), detail: format!("get_uri(id) decodes to {other:?}, expected {p:?}") }),
        }
        let mut rng = Rng::new(alt_seed);
        let mut checked = 0usize;
        for (kind, alt) in alternatives(&mut rng, uri.as_str()) {
            let Ok(u) = Uri::from_str(&alt) else { continue };
            let q = uri_to_file_path(&u);
            if q.as_ref() != Some(&path) {
                return Err(Bad { sig: format!("C34:alternative-encoding-decodes-differently:{kind}"), detail: format!("{alt} decodes to {q:?}, expected {p:?} (canonical {})", uri.as_str()) });
            }
            let got = vfs.get_file_id(&u);
            if got != Some(id) {
                return Err(Bad { sig: format!("C34:alternative-encoding-other-file-id:{kind}"), detail: format!("get_file_id({alt}) = {got:?}, canonical {} has {id:?}", uri.as_str()) });
            }
            let got = vfs.file_id(&u);
            if got != id {
                return Err(Bad { sig: format!("C34:alternative-encoding-other-file-id:{kind}"), detail: format!("file_id({alt}) = {got:?}, canonical {} has {id:?}", uri.as_str()) });
            }
            checked += 1;
        }
        Ok(checked)
    });
    match r {
        Ok(x) => x,
        Err(pn) => Err(Bad { sig: format!("C34:panic:{}", super::c31::panic_class(&pn)), detail: format!("{} at {}", clip(&pn.message, 200), pn.location) }),
    }
}

/// non-UTF-8 path: outside the quantifier of the property (paths are generated over characters); observed only
fn observe_non_utf8(ctx: &mut Ctx, rng: &mut Rng) {
    use std::os::unix::ffi::OsStringExt;
    let mut bytes = gen_path(rng).into_bytes();
    bytes.push(0xff);
    let path = PathBuf::from(std::ffi::OsString::from_vec(bytes));
    let ok = guarded(|| file_path_to_uri(&path).and_then(|u| uri_to_file_path(&u)) == Some(path.clone())).unwrap_or(false);
    ctx.extra_add(if ok { "non_utf8_paths_roundtrip" } else { "non_utf8_paths_lost(not judged)" }, 1);
}

pub fn run(ctx: &mut Ctx) {
    if let Some(rep) = ctx.replay.clone() {
        let p = rep["path"].as_str().unwrap_or("/").to_string();
        let seed = rep["alt_seed"].as_u64().unwrap_or(0);
        match eval(&p, seed) {
            Ok(n) => {
                println!("replay: held ({n} alternative encodings agree)");
                ctx.held(fnv(p.as_bytes()), true);
            }
            Err(b) => {
                println!("replay: VIOLATED {}: {}", b.sig, b.detail);
                ctx.violated(&b.sig, &b.detail, rep);
            }
        }
        return;
    }
    let n = ctx.budget(40_000, 1_000_000);
    for i in 0..n {
        super::c31::note_first_violation(ctx, i.saturating_sub(1));
        if ctx.out_of_time() {
            break;
        }
        let mut rng = Rng::new(ctx.case_seed(i));
        if i % 500 == 499 {
            observe_non_utf8(ctx, &mut rng);
        }
        let p = gen_path(&mut rng);
        let seed = rng.next_u64();
        match eval(&p, seed) {
            Ok(alts) => {
                ctx.clause("a:roundtrip");
                if alts > 0 {
                    ctx.clause("b:alternative-encodings-decode");
                    ctx.clause("c:same-file-id");
                }
                ctx.extra_add("alternative_encodings_checked", alts as u64);
                ctx.held(fnv(p.as_bytes()), char_classes(&p) != "plain" && alts >= 3);
                if ctx.want_sample() && i % 2503 == 7 {
                    ctx.sample(json!({"path": p, "uri": file_path_to_uri(&PathBuf::from(&p)).map(|u| u.as_str().to_string()), "alternatives_checked": alts}));
                }
            }
            Err(b) => {
                ctx.fps.insert(fnv(p.as_bytes()));
                let clause = b.sig.split(':').nth(1).unwrap_or("").to_string();
                let chars: Vec<String> = p.chars().map(|c| c.to_string()).collect();
                let small = crate::util::ddmin(
                    chars,
                    |c| {
                        let s = c.concat();
                        s.starts_with('/') && !s.contains("//") && !s.ends_with('/') && !s.split('/').any(|x| x == "." || x == "..") && matches!(eval(&s, seed), Err(b2) if b2.sig.split(':').nth(1) == Some(clause.as_str()))
                    },
                    400,
                );
                let sp = small.concat();
                let b2 = eval(&sp, seed).err().unwrap_or(b);
                ctx.violated(&b2.sig, &format!("{}; shrunk path {:?}", b2.detail, sp), json!({"path": sp, "alt_seed": seed, "original": p}));
            }
        }
    }
}
