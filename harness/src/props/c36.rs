//! C36 — `emmylua_check`: exit status and text / JSON / SARIF reports match the diagnostics.
//!
//! Reference = in-process analysis of the same directory with the same configuration (files and
//! their main/library status come from the generator's own manifest, not from the checker's
//! loader). Observation = the shipped binary, once per (format, --severity, --warnings-as-errors,
//! destination) combination, repeated (the report is assembled from a concurrent channel).
//! Compared as multisets of (file, range, code, severity); message text is not part of the key.

use crate::proc::{self, Cmd};
use crate::report::{Ctx, clip};
use crate::rng::{Rng, fnv};
use crate::util::guarded;
use emmylua_code_analysis::{EmmyLuaAnalysis, WorkspaceFolder, file_path_to_uri, load_configs};
use serde_json::{Value, json};
use std::collections::{BTreeMap, BTreeSet};
use std::path::{Path, PathBuf};
use std::sync::Arc;

// ------------------------------------------------------------------------------------------------
// workload

#[derive(Clone, Debug)]
pub struct Ws {
    /// (path relative to the scratch dir, content)
    pub files: Vec<(String, String)>,
    /// main workspace roots (relative to scratch); the first is the one passed first
    pub roots: Vec<String>,
    /// library roots (relative to scratch), configured in the emmyrc with absolute paths
    pub libs: Vec<String>,
    /// emmyrc body without the library key
    pub emmyrc: Value,
    /// config passed with --config (file outside the workspace) instead of <root>/.emmyrc.json
    pub explicit_config: bool,
}

const SNIPPETS: &[(&str, &str)] = &[
    ("clean", "local function add_N(a, b)\n  return a + b\nend\nprint(add_N(1, 2))\n"),
    ("unused", "local unused_N = N\n"),
    ("undef", "undefined_fn_N()\n"),
    ("undef-nonascii", "local s_N = \"h\u{e9}llo \u{1F600} w\u{f6}rld\"; print(s_N); undefined_uni_N()\n"),
    ("param", "---@param n integer\nlocal function takes_int_N(n) return n end\ntakes_int_N(\"str\")\n"),
    ("assign", "---@type string\nlocal str_N = 1\nprint(str_N)\n"),
    ("multiline", "---@param a integer\n---@param b integer\nlocal function two_N(a, b) return a + b end\ntwo_N(1,\n  {\n    x = 1,\n  })\n"),
    ("deprecated", "---@deprecated\nlocal function old_N() end\nold_N()\n"),
    ("field", "---@class Box_N\n---@field w integer\nlocal box_N = {}\nprint(box_N.h)\n"),
    ("redefined", "local dup_N = 1\nlocal dup_N = 2\nprint(dup_N)\n"),
    ("syntax-mid", "local = N\n"),
    ("tab-line", "\tif true then\tundefined_tab_N()\tend\n"),
];
const TAILS: &[(&str, &str)] = &[("syntax-eof", "local t_N = "), ("syntax-eof-nl", "local t_N = \n"), ("unclosed", "local f_N = function()\n  print(1)\n"), ("undef-no-nl", "undefined_last_N()")];

/// Which snippets a workspace may use: 0 = all, 1 = nothing that is an error by default
/// (warnings / hints only), 2 = hints only, 3 = clean code only. Without such workspaces almost
/// every run contains an error and the exit-status clause would never see an expected 0.
fn allowed(profile: usize, kind: &str) -> bool {
    match profile {
        0 => true,
        1 => matches!(kind, "clean" | "unused" | "param" | "assign" | "multiline" | "deprecated" | "field" | "redefined"),
        2 => matches!(kind, "clean" | "unused" | "deprecated" | "redefined"),
        _ => kind == "clean",
    }
}

fn gen_file(rng: &mut Rng, n: &mut usize, profile: usize) -> (String, Vec<&'static str>) {
    let mut text = String::new();
    let mut kinds = Vec::new();
    let k = rng.pick(&[0usize, 1, 1, 2, 3, 4, 6]);
    for _ in 0..k {
        let (kind, s) = rng.pick(SNIPPETS);
        if !allowed(profile, kind) {
            continue;
        }
        *n += 1;
        text.push_str(&s.replace('N', &n.to_string()));
        kinds.push(kind);
        if rng.chance(1, 4) {
            text.push('\n');
        }
    }
    if profile == 0 && rng.chance(1, 5) {
        let (kind, s) = rng.pick(TAILS);
        *n += 1;
        text.push_str(&s.replace('N', &n.to_string()));
        kinds.push(kind);
    }
    if rng.chance(1, 6) {
        text = text.replace('\n', "\r\n");
    }
    (text, kinds)
}

pub fn gen_ws(rng: &mut Rng, max_files: usize) -> Ws {
    let mut n = 0usize;
    let profile = rng.pick(&[0usize, 0, 0, 1, 1, 2, 2, 3]);
    let two_roots = rng.chance(1, 6);
    let roots: Vec<String> = if two_roots { vec!["ws".into(), "ws2".into()] } else { vec!["ws".into()] };
    let lib_kind = rng.below(4); // 0,1 none; 2 outside; 3 inside the main root
    let libs: Vec<String> = match lib_kind {
        2 => vec!["extlib".into()],
        3 => vec!["ws/vendor".into()],
        _ => vec![],
    };
    let nfiles = match rng.below(4) {
        0 => 1,
        1 => rng.range(2, 5),
        2 => rng.range(5, 12),
        _ => rng.range(12, max_files.max(12)),
    };
    let dirs = ["", "", "sub/", "sub/deep/", "mods/", "sp ace/", "\u{fc}ml/"];
    let mut files = Vec::new();
    let mut used = BTreeSet::new();
    for i in 0..nfiles {
        let root = if two_roots && i % 3 == 2 { "ws2" } else { "ws" };
        let d = rng.pick(&dirs);
        let name = format!("{root}/{d}f{i}.lua");
        if !used.insert(name.clone()) {
            continue;
        }
        let (text, _) = gen_file(rng, &mut n, profile);
        files.push((name, text));
    }
    for l in &libs {
        for i in 0..rng.range(1, 3) {
            let (mut text, _) = gen_file(rng, &mut n, 0);
            text.push_str(&format!("\nundefined_in_library_{i}()\n"));
            files.push((format!("{l}/lib{i}.lua"), text));
        }
    }
    // configuration: severity remaps / disabled codes so that all four severities occur
    let mut diag = serde_json::Map::new();
    if rng.bool() {
        let mut sev = serde_json::Map::new();
        for code in ["unused", "undefined-global", "param-type-mismatch", "assign-type-mismatch", "deprecated", "undefined-field", "redefined-local", "syntax-error"] {
            if rng.chance(1, 3) {
                sev.insert(code.into(), json!(rng.pick(&["error", "warning", "information", "hint"])));
            }
        }
        diag.insert("severity".into(), Value::Object(sev));
    }
    if rng.chance(1, 4) {
        diag.insert("disable".into(), json!([rng.pick(&["unused", "undefined-global", "deprecated", "param-type-mismatch"])]));
    }
    if rng.chance(1, 4) {
        diag.insert("enables".into(), json!(["undefined-field", "redefined-local"]));
    }
    let emmyrc = json!({"diagnostics": Value::Object(diag)});
    Ws { files, roots, libs, emmyrc, explicit_config: rng.chance(1, 5) }
}

impl Ws {
    pub fn to_json(&self) -> Value {
        json!({"files": self.files.iter().map(|(p, c)| json!({"path": p, "content": c})).collect::<Vec<_>>(), "roots": self.roots, "libs": self.libs, "emmyrc": self.emmyrc, "explicit_config": self.explicit_config})
    }
    pub fn from_json(v: &Value) -> Option<Ws> {
        let strs = |x: &Value| x.as_array().map(|a| a.iter().filter_map(|s| s.as_str().map(|s| s.to_string())).collect::<Vec<_>>());
        Some(Ws {
            files: v["files"].as_array()?.iter().filter_map(|f| Some((f["path"].as_str()?.to_string(), f["content"].as_str()?.to_string()))).collect(),
            roots: strs(&v["roots"])?,
            libs: strs(&v["libs"])?,
            emmyrc: v["emmyrc"].clone(),
            explicit_config: v["explicit_config"].as_bool().unwrap_or(false),
        })
    }
    fn config_rel(&self) -> String {
        if self.explicit_config { "cfg/custom.json".into() } else { format!("{}/.emmyrc.json", self.roots[0]) }
    }
    /// write everything below `scratch`
    pub fn materialize(&self, scratch: &Path) -> Result<(), String> {
        for d in self.roots.iter().chain(self.libs.iter()) {
            let _ = std::fs::remove_dir_all(scratch.join(d));
        }
        let _ = std::fs::remove_dir_all(scratch.join("cfg"));
        for d in self.roots.iter().chain(self.libs.iter()) {
            std::fs::create_dir_all(scratch.join(d)).map_err(|e| e.to_string())?;
        }
        let mut all: Vec<(String, Vec<u8>)> = self.files.iter().map(|(p, c)| (p.clone(), c.clone().into_bytes())).collect();
        let mut rc = self.emmyrc.clone();
        if !self.libs.is_empty() {
            let libs: Vec<String> = self.libs.iter().map(|l| scratch.join(l).to_string_lossy().to_string()).collect();
            rc["workspace"] = json!({"library": libs});
        }
        all.push((self.config_rel(), serde_json::to_vec_pretty(&rc).unwrap()));
        for (rel, data) in all {
            let p = scratch.join(&rel);
            if let Some(parent) = p.parent() {
                std::fs::create_dir_all(parent).map_err(|e| e.to_string())?;
            }
            std::fs::write(&p, data).map_err(|e| e.to_string())?;
        }
        Ok(())
    }
    pub fn is_lib_file(&self, rel: &str) -> bool {
        self.libs.iter().any(|l| rel.starts_with(&format!("{l}/")))
    }
    pub fn fp(&self) -> u64 {
        fnv(self.to_json().to_string().as_bytes())
    }
}

// ------------------------------------------------------------------------------------------------
// diagnostics as comparable keys

#[derive(Clone, Debug, PartialEq, Eq, PartialOrd, Ord)]
pub struct DKey {
    /// absolute path
    pub file: String,
    pub sl: u32,
    pub sc: u32,
    /// end (None for the text format which does not print it)
    pub end: Option<(u32, u32)>,
    pub code: String,
    /// 1 error, 2 warning, 3 information, 4 hint, 0 none; SARIF folds 3/4/0 into 3 ("note")
    pub sev: u8,
}

impl DKey {
    fn show(&self) -> String {
        let e = self.end.map(|(l, c)| format!("-{}:{}", l + 1, c + 1)).unwrap_or_default();
        format!("{}:{}:{}{} [{}] sev{}", self.file, self.sl + 1, self.sc + 1, e, self.code, self.sev)
    }
}

#[derive(Clone, Debug)]
pub struct RefDiag {
    pub key: DKey,
    pub message: String,
}

/// In-process reference: diagnostics of every main-workspace file, unfiltered.
pub fn reference(ws: &Ws, scratch: &Path) -> Result<Vec<RefDiag>, String> {
    let cfg = scratch.join(ws.config_rel());
    let root0 = scratch.join(&ws.roots[0]);
    let mut emmyrc = load_configs(vec![cfg.clone()], None);
    let cfg_root = if ws.explicit_config { cfg.parent().unwrap().to_path_buf() } else { root0.clone() };
    emmyrc.pre_process_emmyrc(&cfg_root);
    let mut analysis = EmmyLuaAnalysis::new();
    analysis.update_config(Arc::new(emmyrc));
    analysis.init_std_lib(None);
    for r in &ws.roots {
        analysis.add_main_workspace(scratch.join(r));
    }
    for l in &ws.libs {
        analysis.add_library_workspace(&WorkspaceFolder::new(scratch.join(l), true));
    }
    let files: Vec<(PathBuf, Option<String>)> = ws.files.iter().map(|(p, c)| (scratch.join(p), Some(c.clone()))).collect();
    analysis.update_files_by_path(files);
    let mut out = Vec::new();
    for (rel, _) in &ws.files {
        if ws.is_lib_file(rel) {
            continue;
        }
        let path = scratch.join(rel);
        let uri = file_path_to_uri(&path).ok_or("reference-uri")?;
        let fid = analysis.get_file_id(&uri).ok_or("reference-file-id")?;
        let diags = analysis.diagnose_file(fid, tokio_util::sync::CancellationToken::new()).ok_or("reference-diagnose-none")?;
        for d in diags {
            let code = match &d.code {
                Some(lsp_types::NumberOrString::String(s)) => s.clone(),
                Some(lsp_types::NumberOrString::Number(n)) => n.to_string(),
                None => String::new(),
            };
            let sev = match d.severity {
                Some(lsp_types::DiagnosticSeverity::ERROR) => 1,
                Some(lsp_types::DiagnosticSeverity::WARNING) => 2,
                Some(lsp_types::DiagnosticSeverity::INFORMATION) => 3,
                Some(lsp_types::DiagnosticSeverity::HINT) => 4,
                _ => 0,
            };
            out.push(RefDiag {
                key: DKey { file: path.to_string_lossy().to_string(), sl: d.range.start.line, sc: d.range.start.character, end: Some((d.range.end.line, d.range.end.character)), code, sev },
                message: d.message.clone(),
            });
        }
    }
    out.sort_by(|a, b| a.key.cmp(&b.key));
    Ok(out)
}

// ------------------------------------------------------------------------------------------------
// flag combinations

#[derive(Clone, Debug, PartialEq)]
pub struct Combo {
    pub format: &'static str, // text | json | sarif
    pub to_file: bool,        // --output <file> (json / sarif)
    pub severity: Option<&'static str>,
    pub wae: bool,
}

impl Combo {
    fn label(&self) -> String {
        format!("{}{}", self.format, if self.to_file { "-file" } else { "" })
    }
    fn to_json(&self) -> Value {
        json!({"format": self.format, "to_file": self.to_file, "severity": self.severity, "wae": self.wae})
    }
    fn from_json(v: &Value) -> Option<Combo> {
        let format = match v["format"].as_str()? {
            "text" => "text",
            "json" => "json",
            "sarif" => "sarif",
            _ => return None,
        };
        let severity = match v["severity"].as_str() {
            Some("error") => Some("error"),
            Some("warn") => Some("warn"),
            Some("info") => Some("info"),
            Some("hint") => Some("hint"),
            _ => None,
        };
        Some(Combo { format, to_file: v["to_file"].as_bool().unwrap_or(false), severity, wae: v["wae"].as_bool().unwrap_or(false) })
    }
    /// largest severity number that passes the filter
    fn max_sev(&self) -> u8 {
        match self.severity {
            Some("error") => 1,
            Some("warn") => 2,
            Some("info") => 3,
            Some("hint") => 4,
            _ => 255,
        }
    }
}

fn all_combos() -> Vec<Combo> {
    let mut v = Vec::new();
    for (format, to_file) in [("text", false), ("json", false), ("json", true), ("sarif", false), ("sarif", true)] {
        for severity in [None, Some("error"), Some("warn"), Some("info"), Some("hint")] {
            for wae in [false, true] {
                v.push(Combo { format, to_file, severity, wae });
            }
        }
    }
    v
}

// ------------------------------------------------------------------------------------------------
// report parsers

fn uri_to_path(uri: &str) -> Option<String> {
    let rest = uri.strip_prefix("file://")?;
    let b = rest.as_bytes();
    let mut out = Vec::new();
    let mut i = 0;
    while i < b.len() {
        if b[i] == b'%' && i + 2 < b.len() {
            let h = std::str::from_utf8(&b[i + 1..i + 3]).ok()?;
            out.push(u8::from_str_radix(h, 16).ok()?);
            i += 3;
        } else {
            out.push(b[i]);
            i += 1;
        }
    }
    String::from_utf8(out).ok()
}

fn parse_json_report(text: &str) -> Result<(Vec<DKey>, Vec<String>), String> {
    let v: Value = serde_json::from_str(text).map_err(|e| format!("not-json:{e}"))?;
    let arr = v.as_array().ok_or("top-level-not-array")?;
    let mut keys = Vec::new();
    let mut files = Vec::new();
    for f in arr {
        let file = f["file"].as_str().ok_or("entry-without-file")?.to_string();
        files.push(file.clone());
        for d in f["diagnostics"].as_array().ok_or("entry-without-diagnostics")? {
            let r = &d["range"];
            let g = |a: &str, b: &str| r[a][b].as_u64().map(|x| x as u32);
            let code = match &d["code"] {
                Value::String(s) => s.clone(),
                Value::Number(n) => n.to_string(),
                _ => String::new(),
            };
            keys.push(DKey {
                file: file.clone(),
                sl: g("start", "line").ok_or("diag-without-range")?,
                sc: g("start", "character").ok_or("diag-without-range")?,
                end: Some((g("end", "line").ok_or("diag-without-range")?, g("end", "character").ok_or("diag-without-range")?)),
                code,
                sev: d["severity"].as_u64().unwrap_or(0) as u8,
            });
        }
    }
    Ok((keys, files))
}

fn parse_sarif_report(text: &str) -> Result<Vec<DKey>, String> {
    let v: Value = serde_json::from_str(text).map_err(|e| format!("not-json:{e}"))?;
    if v["version"].as_str() != Some("2.1.0") {
        return Err("sarif-version".into());
    }
    let runs = v["runs"].as_array().ok_or("sarif-no-runs")?;
    let mut keys = Vec::new();
    for run in runs {
        for r in run["results"].as_array().ok_or("sarif-no-results")? {
            let locs = r["locations"].as_array().ok_or("sarif-no-locations")?;
            if locs.len() != 1 {
                return Err("sarif-location-count".into());
            }
            let pl = &locs[0]["physicalLocation"];
            let uri = pl["artifactLocation"]["uri"].as_str().ok_or("sarif-no-uri")?;
            let file = uri_to_path(uri).ok_or("sarif-bad-uri")?;
            let reg = &pl["region"];
            let g = |k: &str| reg[k].as_u64().filter(|x| *x >= 1).map(|x| x as u32 - 1);
            let sev = match r["level"].as_str() {
                Some("error") => 1,
                Some("warning") => 2,
                Some("note") => 3,
                _ => return Err("sarif-level".into()),
            };
            keys.push(DKey {
                file,
                sl: g("startLine").ok_or("sarif-region")?,
                sc: g("startColumn").ok_or("sarif-region")?,
                end: Some((g("endLine").ok_or("sarif-region")?, g("endColumn").ok_or("sarif-region")?)),
                code: r["ruleId"].as_str().unwrap_or("").to_string(),
                sev,
            });
        }
    }
    Ok(keys)
}

#[derive(Debug, Default)]
struct TextReport {
    keys: Vec<DKey>,
    /// per "--- file [..]" header: (file, errors, warnings, infos, hints) as printed
    headers: Vec<(String, [u32; 4])>,
    /// summary totals as printed (None = "No issues found")
    summary: Option<[u32; 4]>,
    saw_summary: bool,
}

fn level_of(line: &str) -> Option<(u8, &str)> {
    for (p, s) in [("error: ", 1u8), ("warning: ", 2), ("info: ", 3), ("hint: ", 4)] {
        if let Some(r) = line.strip_prefix(p) {
            return Some((s, r));
        }
    }
    None
}

fn parse_counts(s: &str) -> [u32; 4] {
    // "2 errors, 1 warning, 3 info, 1 hint"
    let mut c = [0u32; 4];
    for part in s.split(',') {
        let part = part.trim();
        let mut it = part.split(' ');
        let n: u32 = it.next().and_then(|x| x.parse().ok()).unwrap_or(0);
        match it.next().unwrap_or("") {
            "error" | "errors" => c[0] = n,
            "warning" | "warnings" => c[1] = n,
            "info" => c[2] = n,
            "hint" | "hints" => c[3] = n,
            _ => {}
        }
    }
    c
}

fn parse_text_report(text: &str, root0: &Path) -> Result<TextReport, String> {
    let mut rep = TextReport::default();
    let lines: Vec<&str> = text.lines().collect();
    let abs = |p: &str| -> String {
        if p.starts_with('/') { p.to_string() } else { root0.join(p).to_string_lossy().to_string() }
    };
    let mut cur_header: Option<String> = None;
    let mut i = 0;
    while i < lines.len() {
        let l = lines[i];
        if let Some(rest) = l.strip_prefix("--- ") {
            // "--- path [counts]" or "--- path " ; the path may contain spaces, the counts never contain ']' inside
            let (path, counts) = match rest.rfind(" [") {
                Some(p) if rest.ends_with(']') => (&rest[..p], parse_counts(&rest[p + 2..rest.len() - 1])),
                _ => (rest.trim_end(), [0; 4]),
            };
            let f = abs(path);
            rep.headers.push((f.clone(), counts));
            cur_header = Some(f);
        } else if let Some(loc) = l.strip_prefix("  --> ") {
            // find the header line of this diagnostic: nearest preceding line that starts with a level
            let mut j = i;
            let mut head = None;
            while j > 0 {
                j -= 1;
                if let Some(h) = level_of(lines[j]) {
                    head = Some(h);
                    break;
                }
                if lines[j].starts_with("--- ") || lines[j].starts_with("  --> ") {
                    break;
                }
            }
            let (sev, _) = head.ok_or_else(|| format!("text-location-without-header: {l}"))?;
            // code = trailing " [code]" of the line just above the location line
            let above = lines[i - 1];
            let code = match above.rfind(" [") {
                Some(p) if above.ends_with(']') => above[p + 2..above.len() - 1].to_string(),
                _ => String::new(),
            };
            let mut it = loc.rsplitn(3, ':');
            let col: u32 = it.next().and_then(|x| x.parse().ok()).ok_or("text-bad-location")?;
            let line: u32 = it.next().and_then(|x| x.parse().ok()).ok_or("text-bad-location")?;
            let path = it.next().ok_or("text-bad-location")?;
            if line == 0 || col == 0 {
                return Err("text-zero-based-location".into());
            }
            let file = abs(path);
            if cur_header.as_deref() != Some(file.as_str()) {
                // printed under another file's header: keep the header's file so that the oracle sees it
                return Err(format!("text-location-under-foreign-header: {} under {:?}", file, cur_header));
            }
            rep.keys.push(DKey { file, sl: line - 1, sc: col - 1, end: None, code, sev });
        } else if l == "Summary" {
            rep.saw_summary = true;
            let mut c = [0u32; 4];
            let mut j = i + 1;
            while j < lines.len() && lines[j].starts_with("  ") {
                let p = parse_counts(lines[j].trim());
                for k in 0..4 {
                    c[k] += p[k];
                }
                j += 1;
            }
            rep.summary = Some(c);
            break;
        } else if l == "No issues found" {
            rep.saw_summary = true;
            rep.summary = None;
            break;
        }
        i += 1;
    }
    Ok(rep)
}

// ------------------------------------------------------------------------------------------------
// oracle

#[derive(Debug)]
pub struct Finding {
    pub clause: String,
    pub detail: String,
}

fn multiset(keys: &[DKey]) -> BTreeMap<DKey, i64> {
    let mut m = BTreeMap::new();
    for k in keys {
        *m.entry(k.clone()).or_insert(0) += 1;
    }
    m
}

fn project(k: &DKey, combo: &Combo) -> DKey {
    let mut k = k.clone();
    if combo.format == "text" {
        k.end = None;
    }
    if combo.format == "sarif" && (k.sev == 0 || k.sev >= 3) {
        k.sev = 3;
    }
    k
}

struct Observed {
    status: String,
    nonzero: bool,
    crashed: bool,
    report: String,
    stderr: String,
}

fn run_check(bin: &Path, ws: &Ws, scratch: &Path, combo: &Combo) -> Result<Observed, String> {
    let home = proc::fresh_home(&scratch.join("home"));
    let out_file = scratch.join("report.out");
    let _ = std::fs::remove_file(&out_file);
    let mut c = Cmd::new(bin, &home).cwd(scratch);
    if ws.explicit_config {
        c = c.arg("--config").arg(scratch.join(ws.config_rel()).to_string_lossy().to_string());
    }
    c = c.arg("--output-format").arg(combo.format);
    if combo.to_file {
        c = c.arg("--output").arg(out_file.to_string_lossy().to_string());
    }
    if let Some(s) = combo.severity {
        c = c.arg("--severity").arg(s);
    }
    if combo.wae {
        c = c.arg("--warnings-as-errors");
    }
    for r in &ws.roots {
        c = c.arg(scratch.join(r).to_string_lossy().to_string());
    }
    c.wall_limit_secs = 300.0;
    let o = proc::run(&c)?;
    if o.watchdog {
        return Err("watchdog".into());
    }
    let report = if combo.to_file { std::fs::read_to_string(&out_file).unwrap_or_default() } else { o.stdout_str() };
    let crashed = o.signal.is_some() || o.code == Some(101) || o.code.map(|c| c >= 128).unwrap_or(false);
    Ok(Observed { status: o.status_str(), nonzero: o.code != Some(0), crashed, report, stderr: o.stderr_str() })
}

/// Compare one run with the reference. Returns the violated clauses (empty = held).
fn judge(ws: &Ws, scratch: &Path, combo: &Combo, reference: &[RefDiag], obs: &Observed) -> Vec<Finding> {
    let mut f = Vec::new();
    let lab = combo.label();
    let filtered: Vec<&RefDiag> = reference.iter().filter(|d| combo.severity.is_none() || (d.key.sev >= 1 && d.key.sev <= combo.max_sev())).collect();
    if obs.crashed {
        f.push(Finding { clause: format!("crash:format={lab}"), detail: format!("emmylua_check {}; stderr: {}", obs.status, clip(&obs.stderr, 400)) });
        return f;
    }
    // (1) exit status
    let want_nonzero = filtered.iter().any(|d| d.key.sev == 1 || (combo.wae && d.key.sev == 2));
    if want_nonzero != obs.nonzero {
        f.push(Finding {
            clause: format!("exit-status:want={}:format={lab}", if want_nonzero { "nonzero" } else { "zero" }),
            detail: format!("{} but the filtered diagnostics contain {} errors and {} warnings (warnings-as-errors={}, severity={:?})", obs.status, filtered.iter().filter(|d| d.key.sev == 1).count(), filtered.iter().filter(|d| d.key.sev == 2).count(), combo.wae, combo.severity),
        });
    }
    // (2) report content
    let expected: Vec<DKey> = filtered.iter().map(|d| project(&d.key, combo)).collect();
    let observed: Result<Vec<DKey>, String> = match combo.format {
        "json" => {
            if obs.report.trim().is_empty() && expected.is_empty() && !combo.to_file {
                Ok(vec![]) // nothing at all is printed when no file produced a result; not judged here
            } else {
                parse_json_report(&obs.report).and_then(|(keys, files)| {
                    let mut seen = BTreeSet::new();
                    for fl in &files {
                        if !seen.insert(fl.clone()) {
                            return Err(format!("file-listed-twice:{fl}"));
                        }
                    }
                    Ok(keys)
                })
            }
        }
        "sarif" => parse_sarif_report(&obs.report),
        _ => parse_text_report(&obs.report, &scratch.join(&ws.roots[0])).and_then(|rep| {
            // header counts and summary are part of the text report
            let mut per_file: BTreeMap<String, [u32; 4]> = BTreeMap::new();
            let mut total = [0u32; 4];
            for d in &filtered {
                if (1..=4).contains(&d.key.sev) {
                    per_file.entry(d.key.file.clone()).or_insert([0; 4])[d.key.sev as usize - 1] += 1;
                    total[d.key.sev as usize - 1] += 1;
                }
            }
            let mut seen = BTreeSet::new();
            for (file, counts) in &rep.headers {
                if !seen.insert(file.clone()) {
                    return Err(format!("text-file-header-twice:{file}"));
                }
                let want = per_file.get(file).copied().unwrap_or([0; 4]);
                if *counts != want {
                    return Err(format!("text-header-counts:{file}: printed {counts:?}, filtered diagnostics {want:?}"));
                }
            }
            if !rep.saw_summary {
                return Err("text-no-summary".into());
            }
            let printed = rep.summary.unwrap_or([0; 4]);
            if printed != total {
                return Err(format!("text-summary-counts: printed {printed:?}, filtered diagnostics {total:?}"));
            }
            Ok(rep.keys)
        }),
    };
    let observed = match observed {
        Ok(k) => k,
        Err(e) => {
            let kind = e.split(':').next().unwrap_or("unparsable").to_string();
            let clause = if kind == "text-location-under-foreign-header" || kind == "file-listed-twice" || kind == "text-file-header-twice" {
                format!("report-wrong-file:format={lab}:{kind}")
            } else {
                format!("report-malformed:format={lab}:{kind}")
            };
            f.push(Finding { clause, detail: format!("{e}; report starts: {}", clip(&obs.report, 300)) });
            return f;
        }
    };
    let em = multiset(&expected);
    let om = multiset(&observed);
    let mut missing: Vec<(DKey, i64)> = Vec::new();
    let mut extra: Vec<(DKey, i64)> = Vec::new();
    for (k, n) in &em {
        let o = om.get(k).copied().unwrap_or(0);
        if o < *n {
            missing.push((k.clone(), n - o));
        }
        if o > *n {
            extra.push((k.clone(), o - n));
        }
    }
    for (k, n) in &om {
        if !em.contains_key(k) {
            extra.push((k.clone(), *n));
        }
    }
    if missing.is_empty() && extra.is_empty() {
        return f;
    }
    let strip = |k: &DKey| (k.sl, k.sc, k.end, k.code.clone(), k.sev);
    let wrong_file = missing.iter().any(|(m, _)| extra.iter().any(|(e, _)| strip(m) == strip(e) && m.file != e.file));
    let lib_leak = extra.iter().any(|(e, _)| ws.files.iter().any(|(p, _)| ws.is_lib_file(p) && scratch.join(p).to_string_lossy() == e.file));
    let unfiltered_leak = extra.iter().any(|(e, _)| reference.iter().any(|r| project(&r.key, combo) == *e) && !expected.contains(e));
    let dup = extra.iter().any(|(e, _)| em.contains_key(e));
    let clause = if wrong_file {
        "report-wrong-file"
    } else if lib_leak {
        "report-library-diagnostic"
    } else if unfiltered_leak {
        "report-ignores-severity-filter"
    } else if dup {
        "report-duplicate"
    } else if !missing.is_empty() && extra.is_empty() {
        "report-missing"
    } else if missing.is_empty() {
        "report-extra"
    } else {
        "report-differs"
    };
    let show = |v: &[(DKey, i64)]| v.iter().take(4).map(|(k, n)| format!("{}x {}", n, k.show())).collect::<Vec<_>>().join("; ");
    // structural discriminator: are whole files absent from the report, or single diagnostics of
    // files that are otherwise reported (diagnostic codes and positions are not part of it)
    let scope = if missing.is_empty() {
        "n/a"
    } else if missing.iter().all(|(m, _)| !observed.iter().any(|o| o.file == m.file)) {
        "whole-file"
    } else {
        "single-diagnostics"
    };
    f.push(Finding {
        clause: format!("{clause}:format={lab}:missing={scope}"),
        detail: format!("expected {} diagnostics, report has {}; missing: [{}] extra: [{}]", expected.len(), observed.len(), show(&missing), show(&extra)),
    });
    f
}

struct Eval {
    findings: Vec<Finding>,
    n_ref: usize,
    status: String,
}

/// Full evaluation of one (workspace, combo): materialize, reference (twice, must agree), run, judge.
fn eval(bin: &Path, ws: &Ws, scratch: &Path, combo: &Combo, refs: Option<&[RefDiag]>) -> Result<Eval, String> {
    let owned;
    let reference: &[RefDiag] = match refs {
        Some(r) => r,
        None => {
            ws.materialize(scratch)?;
            owned = stable_reference(ws, scratch)?;
            &owned
        }
    };
    let obs = run_check(bin, ws, scratch, combo)?;
    Ok(Eval { findings: judge(ws, scratch, combo, reference, &obs), n_ref: reference.len(), status: obs.status })
}

/// The reference is computed twice with fresh analyses (fresh hash seeds); if the two disagree
/// the analysis itself is seed-dependent for this workspace (C11's business) and C36 cannot judge.
fn stable_reference(ws: &Ws, scratch: &Path) -> Result<Vec<RefDiag>, String> {
    let a = guarded(|| reference(ws, scratch)).map_err(|p| format!("reference-panic:{}", p.sig()))??;
    let b = guarded(|| reference(ws, scratch)).map_err(|p| format!("reference-panic:{}", p.sig()))??;
    let ka: Vec<&DKey> = a.iter().map(|d| &d.key).collect();
    let kb: Vec<&DKey> = b.iter().map(|d| &d.key).collect();
    if ka != kb {
        return Err("reference-not-deterministic".into());
    }
    Ok(a)
}

fn shrink_ws(bin: &Path, ws: &Ws, scratch: &Path, combo: &Combo, clause_head: &str) -> Ws {
    // drop whole files while a finding with the same clause head (clause:format) persists
    let still = |cand: &Ws| -> bool {
        if !cand.files.iter().any(|(p, _)| !cand.is_lib_file(p)) {
            return false;
        }
        match eval(bin, cand, scratch, combo, None) {
            Ok(e) => e.findings.iter().any(|f| f.clause.starts_with(clause_head)),
            Err(_) => false,
        }
    };
    let files = crate::util::ddmin(ws.files.clone(), |fs| still(&Ws { files: fs.to_vec(), ..ws.clone() }), 16);
    let mut cur = Ws { files, ..ws.clone() };
    // then drop lines of the remaining files (coarse), only when few files are left
    if cur.files.len() <= 3 {
        for idx in 0..cur.files.len() {
            let lines: Vec<String> = cur.files[idx].1.split_inclusive('\n').map(|s| s.to_string()).collect();
            if lines.len() < 2 || lines.len() > 60 {
                continue;
            }
            let base = cur.clone();
            let kept = crate::util::ddmin(lines, |ls| {
                let mut c = base.clone();
                c.files[idx].1 = ls.concat();
                still(&c)
            }, 12);
            cur.files[idx].1 = kept.concat();
        }
    }
    if cur.emmyrc != json!({"diagnostics": {}}) {
        let c = Ws { emmyrc: json!({"diagnostics": {}}), ..cur.clone() };
        if still(&c) {
            cur = c;
        }
    }
    cur
}

fn clause_head(clause: &str) -> String {
    // "report-missing:format=text:codes=…" -> "report-missing:format=text"
    clause.split(':').take(2).collect::<Vec<_>>().join(":")
}

pub fn run(ctx: &mut Ctx) {
    let bin = match proc::repo_bin(&ctx.work, "emmylua_check") {
        Ok(b) => b,
        Err(e) => {
            ctx.inconclusive(&e);
            return;
        }
    };
    let scratch = proc::scratch_dir(&ctx.work, "c36", ctx.shard);
    let scratch = scratch.canonicalize().unwrap_or(scratch);
    if let Some(rep) = ctx.replay.clone() {
        match (Ws::from_json(&rep["ws"]), Combo::from_json(&rep["combo"])) {
            (Some(ws), Some(combo)) => {
                println!("replay: {} files, emmylua_check {}", ws.files.len(), combo.to_json());
                // the report is assembled from a concurrent channel: try a few times
                let mut held = true;
                for attempt in 0..4 {
                    match eval(&bin, &ws, &scratch, &combo, None) {
                        Ok(e) if e.findings.is_empty() => println!("replay attempt {attempt}: held ({} reference diagnostics, {})", e.n_ref, e.status),
                        Ok(e) => {
                            for f in &e.findings {
                                println!("replay attempt {attempt}: VIOLATED {}: {}", f.clause, f.detail);
                                ctx.violated(&format!("C36:{}", f.clause), &f.detail, rep.clone());
                            }
                            held = false;
                            break;
                        }
                        Err(r) => {
                            println!("replay: inconclusive ({r})");
                            ctx.inconclusive(&r);
                            held = false;
                            break;
                        }
                    }
                }
                if held {
                    ctx.held(ws.fp(), true);
                }
            }
            _ => ctx.inconclusive("replay-malformed"),
        }
        let _ = std::fs::remove_dir_all(&scratch);
        return;
    }
    let combos = all_combos();
    let mut shrunk: BTreeMap<String, (u32, String)> = BTreeMap::new();
    let n = ctx.budget(2, 50);
    let per_ws = if ctx.is_quick() { 8 } else { 12 };
    let repeats = if ctx.is_quick() { 2 } else { 4 };
    for i in 0..n {
        if ctx.out_of_time() {
            break;
        }
        let mut rng = Rng::new(ctx.case_seed(i));
        let ws = gen_ws(&mut rng, 40);
        if let Err(e) = ws.materialize(&scratch) {
            ctx.inconclusive(&format!("harness-io:{e}"));
            continue;
        }
        let reference = match stable_reference(&ws, &scratch) {
            Ok(r) => r,
            Err(e) => {
                ctx.inconclusive(&e);
                continue;
            }
        };
        let sevs: BTreeSet<u8> = reference.iter().map(|d| d.key.sev).collect();
        let files_with: BTreeSet<&str> = reference.iter().map(|d| d.key.file.as_str()).collect();
        let nontrivial = reference.len() >= 2;
        ctx.extra_add("workspaces", 1);
        ctx.extra_add("reference_diagnostics", reference.len() as u64);
        ctx.extra_add("files_with_diagnostics", files_with.len() as u64);
        // a rotating selection of flag combinations; every format is present for every workspace
        let mut pick: Vec<Combo> = Vec::new();
        let start = rng.below(combos.len());
        let mut k = 0;
        while pick.len() < per_ws && k < combos.len() {
            pick.push(combos[(start + k * 7) % combos.len()].clone());
            k += 1;
        }
        for combo in &pick {
            for rep_i in 0..repeats {
                if rep_i > 0 && ctx.out_of_time() {
                    break;
                }
                match eval(&bin, &ws, &scratch, combo, Some(&reference)) {
                    Err(r) => ctx.inconclusive(&r),
                    Ok(e) => {
                        ctx.clause(&format!("format:{}", combo.label()));
                        ctx.clause("exit-status");
                        if combo.severity.is_some() {
                            ctx.clause("severity-filter");
                        }
                        if combo.wae {
                            ctx.clause("warnings-as-errors");
                        }
                        let fp = ws.fp() ^ fnv(combo.to_json().to_string().as_bytes());
                        if e.findings.is_empty() {
                            ctx.held(fp, nontrivial);
                            if ctx.want_sample() && nontrivial && rep_i == 0 && ctx.samples.len() < 3 {
                                ctx.sample(json!({"files": ws.files.len(), "libs": ws.libs, "roots": ws.roots, "combo": combo.to_json(), "reference_diagnostics": reference.len(), "severities": sevs, "status": e.status, "emmyrc": ws.emmyrc}));
                            }
                            continue;
                        }
                        ctx.evaluations += 1;
                        for f in &e.findings {
                            let head = clause_head(&f.clause);
                            if let Some((cnt, sig)) = shrunk.get(&head) {
                                if *cnt >= 1 {
                                    // same clause and format already shrunk in this shard: count it under that signature
                                    *ctx.sig_counts.entry(sig.clone()).or_insert(0) += 1;
                                    continue;
                                }
                            }
                            let small = shrink_ws(&bin, &ws, &scratch, combo, &head);
                            // re-judge the shrunk witness so that the signature comes from it
                            let (clause, detail) = match eval(&bin, &small, &scratch, combo, None) {
                                Ok(e2) => match e2.findings.into_iter().find(|g| g.clause.starts_with(&head)) {
                                    Some(g) => (g.clause, g.detail),
                                    None => (f.clause.clone(), f.detail.clone()),
                                },
                                Err(_) => (f.clause.clone(), f.detail.clone()),
                            };
                            let ent = shrunk.entry(head.clone()).or_insert((0, format!("C36:{clause}")));
                            ent.0 += 1;
                            ctx.add_violation(&format!("C36:{clause}"), &format!("{detail} (shrunk to {} files from {})", small.files.len(), ws.files.len()), json!({"ws": small.to_json(), "combo": combo.to_json()}));
                        }
                        // the files of this workspace were re-materialized by the shrinker
                        let _ = ws.materialize(&scratch);
                        break;
                    }
                }
            }
        }
    }
    let _ = std::fs::remove_dir_all(&scratch);
}
