//! C21 — reported diagnostics are well-formed and complete for syntax errors.
//!
//! For every generated file: run the real `diagnose_file` and check every returned diagnostic
//! (range inside the document and not inverted, known code name, severity present, no
//! unsubstituted `%{name}` placeholder, no exact duplicate), then take the parse errors of the
//! very same tree and require a (doc-)syntax-error diagnostic at each error's location.
//!
//! Positions are validated with a local line/column model that accepts BOTH `\n`-only and
//! `\r\n|\n|\r` line splitting and BOTH UTF-16 and Unicode-scalar columns (which of them is the
//! right one is C23's question, not C21's).

use super::c19::{Diag, code_names, diagnose, emmyrc_all_enabled, fresh_analysis, set_file, to_diag};
use crate::corpus::Corpus;
use crate::gens::soup;
use crate::report::{Ctx, clip};
use crate::rng::{Rng, fnv};
use crate::util::{ddmin, guarded};
use emmylua_code_analysis::{EmmyLuaAnalysis, Emmyrc};
use emmylua_parser::LuaParseErrorKind;
use serde_json::json;

// ─────────────────────────────── local position model ───────────────────────────────

/// (start, end-of-content) byte offsets of every line; `lsp` = split at \r\n | \n | \r, else at \n only
fn line_spans(text: &str, lsp: bool) -> Vec<(usize, usize)> {
    let b = text.as_bytes();
    let mut out = Vec::new();
    let mut start = 0;
    let mut i = 0;
    while i < b.len() {
        if b[i] == b'\n' {
            out.push((start, i));
            start = i + 1;
        } else if lsp && b[i] == b'\r' {
            out.push((start, i));
            if i + 1 < b.len() && b[i + 1] == b'\n' {
                i += 1;
            }
            start = i + 1;
        }
        i += 1;
    }
    out.push((start, b.len()));
    out
}

fn utf16_len(s: &str) -> usize {
    s.chars().map(|c| c.len_utf16()).sum()
}

/// position accepted by at least one (line model, column unit) combination.
/// UTF-16 length >= scalar count, so the UTF-16 bound is the weaker one of the two units.
fn pos_in_document(text: &str, line: u32, ch: u32) -> bool {
    for lsp in [false, true] {
        let spans = line_spans(text, lsp);
        if let Some((s, e)) = spans.get(line as usize) {
            if (ch as usize) <= utf16_len(&text[*s..*e]) {
                return true;
            }
        }
    }
    false
}

/// all (line, col) renderings of a byte offset: 2 line models x 2 units
fn offset_positions(text: &str, off: usize) -> Vec<(u32, u32)> {
    let mut out = Vec::new();
    if off > text.len() || !text.is_char_boundary(off) {
        return out;
    }
    for lsp in [false, true] {
        let spans = line_spans(text, lsp);
        // the line whose start is the greatest start <= off
        let mut li = 0;
        for (i, (s, _)) in spans.iter().enumerate() {
            if *s <= off {
                li = i;
            }
        }
        let (s, e) = spans[li];
        // an offset inside a line terminator (the '\n' of "\r\n") belongs to the end of the line's content
        let seg = &text[s..off.min(e.max(s))];
        out.push((li as u32, seg.chars().count() as u32));
        out.push((li as u32, utf16_len(seg) as u32));
    }
    out.sort();
    out.dedup();
    out
}

// ───────────────────────────────────── oracle ─────────────────────────────────────

#[derive(Clone, Debug)]
struct Finding {
    clause: &'static str,
    /// structural discriminator (code / message shape)
    disc: String,
    detail: String,
}

/// `%{ident}` occurrences in `msg` that do not occur verbatim in the source text
fn placeholders(msg: &str, text: &str) -> Vec<String> {
    let b = msg.as_bytes();
    let mut out = Vec::new();
    let mut i = 0;
    while i + 2 < b.len() {
        if b[i] == b'%' && b[i + 1] == b'{' {
            let mut j = i + 2;
            while j < b.len() && (b[j].is_ascii_alphanumeric() || b[j] == b'_') {
                j += 1;
            }
            if j > i + 2 && j < b.len() && b[j] == b'}' {
                let ph = &msg[i..=j];
                if !text.contains(ph) {
                    out.push(ph.to_string());
                }
                i = j;
            }
        }
        i += 1;
    }
    out
}

struct Observed {
    text: String,
    diags: Vec<lsp_types::Diagnostic>,
    /// (is_doc, message, start byte, end byte)
    parse_errors: Vec<(bool, String, usize, usize)>,
}

#[derive(Default)]
struct Stats {
    diags: usize,
    perrs: usize,
    perrs_matched: usize,
    perr_range_outside: usize,
    completeness_applied: bool,
}

fn check(o: &Observed, known: &[String], stats: &mut Stats) -> Vec<Finding> {
    let text = &o.text;
    let mut f = Vec::new();
    let ds: Vec<Diag> = o.diags.iter().map(to_diag).collect();
    stats.diags = ds.len();
    for d in &ds {
        let code = if d.code.is_empty() { "<none>".to_string() } else { d.code.clone() };
        if d.code.is_empty() || !known.iter().any(|k| *k == d.code) {
            f.push(Finding { clause: "unknown-code", disc: format!("code={code}"), detail: d.show() });
        }
        if !pos_in_document(text, d.sl, d.sc) || !pos_in_document(text, d.el, d.ec) {
            f.push(Finding { clause: "range-out-of-document", disc: format!("code={code}"), detail: format!("{} (document has {} LF lines, {} bytes)", d.show(), line_spans(text, false).len(), text.len()) });
        }
        if (d.sl, d.sc) > (d.el, d.ec) {
            f.push(Finding { clause: "range-inverted", disc: format!("code={code}"), detail: d.show() });
        }
        if d.sev == 0 || d.sev == 9 {
            f.push(Finding { clause: "no-severity", disc: format!("code={code}"), detail: d.show() });
        }
        for ph in placeholders(&d.msg, text) {
            f.push(Finding { clause: "placeholder", disc: format!("code={code}:ph={}", ph.trim_matches(|c| c == '%' || c == '{' || c == '}')), detail: d.show() });
        }
    }
    // exact duplicates (full structural equality of the LSP diagnostic)
    for i in 0..o.diags.len() {
        for j in 0..i {
            if o.diags[i] == o.diags[j] {
                let d = &ds[i];
                // does the pair already exist in the parser's own error list (same byte range, same message)?
                let from_parser = o.parse_errors.iter().enumerate().any(|(a, x)| x.1 == d.msg && o.parse_errors.iter().skip(a + 1).any(|y| y.1 == x.1 && y.2 == x.2 && y.3 == x.3));
                let disc = if from_parser {
                    format!("code={}:origin=duplicate-parse-error", d.code)
                } else {
                    format!("code={}:origin=checker", d.code)
                };
                f.push(Finding { clause: "duplicate", disc, detail: format!("entries {j} and {i} are identical: {}", d.show()) });
                break;
            }
        }
    }
    // completeness for parse errors — only when nothing in the file can legitimately switch the codes off
    stats.perrs = o.parse_errors.len();
    let can_disable = text.contains("diagnostic") || text.contains("meta");
    if !can_disable {
        stats.completeness_applied = true;
        for (is_doc, msg, s, e) in &o.parse_errors {
            let starts = offset_positions(text, *s);
            let ends = offset_positions(text, *e);
            let syn: Vec<&Diag> = ds.iter().filter(|d| d.code == "syntax-error" || d.code == "doc-syntax-error").collect();
            let at = syn.iter().any(|d| starts.contains(&(d.sl, d.sc)) && ends.contains(&(d.el, d.ec)));
            if at {
                stats.perrs_matched += 1;
                continue;
            }
            let kind = if *is_doc { "doc" } else { "syntax" };
            let at_w = if *e >= text.len() { "end-of-file" } else if s == e { "empty-range" } else { "inner" };
            if starts.is_empty() || ends.is_empty() {
                // the parser's own range is not a range of this text: nothing to compare the diagnostic with
                stats.perr_range_outside += 1;
            } else if syn.iter().any(|d| d.msg == *msg) {
                f.push(Finding { clause: "parse-error-misplaced", disc: format!("kind={kind}:at={at_w}"), detail: format!("parse error {msg:?} at bytes {s}..{e} = {:?}..{:?}; diagnostics with this message: {:?}", starts, ends, syn.iter().filter(|d| d.msg == *msg).map(|d| d.show()).collect::<Vec<_>>()) });
            } else {
                f.push(Finding { clause: "parse-error-unreported", disc: format!("kind={kind}:at={at_w}"), detail: format!("parse error {msg:?} at bytes {s}..{e} = {:?}..{:?} has no (doc-)syntax-error diagnostic", starts, ends) });
            }
        }
    }
    f
}

// ───────────────────────────────────── execution ─────────────────────────────────────

const FILE: &str = "/vws/main/c21.lua";

fn config(all: bool) -> Emmyrc {
    if all { emmyrc_all_enabled() } else { Emmyrc::default() }
}

enum Run {
    Ok(Observed),
    None,
    Panic(String, &'static str),
}

fn observe(a: &mut EmmyLuaAnalysis, text: &str) -> Run {
    let fid = match guarded(|| set_file(a, FILE, text)) {
        Ok(Some(f)) => f,
        Ok(None) => return Run::None,
        Err(p) => return Run::Panic(p.sig(), "index"),
    };
    let diags = match guarded(|| diagnose(a, fid)) {
        Ok(Some(d)) => d,
        Ok(None) => return Run::None,
        Err(p) => return Run::Panic(p.sig(), "diagnose"),
    };
    let vfs = a.compilation.get_db().get_vfs();
    let doc_text = vfs.get_document(&fid).map(|d| d.get_text().to_string()).unwrap_or_else(|| text.to_string());
    let parse_errors = vfs
        .get_file_parse_error(&fid)
        .unwrap_or_default()
        .into_iter()
        .map(|e| (matches!(e.kind, LuaParseErrorKind::DocError), e.message.clone(), usize::from(e.range.start()), usize::from(e.range.end())))
        .collect();
    Run::Ok(Observed { text: doc_text, diags, parse_errors })
}

fn fresh_findings(text: &str, all: bool, std: bool, known: &[String]) -> Option<Vec<Finding>> {
    let mut a = fresh_analysis(config(all), std);
    match observe(&mut a, text) {
        Run::Ok(o) => Some(check(&o, known, &mut Stats::default())),
        _ => None,
    }
}

fn special(rng: &mut Rng) -> Vec<String> {
    const S: &[&str] = &[
        "local s = \"abc",
        "local s = \"\\xZZ\"\n",
        "local s = \"\\u{FFFFFFFF}\"\n",
        "local s = \"\\u{110000}\"\n",
        "local n = 1e\n",
        "local n = 0x\n",
        "local n = 9223372036854775808\n",
        "local x = ...\n",
        "function f() return ... end\n",
        "local t = {\r\n  a = ,\r\n}\r\n",
        "x = 1\rlocal = 2\ry = \r",
        "local 😀 = 1\nlocal s = \"😀😀\" .. = 2\n",
        "\u{feff}local = 1",
        "",
        "\n\n\n",
        "---@type\nlocal x\n",
        "---@class\n---@field\n---@param\nlocal function f() end\n",
        "---@type fun(\nlocal x",
        "return return",
        "for i = do end",
        "if then else elseif end",
        "local t = { [1] = 1, [1] = 2, a = 1, a = 2 }\nprint(t)\n",
        "local a <const> = 1\na = 2\na = 3\n",
        "goto x\n::x::\n::x::\n",
        "x = [==[ never closed",
        "--[[ never closed",
        "local function f(a, a, a) end\nf(1)\nf(1, 2, 3, 4)\n",
        "---@param a string\n---@param a string\n---@param b\nlocal function f(a) end\nf(1)\n",
        "---@class constructor: Attribute\n---@overload fun(a: string, b: string)\n\n---@[constructor]\nlocal x = 1\n",
        "---@class constructor: Attribute\n---@overload fun(a: string, b: string)\n\n---@[constructor(1, 2, 3)]\nlocal x = 1\n",
        "---@alias s<T> T extends new a\n",
        "---@type {[K\nlocal t\n",
        "---@type {[string]: V, [K]: \nlocal t\n",
    ];
    let mut v = vec![rng.pick(S).to_string()];
    if rng.chance(1, 3) {
        v.push(soup::soup(rng, 8));
    }
    v
}

fn gen_parts(rng: &mut Rng, corpus: &Corpus) -> (&'static str, Vec<String>) {
    match rng.below(100) {
        0..=27 => ("soup", soup::soup_parts(rng, 40)),
        28..=41 => ("corpus", soup::split_keep_ws(corpus.pick(rng))),
        42..=61 => {
            let mut p = soup::split_keep_ws(corpus.pick(rng));
            if p.len() > 2 {
                let cut = rng.range(1, p.len() - 1);
                p.truncate(cut);
            }
            ("corpus-truncated", p)
        }
        62..=86 => {
            let base = corpus.pick(rng);
            ("corpus-mutant", soup::split_keep_ws(&soup::mutate(rng, base)))
        }
        87..=91 => ("lossy-bytes", vec![soup::lossy_bytes(rng, 160)]),
        _ => ("special", special(rng)),
    }
}

struct Slot {
    a: EmmyLuaAnalysis,
    uses: u32,
}

fn slot(slots: &mut [Option<Slot>; 4], all: bool, std: bool) -> &mut Slot {
    let i = (all as usize) * 2 + std as usize;
    let renew = match &slots[i] {
        None => true,
        Some(s) => s.uses >= 400,
    };
    if renew {
        slots[i] = Some(Slot { a: fresh_analysis(config(all), std), uses: 0 });
    }
    let s = slots[i].as_mut().unwrap();
    s.uses += 1;
    s
}

fn sig_of(f: &Finding) -> String {
    format!("C21:{}:{}", f.clause, f.disc)
}

pub fn run(ctx: &mut Ctx) {
    let known = code_names();
    if let Some(rep) = ctx.replay.clone() {
        let text = rep["text"].as_str().unwrap_or("").to_string();
        let all = rep["all_codes"].as_bool().unwrap_or(true);
        let std = rep["std"].as_bool().unwrap_or(false);
        let want = rep["sig"].as_str().unwrap_or("").to_string();
        let mut a = fresh_analysis(config(all), std);
        match observe(&mut a, &text) {
            Run::Ok(o) => {
                println!("--- text ({} bytes) ---\n{}", o.text.len(), o.text);
                println!("--- diagnostics ---");
                for d in &o.diags {
                    println!("  {}", to_diag(d).show());
                }
                println!("--- parse errors ---");
                for e in &o.parse_errors {
                    println!("  {:?}", e);
                }
                let fs = check(&o, &known, &mut Stats::default());
                if fs.is_empty() {
                    println!("replay: held");
                    ctx.held(fnv(text.as_bytes()), true);
                } else {
                    // report the recorded signature if it is among the findings, else the first one
                    let f = fs.iter().find(|f| sig_of(f) == want).unwrap_or(&fs[0]);
                    println!("replay: VIOLATED {}: {}", sig_of(f), f.detail);
                    ctx.violated(&sig_of(f), &f.detail, rep);
                }
            }
            Run::None => {
                println!("replay: diagnose_file returned None");
                ctx.inconclusive("diagnose-none");
            }
            Run::Panic(s, wher) => {
                println!("replay: panic in {wher}: {s}");
                ctx.inconclusive(&format!("panic-in-{wher}"));
            }
        }
        return;
    }
    let corpus = Corpus::load(&ctx.repo);
    ctx.extra_set("corpus_items", json!(corpus.len()));
    ctx.extra_set("known_codes", json!(known.len()));
    if corpus.is_empty() {
        ctx.inconclusive("corpus-empty");
        return;
    }
    // every case is announced in the quick tier; in the thorough tier (GBs of text) only on request
    let announce = ctx.is_quick() || std::env::var("VERIF_ANNOUNCE").is_ok();
    let mut slots: [Option<Slot>; 4] = [None, None, None, None];
    let n = ctx.budget(30_000, 600_000);
    for i in 0..n {
        if ctx.out_of_time() {
            break;
        }
        let mut rng = Rng::new(ctx.case_seed(i));
        let (family, parts) = gen_parts(&mut rng, &corpus);
        let all = !rng.chance(1, 3);
        let std = rng.chance(1, 2);
        let text: String = parts.concat();
        if text.len() > 24_000 {
            ctx.extra_add("skipped_too_long", 1);
            continue;
        }
        if announce {
            // abort attribution (stack overflow / abort inside the analysis kills the worker)
            ctx.announce(&json!({"text": text, "all_codes": all, "std": std, "family": family}));
        }
        ctx.clause(&format!("family:{family}"));
        ctx.clause(if all { "cfg:all-codes" } else { "cfg:default" });
        let s = slot(&mut slots, all, std);
        let o = match observe(&mut s.a, &text) {
            Run::Ok(o) => o,
            Run::None => {
                ctx.inconclusive("diagnose-none");
                continue;
            }
            Run::Panic(sig, wher) => {
                // crashes are C12's subject; the analysis object may be inconsistent now
                ctx.inconclusive(&format!("panic-in-{wher}"));
                ctx.extra_add(&format!("panic:{sig}"), 1);
                let k = format!("panic_example:{sig}");
                if !ctx.extra.contains_key(&k) {
                    ctx.extra_set(&k, json!({"where": wher, "text": clip(&text, 2000), "all_codes": all, "std": std}));
                }
                slots[(all as usize) * 2 + std as usize] = None;
                continue;
            }
        };
        let mut st = Stats::default();
        let fs = check(&o, &known, &mut st);
        if st.diags > 0 {
            ctx.clause_n("diagnostics-validated", st.diags as u64);
        }
        if st.perr_range_outside > 0 {
            ctx.inconclusive("parse-error-range-outside-text");
        }
        if st.completeness_applied && st.perrs > 0 {
            ctx.clause_n("parse-errors-mapped", st.perrs_matched as u64);
        }
        if fs.is_empty() {
            ctx.held(fnv(text.as_bytes()) ^ (all as u64), st.diags >= 1);
            if ctx.want_sample() && st.diags >= 3 && st.perrs >= 1 && i % 499 == 11 {
                ctx.sample(json!({"family": family, "all_codes": all, "std": std, "diagnostics": st.diags, "parse_errors": st.perrs, "text": clip(&text, 400)}));
            }
            continue;
        }
        // one report per distinct (clause, discriminator) of this case
        let mut seen: Vec<String> = Vec::new();
        let mut counted = false;
        for f0 in &fs {
            let key = sig_of(f0);
            if seen.contains(&key) {
                continue;
            }
            seen.push(key.clone());
            let clause = f0.clause;
            // signatures of C21 do not depend on the shrunk text: once a signature has its witnesses,
            // further cases are only counted (confirmation + shrinking cost up to 300 fresh analyses)
            if ctx.sig_counts.get(&key).copied().unwrap_or(0) >= crate::report::MAX_VIOLATIONS_PER_SIG {
                if counted {
                    ctx.add_violation(&key, &f0.detail, json!({}));
                } else {
                    ctx.violated(&key, &f0.detail, json!({}));
                    counted = true;
                }
                continue;
            }
            // must reproduce in a fresh analysis (the long-lived one may carry state of earlier files)
            let fails = |p: &[String]| -> bool {
                let t: String = p.concat();
                match guarded(|| fresh_findings(&t, all, std, &known)) {
                    Ok(Some(v)) => v.iter().any(|f| f.clause == clause && (clause != "duplicate" && clause != "unknown-code" || f.disc == f0.disc)),
                    _ => false,
                }
            };
            if !fails(&parts) {
                ctx.inconclusive("not-reproducible-in-fresh-analysis");
                continue;
            }
            let budget = if std { 60 } else { 300 };
            let small = ddmin(parts.clone(), |p| fails(p), budget);
            let st_small: String = small.concat();
            let chars: Vec<String> = st_small.chars().map(|c| c.to_string()).collect();
            let small = if chars.len() <= 160 { ddmin(chars, |p| fails(p), budget) } else { small };
            let t: String = small.concat();
            let found = guarded(|| fresh_findings(&t, all, std, &known)).ok().flatten().unwrap_or_default();
            let Some(f) = found.iter().find(|f| f.clause == clause) else {
                ctx.inconclusive("shrink-unstable");
                continue;
            };
            let sig = sig_of(f);
            let rep = json!({"text": t, "all_codes": all, "std": std, "family": family, "sig": sig, "original_len": text.len()});
            if counted {
                ctx.add_violation(&sig, &format!("{}; shrunk input {:?}", f.detail, clip(&t, 200)), rep);
            } else {
                ctx.violated(&sig, &format!("{}; shrunk input {:?}", f.detail, clip(&t, 200)), rep);
                counted = true;
            }
        }
        if !counted {
            // nothing survived confirmation
            ctx.extra_add("unconfirmed_cases", 1);
        }
    }
}

