//! C22 — offsets and LSP positions convert consistently and stay in bounds.
//!
//! Per generated text, *exhaustively*: every char-boundary offset and every `(line, character)` with
//! `line <= lines + 2`, `character <= longest line + 3` is pushed through the real `LineIndex` and
//! `LuaDocument` conversions and compared with the independent position model (`posmodel`).
//!
//! C22 is not about *which* unit a column counts (that is C23), so the oracle accepts any of six
//! self-consistent conventions (UTF-16 / scalar / UTF-8 columns × `\n`-only / LSP line splitting):
//! a text is **held** when at least one convention explains every observation.

use crate::posmodel::{Encoding, LineSplit, PosModel};
use crate::report::{Ctx, clip};
use crate::rng::{Rng, fnv};
use crate::util::guarded;
use emmylua_code_analysis::{FileId, LuaDocument};
use emmylua_parser::LineIndex;
use rowan::TextSize;
use serde_json::json;
use std::path::PathBuf;

const CONVENTIONS: [(Encoding, LineSplit); 6] = [
    (Encoding::Scalar, LineSplit::LfOnly),
    (Encoding::Utf16, LineSplit::Lsp),
    (Encoding::Utf16, LineSplit::LfOnly),
    (Encoding::Scalar, LineSplit::Lsp),
    (Encoding::Utf8, LineSplit::Lsp),
    (Encoding::Utf8, LineSplit::LfOnly),
];

#[derive(Clone, Debug)]
struct Disc {
    /// clause + structural discriminator (becomes the signature)
    kind: String,
    detail: String,
}

/// Everything the implementation answers for one text (collected once, judged per convention).
struct Obs {
    line_count: usize,
    /// for every char boundary o: (o, get_line_col(o), back = get_offset(line,col), doc position, doc back)
    offsets: Vec<(usize, Option<(usize, usize)>, Option<usize>, Option<(u32, u32)>, Option<usize>)>,
    /// (line, ch, LineIndex::get_offset, LuaDocument::get_offset, get_col_offset_at_line)
    positions: Vec<(usize, usize, Option<usize>, Option<usize>, Option<usize>)>,
    /// ordered position pairs -> to_rowan_range outcome: Ok(Some((s,e))) / Ok(None) / Err(panic sig)
    ranges: Vec<((u32, u32), (u32, u32), Result<Option<(usize, usize)>, String>)>,
}

fn observe(text: &str, rng_seed: u64) -> Result<Obs, crate::util::PanicInfo> {
    guarded(|| {
        let li = LineIndex::parse(text);
        let path = PathBuf::from("/c22/doc.lua");
        let doc = LuaDocument::new(FileId::new(0), &path, text, &li);
        let mut offsets = Vec::new();
        for o in 0..=text.len() {
            if !text.is_char_boundary(o) {
                continue;
            }
            let lc = li.get_line_col(TextSize::from(o as u32), text);
            let back = lc.and_then(|(l, c)| li.get_offset(l, c, text)).map(usize::from);
            let dp = doc.to_lsp_position(TextSize::from(o as u32)).map(|p| (p.line, p.character));
            let dback = dp.and_then(|(l, c)| doc.get_offset(l as usize, c as usize)).map(usize::from);
            offsets.push((o, lc, back, dp, dback));
        }
        // grid bounds from the raw text only (independent of any convention): split on every terminator
        let nlines = text.split(|c| c == '\n' || c == '\r').count();
        let maxlen = text.split(|c| c == '\n' || c == '\r').map(|l| l.len()).max().unwrap_or(0);
        let mut positions = Vec::new();
        for l in 0..nlines + 3 {
            for c in 0..maxlen + 4 {
                let a = li.get_offset(l, c, text).map(usize::from);
                let b = doc.get_offset(l, c).map(usize::from);
                let r = li.get_col_offset_at_line(l, c, text).map(usize::from);
                positions.push((l, c, a, b, r));
            }
        }
        // a few ordered ranges (start <= end lexicographically) through to_rowan_range
        let mut rng = Rng::new(rng_seed);
        let mut ranges = Vec::new();
        for _ in 0..6 {
            let mut a = (rng.below(nlines + 1) as u32, rng.below(maxlen + 4) as u32);
            let mut b = (rng.below(nlines + 1) as u32, rng.below(maxlen + 4) as u32);
            if b < a {
                std::mem::swap(&mut a, &mut b);
            }
            let r = lsp_types::Range {
                start: lsp_types::Position { line: a.0, character: a.1 },
                end: lsp_types::Position { line: b.0, character: b.1 },
            };
            let res = guarded(|| doc.to_rowan_range(r).map(|t| (usize::from(t.start()), usize::from(t.end())))).map_err(|p| p.sig());
            ranges.push((a, b, res));
        }
        Obs { line_count: li.line_count(), offsets, positions, ranges }
    })
}

fn line_kind(m: &PosModel, line: u32) -> &'static str {
    match m.line_text(line) {
        Some(t) if t.is_ascii() => "ascii",
        Some(_) => "non-ascii",
        None => "none",
    }
}

/// All discrepancies between the observations and one convention.
fn judge(text: &str, obs: &Obs, m: &PosModel) -> Vec<Disc> {
    let mut d = Vec::new();
    if obs.line_count as u32 != m.line_count() {
        d.push(Disc { kind: "line-count".into(), detail: format!("line_count() = {} but the text has {} lines", obs.line_count, m.line_count()) });
    }
    // (A) offset -> position -> offset
    for (o, lc, back, dp, dback) in &obs.offsets {
        if !m.is_representable_offset(*o) {
            continue; // between \r and \n of a CRLF under LSP splitting: no position denotes it
        }
        let want = m.to_position(*o);
        match lc {
            None => d.push(Disc { kind: "roundtrip:offset-has-no-position".into(), detail: format!("get_line_col({o}) = None, expected {want:?}") }),
            Some((l, c)) => {
                if (*l as u32, *c as u32) != want {
                    let k = if !m.is_valid_position(*l as u32, *c as u32) { "position-out-of-bounds" } else { "roundtrip:position-differs" };
                    d.push(Disc { kind: format!("{k}:line={}", line_kind(m, want.0)), detail: format!("get_line_col({o}) = ({l}, {c}), expected {want:?}") });
                }
                if *back != Some(*o) {
                    d.push(Disc { kind: format!("roundtrip:offset-differs:line={}", line_kind(m, want.0)), detail: format!("get_offset(get_line_col({o}) = ({l}, {c})) = {back:?}") });
                }
            }
        }
        let lc32 = lc.map(|(l, c)| (l as u32, c as u32));
        if *dp != lc32 || (*dback != *back) {
            d.push(Disc { kind: "document-disagrees-with-line-index".into(), detail: format!("offset {o}: LuaDocument {dp:?}/{dback:?} vs LineIndex {lc32:?}/{back:?}") });
        }
    }
    // (B) + (C) position -> offset
    for (l, c, a, b, rel) in &obs.positions {
        let (l32, c32) = (*l as u32, *c as u32);
        if a != b {
            d.push(Disc { kind: "document-disagrees-with-line-index".into(), detail: format!("get_offset({l}, {c}): LuaDocument {b:?} vs LineIndex {a:?}") });
        }
        if l32 >= m.line_count() {
            if let Some(o) = a {
                d.push(Disc { kind: "missing-line-converts".into(), detail: format!("get_offset({l}, {c}) = Some({o}) but the text has {} lines", m.line_count()) });
            }
            continue;
        }
        let adm = m.to_offset_admissible(l32, c32, false);
        let start = m.line_start(l32).unwrap_or(0);
        let past_end = c32 > m.line_len_units(l32).unwrap_or(0);
        let cls = if past_end { "past-line-end" } else { "in-line" };
        match a {
            None => d.push(Disc { kind: format!("existing-line-converts-to-nothing:{cls}"), detail: format!("get_offset({l}, {c}) = None, admissible {adm:?}") }),
            Some(o) => {
                if !adm.contains(o) {
                    let lands = if *o > text.len() {
                        "beyond-document"
                    } else if !text.is_char_boundary(*o) {
                        "inside-character"
                    } else if *o > m.line_end_with_terminator(l32).unwrap_or(0) {
                        "later-line"
                    } else {
                        "same-line"
                    };
                    let _ = lands;
                    d.push(Disc { kind: format!("{cls}:line={}", line_kind(m, l32)), detail: format!("get_offset({l}, {c}) = {o} ({lands}); admissible {adm:?}; line {l} is {:?} at {start}..{}", m.line_text(l32).unwrap_or(""), m.line_end(l32).unwrap_or(0)) });
                }
            }
        }
        // relative variant must agree with the absolute one
        match (a, rel) {
            (Some(o), Some(r)) if *o >= start && o - start == *r => {}
            (None, None) => {}
            _ => {
                // only judged when the absolute answer was admissible (otherwise one root cause, one report)
                if a.map(|o| adm.contains(&o)).unwrap_or(false) {
                    d.push(Disc { kind: "col-offset-at-line-disagrees".into(), detail: format!("get_col_offset_at_line({l}, {c}) = {rel:?} but get_offset = {a:?} with line start {start}") });
                }
            }
        }
    }
    // (D) ordered ranges convert to ordered ranges without panicking
    for (a, b, res) in &obs.ranges {
        let both_exist = a.0 < m.line_count() && b.0 < m.line_count();
        match res {
            Err(p) => d.push(Disc { kind: "range-conversion-panics".into(), detail: format!("to_rowan_range({a:?}..{b:?}) panicked: {p}") }),
            Ok(None) if both_exist => d.push(Disc { kind: "range-conversion-nothing".into(), detail: format!("to_rowan_range({a:?}..{b:?}) = None although both lines exist") }),
            Ok(Some(_)) if !both_exist => d.push(Disc { kind: "missing-line-converts".into(), detail: format!("to_rowan_range({a:?}..{b:?}) = Some although a line does not exist") }),
            _ => {}
        }
    }
    d
}

/// Priority of clauses when one text shows several (the first one names the signature): the primary
/// clauses of the statement first, their consequences last.
fn priority(kind: &str) -> u32 {
    if kind.starts_with("roundtrip") {
        0
    } else if kind.starts_with("position-out-of-bounds") || kind.starts_with("line-count") {
        1
    } else if kind.starts_with("missing-line") {
        2
    } else if kind.starts_with("past-line-end") || kind.starts_with("in-line") || kind.starts_with("existing-line") {
        3
    } else if kind.starts_with("col-offset") || kind.starts_with("document-disagrees") {
        4
    } else {
        5
    }
}

enum Verdict {
    Held { convention: String, conversions: u64 },
    Bad { kind: String, detail: String, convention: String },
    Panic(crate::util::PanicInfo),
}

fn eval(text: &str) -> Verdict {
    let obs = match observe(text, fnv(text.as_bytes())) {
        Ok(o) => o,
        Err(p) => return Verdict::Panic(p),
    };
    let conversions = (obs.offsets.len() * 4 + obs.positions.len() * 3 + obs.ranges.len()) as u64;
    // The convention in use is identified by how offsets map to positions (clauses with priority <= 1);
    // the discrepancies reported are those under the convention that explains that mapping best.
    let mut best: Option<((usize, usize), Disc, String)> = None;
    for (e, s) in CONVENTIONS {
        let m = PosModel::new(text, e, s);
        let ds = judge(text, &obs, &m);
        if ds.is_empty() {
            return Verdict::Held { convention: m.name(), conversions };
        }
        let first = ds.iter().min_by_key(|d| priority(&d.kind)).unwrap().clone();
        let key = (ds.iter().filter(|d| priority(&d.kind) <= 1).count(), ds.len());
        if best.as_ref().map(|b| key < b.0).unwrap_or(true) {
            best = Some((key, first, m.name()));
        }
    }
    let (_, d, conv) = best.unwrap();
    Verdict::Bad { kind: d.kind, detail: d.detail, convention: conv }
}

const ASCII: &[&str] = &["a", "b", "x", "1", " ", "\t", "(", "=", "-", "\"", "_"];
const BMP: &[&str] = &["é", "ß", "名", "я", "\u{a0}", "e\u{301}", "\u{feff}", "\u{2028}", "€"];
const ASTRAL: &[&str] = &["😀", "𝔘", "🇩🇪", "𐍈", "\u{10ffff}"];

fn gen_text(rng: &mut Rng) -> Vec<String> {
    let mut parts = Vec::new();
    let nlines = match rng.below(10) {
        0 => 0,
        1 => 1,
        _ => rng.range(1, 12),
    };
    // per text: preferred terminator style and character mix
    let term_style = rng.below(5);
    let mix = rng.below(4); // 0 ascii only, 1 +bmp, 2 +astral, 3 everything
    for i in 0..nlines {
        let len = if rng.chance(1, 5) { 0 } else { rng.range(0, 10) };
        let line_ascii = mix == 0 || rng.chance(1, 3);
        for _ in 0..len {
            let s = if line_ascii {
                rng.pick(ASCII)
            } else {
                match (mix, rng.below(10)) {
                    (1, 0..=4) | (3, 0..=2) => rng.pick(BMP),
                    (2, 0..=4) | (3, 3..=5) => rng.pick(ASTRAL),
                    _ => rng.pick(ASCII),
                }
            };
            parts.push(s.to_string());
        }
        let last = i + 1 == nlines;
        if last && rng.bool() {
            break; // no trailing newline
        }
        let t = match term_style {
            0 => "\n",
            1 => "\r\n",
            2 => "\r",
            3 => rng.pick(&["\n", "\r\n"]),
            _ => rng.pick(&["\n", "\r\n", "\r", "\n\r", "\n\n"]),
        };
        parts.push(t.to_string());
    }
    parts
}

fn report(ctx: &mut Ctx, text: &str, family: &str) {
    match eval(text) {
        Verdict::Held { convention, conversions } => {
            ctx.clause("a:roundtrip");
            ctx.clause("b:missing-line");
            ctx.clause("c:clamp");
            ctx.clause(&format!("convention:{convention}"));
            ctx.extra_add("conversions", conversions);
            let lines = text.split('\n').count();
            ctx.held(fnv(text.as_bytes()), lines >= 2 && text.len() >= 4);
        }
        Verdict::Bad { kind: kind0, detail: detail0, convention: conv0 } => {
            ctx.clause("violating-text");
            ctx.fps.insert(fnv(text.as_bytes())); // conclusive (refuted) case
            let sig0 = format!("C22:{kind0}");
            // Shrinking keeps the clause (= the signature) by construction, so it is only worth doing for
            // the witnesses that are actually stored (MAX_VIOLATIONS_PER_SIG per shard).
            if ctx.sig_counts.get(&sig0).copied().unwrap_or(0) >= crate::report::MAX_VIOLATIONS_PER_SIG {
                ctx.violated(&sig0, &detail0, json!({"text": text}));
                return;
            }
            let chars: Vec<String> = text.chars().map(|c| c.to_string()).collect();
            let small = crate::util::ddmin(chars, |p| matches!(eval(&p.concat()), Verdict::Bad { kind, .. } if kind == kind0), 600);
            let st = small.concat();
            let (kind, detail, conv) = match eval(&st) {
                Verdict::Bad { kind, detail, convention } => (kind, detail, convention),
                _ => (kind0.clone(), detail0, conv0),
            };
            ctx.violated(&format!("C22:{kind}"), &format!("{detail}; text {:?}; closest convention {conv}", clip(&st, 120)), json!({"text": st, "family": family, "original": clip(text, 400)}));
        }
        Verdict::Panic(p) => {
            ctx.violated(&format!("C22:panic:{}", p.sig()), &format!("{} at {}", p.message, p.location), json!({"text": text, "family": family}));
        }
    }
}

pub fn run(ctx: &mut Ctx) {
    if let Some(rep) = ctx.replay.clone() {
        let text = rep["text"].as_str().unwrap_or("").to_string();
        match eval(&text) {
            Verdict::Held { convention, .. } => println!("replay: held (every conversion is explained by the {convention} convention)"),
            Verdict::Bad { kind, detail, convention } => println!("replay: VIOLATED {kind}: {detail} (closest convention {convention})"),
            Verdict::Panic(p) => println!("replay: PANIC {}", p.sig()),
        }
        // report without shrinking again (the witness is already minimal; shrinking is idempotent anyway)
        report(ctx, &text, "replay");
        return;
    }
    let n = ctx.budget(60_000, 600_000);
    const FIXED: &[&str] = &["", "\n", "a", "a\n", "a\nb", "\r\n", "a\r\nb", "a\rb", "é\nb", "😀\nb", "ab\n\ncd", "\n\n\n", "a\n😀", "x\r\n\r\ny"];
    for i in 0..n {
        super::c31::note_first_violation(ctx, i.saturating_sub(1));
        if ctx.out_of_time() {
            break;
        }
        let mut rng = Rng::new(ctx.case_seed(i));
        let (text, family) = if (i as usize) < FIXED.len() && ctx.shard == 0 {
            (FIXED[i as usize].to_string(), "fixed")
        } else {
            (gen_text(&mut rng).concat(), "generated")
        };
        if ctx.want_sample() && i % 1999 == 17 {
            ctx.sample(json!({"text": text, "family": family}));
        }
        report(ctx, &text, family);
    }
}
