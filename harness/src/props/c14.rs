//! C14 — rename and references agree with name resolution (SimServer E2 + G-scope programs).
//!
//! R(p) is computed from the implementation's OWN `find_decl` over all name tokens (this
//! property is about agreement; correctness of the resolution itself is C13).

use crate::gens::scope;
use crate::lspdrive::*;
use crate::props::c13::{Obs, observe};
use crate::report::{Ctx, clip};
use crate::rng::{Rng, fnv};
use serde_json::{Value, json};
use std::collections::{BTreeMap, BTreeSet};

fn off_to_pos(text: &str, off: usize) -> (u32, u32) {
    offset_to_pos(text, off)
}

fn pos_to_off(text: &str, line: u64, ch: u64) -> Option<usize> {
    // generated programs are ASCII with '\n' line ends
    let mut l = 0u64;
    let mut start = 0usize;
    for (i, b) in text.bytes().enumerate() {
        if l == line {
            break;
        }
        if b == b'\n' {
            l += 1;
            start = i + 1;
        }
    }
    if l != line {
        return None;
    }
    let end = text[start..].find('\n').map(|x| start + x).unwrap_or(text.len());
    let off = start + ch as usize;
    if off <= end { Some(off) } else { None }
}

fn range_offsets(text: &str, r: &Value) -> Option<(usize, usize)> {
    let s = pos_to_off(text, r["start"]["line"].as_u64()?, r["start"]["character"].as_u64()?)?;
    let e = pos_to_off(text, r["end"]["line"].as_u64()?, r["end"]["character"].as_u64()?)?;
    Some((s, e))
}

struct Finding {
    sig: String,
    detail: String,
}

struct DocOutcome {
    findings: Vec<Finding>,
    judged: u64,
    rename_null: u64,
    renames_applied: u64,
}

fn edits_of(we: &Value, uri: &str) -> Vec<Value> {
    let mut out = Vec::new();
    if let Some(ch) = we["changes"].as_object() {
        if let Some(a) = ch.get(uri).and_then(|x| x.as_array()) {
            out.extend(a.iter().cloned());
        }
    }
    if let Some(dc) = we["documentChanges"].as_array() {
        for d in dc {
            if d["textDocument"]["uri"].as_str() == Some(uri) {
                if let Some(a) = d["edits"].as_array() {
                    out.extend(a.iter().cloned());
                }
            }
        }
    }
    out
}

fn run_program(work: &str, text: &str, offsets: Vec<usize>, kinds: BTreeMap<usize, &'static str>, rng_seed: u64) -> Result<DocOutcome, String> {
    // the implementation's own resolution of every name token
    let obs = observe(text, &offsets)?;
    let mut resolves: BTreeMap<usize, usize> = BTreeMap::new(); // token offset -> decl offset
    for (o, ob) in offsets.iter().zip(obs.iter()) {
        if let Obs::Local(d) = ob {
            resolves.insert(*o, *d);
        }
    }
    let mut rng = Rng::new(rng_seed);
    let mut targets: Vec<usize> = resolves.keys().copied().collect();
    rng.shuffle(&mut targets);
    targets.truncate(14);
    let text_owned = text.to_string();
    let resolves2 = resolves.clone();
    let all_offsets = offsets.clone();
    let out = run_session(work, text, json!({}), async move |s: &mut DocSession| {
        let mut out = DocOutcome { findings: Vec::new(), judged: 0, rename_null: 0, renames_applied: 0 };
        let uri = s.uri.as_str().to_string();
        let td = s.td();
        for p in targets {
            let decl = resolves2[&p];
            let expected: BTreeSet<usize> = resolves2.iter().filter(|(_, d)| **d == decl).map(|(o, _)| *o).chain(std::iter::once(decl)).collect();
            let (l, c) = off_to_pos(&text_owned, p);
            let where_ = format!("{}:{}", kinds.get(&p).copied().unwrap_or("use"), kinds.get(&decl).copied().unwrap_or("decl"));
            // ---- references
            if let Some(r) = s.call("textDocument/references", json!({"textDocument": td, "position": pos(l, c), "context": {"includeDeclaration": true}})).await {
                if let Some(res) = r.result {
                    let mut got = BTreeSet::new();
                    let mut bad = false;
                    for loc in res.as_array().cloned().unwrap_or_default() {
                        if loc["uri"].as_str() != Some(uri.as_str()) {
                            continue;
                        }
                        match range_offsets(&text_owned, &loc["range"]) {
                            Some((a, _)) => {
                                got.insert(a);
                            }
                            None => bad = true,
                        }
                    }
                    out.judged += 1;
                    if bad {
                        out.findings.push(Finding { sig: format!("C14:references:range-outside-document:at={where_}"), detail: format!("{res}") });
                    } else if got != expected {
                        let kind = if got.is_subset(&expected) { "missing" } else if expected.is_subset(&got) { "extra" } else { "different" };
                        let decl_missing = !got.contains(&decl);
                        // `different` / `extra`: the answer contains tokens of ANOTHER symbol (the handler
                        // follows value aliases such as `local b = a`); the construct does not matter there
                        let at = if kind == "missing" { format!(":at={where_}") } else { String::new() };
                        out.findings.push(Finding {
                            sig: format!("C14:references-differ-from-resolution:{kind}{}{at}", if decl_missing { ":declaration-missing" } else { "" }),
                            detail: format!("position {l}:{c}: references {:?}, tokens resolving to the same declaration {:?}", got, expected),
                        });
                    }
                }
            }
            // ---- rename
            if let Some(r) = s.call("textDocument/rename", json!({"textDocument": td, "position": pos(l, c), "newName": "zz_fresh"})).await {
                match r.result {
                    Some(res) if !res.is_null() => {
                        let edits = edits_of(&res, &uri);
                        let mut got = BTreeSet::new();
                        let mut spans: Vec<(usize, usize)> = Vec::new();
                        let mut bad = false;
                        for e in &edits {
                            match range_offsets(&text_owned, &e["range"]) {
                                Some((a, b)) => {
                                    got.insert(a);
                                    spans.push((a, b));
                                }
                                None => bad = true,
                            }
                        }
                        out.judged += 1;
                        spans.sort();
                        let overlap = spans.windows(2).any(|w| w[1].0 < w[0].1);
                        if bad {
                            out.findings.push(Finding { sig: format!("C14:rename:edit-outside-document:at={where_}"), detail: format!("{res}") });
                        } else if overlap {
                            out.findings.push(Finding { sig: format!("C14:rename:overlapping-edits:at={where_}"), detail: format!("{:?}", spans) });
                        } else if got != expected {
                            let kind = if got.is_subset(&expected) { "missing" } else if expected.is_subset(&got) { "extra" } else { "different" };
                            out.findings.push(Finding {
                                sig: format!("C14:rename-edits-differ-from-resolution:{kind}:at={where_}"),
                                detail: format!("position {l}:{c}: rename edits at {:?}, tokens resolving to the same declaration {:?}", got, expected),
                            });
                        } else {
                            // apply the edits and compare the resolution graph before / after
                            let mut new_text = text_owned.clone();
                            for (a, b) in spans.iter().rev() {
                                new_text.replace_range(*a..*b, "zz_fresh");
                            }
                            // offsets of all name tokens shift: recompute them in order
                            let mut shift_points: Vec<(usize, isize)> = spans.iter().map(|(a, b)| (*a, 8isize - (*b as isize - *a as isize))).collect();
                            shift_points.sort();
                            let map_off = |o: usize| -> usize {
                                let d: isize = shift_points.iter().filter(|(a, _)| *a < o).map(|(_, d)| *d).sum();
                                (o as isize + d) as usize
                            };
                            let new_offsets: Vec<usize> = all_offsets.iter().map(|o| map_off(*o)).collect();
                            match observe(&new_text, &new_offsets) {
                                Ok(obs2) => {
                                    out.renames_applied += 1;
                                    for ((o_old, o_new), ob) in all_offsets.iter().zip(new_offsets.iter()).zip(obs2.iter()) {
                                        let before = resolves2.get(o_old).map(|d| map_off(*d));
                                        let after = if let Obs::Local(d) = ob { Some(*d) } else { None };
                                        if before != after {
                                            out.findings.push(Finding {
                                                sig: format!("C14:rename-changes-resolution-structure:at={where_}"),
                                                detail: format!("after renaming at {l}:{c} the name token at byte {o_new} resolves to {:?}, before to {:?}; new text {:?}", after, before, clip(&new_text, 300)),
                                            });
                                            break;
                                        }
                                    }
                                }
                                Err(e) => out.findings.push(Finding { sig: format!("C14:renamed-program-not-analysable:at={where_}"), detail: e }),
                            }
                        }
                    }
                    _ => out.rename_null += 1,
                }
            }
        }
        out
    });
    Ok(out)
}

fn gen_case(rng: &mut Rng) -> (String, Vec<usize>, BTreeMap<usize, &'static str>) {
    let size = rng.range(8, 30);
    let prog = scope::gen_program(rng, size);
    let printed = scope::print(&prog, scope::Mode::Normal, 0);
    let res = scope::resolve(&prog);
    let mut offsets: Vec<usize> = Vec::new();
    let mut kinds: BTreeMap<usize, &'static str> = BTreeMap::new();
    for (id, off) in &printed.decl_off {
        offsets.push(*off);
        kinds.insert(*off, res.decls.get(id).map(|d| d.kind.tag()).unwrap_or("decl"));
    }
    for (id, off) in &printed.use_off {
        offsets.push(*off);
        kinds.insert(*off, res.uses.get(id).map(|u| u.ctx).unwrap_or("use"));
    }
    offsets.sort();
    offsets.dedup();
    (printed.text, offsets, kinds)
}

pub fn run(ctx: &mut Ctx) {
    crate::util::private_home(&ctx.work.clone(), "c14");
    if let Some(rep) = ctx.replay.clone() {
        let text = rep["text"].as_str().unwrap_or("").to_string();
        let offsets: Vec<usize> = rep["offsets"].as_array().map(|a| a.iter().map(|x| x.as_u64().unwrap_or(0) as usize).collect()).unwrap_or_default();
        match run_program(&ctx.work.clone(), &text, offsets, BTreeMap::new(), rep["seed"].as_u64().unwrap_or(1)) {
            Ok(o) => {
                if o.findings.is_empty() {
                    ctx.held(1, true);
                }
                for f in o.findings {
                    println!("replay: {} — {}", f.sig, f.detail);
                    // replay has no construct names: report under the clause prefix
                    ctx.add_violation(&f.sig, &f.detail, rep.clone());
                }
            }
            Err(e) => println!("replay: not analysable: {e}"),
        }
        return;
    }
    let n = ctx.budget(120, 6000);
    for i in 0..n {
        if ctx.out_of_time() {
            break;
        }
        let seed = ctx.case_seed(i);
        let mut rng = Rng::new(seed);
        let (text, offsets, kinds) = gen_case(&mut rng);
        match run_program(&ctx.work.clone(), &text, offsets.clone(), kinds, seed) {
            Err(e) => ctx.inconclusive(&format!("not-analysable:{}", clip(&e, 30))),
            Ok(o) => {
                ctx.clause_n("rename+references-judged", o.judged);
                ctx.clause_n("renames-applied-and-reanalysed", o.renames_applied);
                ctx.clause_n("rename-returned-null", o.rename_null);
                if o.findings.is_empty() {
                    ctx.held(fnv(text.as_bytes()), o.judged >= 6);
                    if ctx.want_sample() && i % 11 == 4 {
                        ctx.sample(json!({"program": clip(&text, 400), "name_tokens": offsets.len(), "positions_judged": o.judged, "renames_applied": o.renames_applied}));
                    }
                } else {
                    let replay = json!({"text": text, "offsets": offsets, "seed": seed});
                    let mut first = true;
                    let mut seen = BTreeSet::new();
                    for f in o.findings {
                        // the replay cannot recover construct names: signature without the at= part is what is confirmed
                        if !seen.insert(f.sig.clone()) {
                            continue;
                        }
                        if first {
                            ctx.violated(&f.sig, &format!("{}; program {:?}", f.detail, clip(&text, 300)), replay.clone());
                            first = false;
                        } else {
                            ctx.add_violation(&f.sig, &f.detail, replay.clone());
                        }
                    }
                }
            }
        }
    }
}
