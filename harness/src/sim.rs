//! E2 — SimServer: the real LSP dispatch layer (`on_request_handler`, `on_notification_handler`,
//! `on_response_handler`, `initialized_handler`, `ServerContext`) over an in-memory connection,
//! on a current-thread tokio runtime with a paused clock. A scripted client records every
//! message with a virtual timestamp and answers server→client requests.

use emmylua_ls::verif_api::{
    ServerContext, ServerContextSnapshot, initialized_handler, on_notification_handler, on_request_handler, on_response_handler, server_capabilities,
};
use emmylua_ls::{CmdArgs, CmdBool, Communication, LogLevel, NoneableString};
use lsp_server::{Connection, Message, Notification, Request, RequestId, Response};
use lsp_types::{InitializeParams, ServerCapabilities, Uri};
use serde_json::{Value, json};
use std::collections::BTreeMap;
use std::future::Future;
use std::path::PathBuf;
use std::str::FromStr;
use std::time::Duration;

#[derive(Clone, Debug)]
pub struct SimOpts {
    /// workspace root on disk (created by the caller); None = root-less session
    pub root: Option<PathBuf>,
    /// client offers pull diagnostics (textDocument.diagnostic); false = push-diagnostics client
    pub pull_diagnostics: bool,
    /// client supports workspace/configuration requests
    pub config_request: bool,
    /// answer given to each workspace/configuration item
    pub config_answer: Value,
    pub load_std: bool,
    /// extra client capabilities merged over the defaults
    pub extra_caps: Value,
}

impl Default for SimOpts {
    fn default() -> Self {
        SimOpts { root: None, pull_diagnostics: false, config_request: false, config_answer: Value::Null, load_std: false, extra_caps: json!({}) }
    }
}

#[derive(Clone, Debug)]
pub enum Dir {
    ToServer,
    FromServer,
}

#[derive(Clone, Debug)]
pub struct Event {
    pub t_ms: u64,
    pub dir: Dir,
    pub msg: Message,
}

pub struct Sim {
    pub ctx: ServerContext,
    pub snapshot: ServerContextSnapshot,
    client: Connection,
    pub log: Vec<Event>,
    pub responses: BTreeMap<String, Vec<Response>>,
    pub requests_sent: Vec<(RequestId, String)>,
    pub published: Vec<(u64, String, Value)>,
    pub capabilities: ServerCapabilities,
    pub opts: SimOpts,
    next_id: i32,
    t0: tokio::time::Instant,
    pub server_requests: u64,
    pub handler_errors: Vec<String>,
    /// (virtual ms, method) of inline dispatches that did not return within DISPATCH_STALL_S virtual seconds
    pub stalled_dispatch: Vec<(u64, String)>,
}

/// virtual seconds after which an inline dispatch that has not returned is declared stalled
pub const DISPATCH_STALL_S: u64 = 900;

/// Run a future on a fresh current-thread runtime whose clock is paused: timers elapse in
/// virtual time as soon as every task is idle, so a run is a deterministic function of its script.
pub fn block_on<F: Future>(f: F) -> F::Output {
    let rt = tokio::runtime::Builder::new_current_thread().enable_all().start_paused(true).build().expect("runtime");
    let out = rt.block_on(f);
    // dropping the runtime cancels whatever the server left running (debounce tasks etc.)
    drop(rt);
    out
}

pub fn id_key(id: &RequestId) -> String {
    format!("{id}")
}

fn merge(a: &mut Value, b: &Value) {
    match (a, b) {
        (Value::Object(a), Value::Object(b)) => {
            for (k, v) in b {
                merge(a.entry(k.clone()).or_insert(Value::Null), v);
            }
        }
        (a, b) => *a = b.clone(),
    }
}

pub fn path_uri(p: &std::path::Path) -> Uri {
    emmylua_code_analysis::file_path_to_uri(&p.to_path_buf()).expect("uri")
}

impl Sim {
    pub async fn start(opts: SimOpts) -> Sim {
        let (server_conn, client_conn) = Connection::memory();
        let mut caps = json!({
            "workspace": {
                "configuration": opts.config_request,
                "didChangeWatchedFiles": {"dynamicRegistration": true, "relativePatternSupport": true},
                "workspaceFolders": true,
                "applyEdit": true,
                "workspaceEdit": {"documentChanges": true}
            },
            "textDocument": {
                "synchronization": {"didSave": true},
                "hover": {"contentFormat": ["markdown", "plaintext"]},
                "completion": {"completionItem": {"snippetSupport": true, "labelDetailsSupport": true}},
                "documentSymbol": {"hierarchicalDocumentSymbolSupport": true},
                "foldingRange": {"lineFoldingOnly": false},
                "semanticTokens": {"requests": {"full": true}, "tokenTypes": [], "tokenModifiers": [], "formats": ["relative"], "multilineTokenSupport": false},
                "publishDiagnostics": {"relatedInformation": true},
                "rename": {"prepareSupport": true},
                "codeAction": {"codeActionLiteralSupport": {"codeActionKind": {"valueSet": ["quickfix", "refactor"]}}},
                "inlayHint": {"dynamicRegistration": false},
                "callHierarchy": {"dynamicRegistration": false}
            },
            "window": {"workDoneProgress": false}
        });
        if opts.pull_diagnostics {
            merge(&mut caps, &json!({"textDocument": {"diagnostic": {"dynamicRegistration": false, "relatedDocumentSupport": false}}, "workspace": {"diagnostics": {"refreshSupport": true}}}));
        }
        merge(&mut caps, &opts.extra_caps);
        let mut params = json!({"processId": null, "capabilities": caps, "clientInfo": {"name": "verif-sim", "version": "1"}});
        if let Some(root) = &opts.root {
            let uri = path_uri(root);
            params["rootUri"] = json!(uri.as_str());
            params["workspaceFolders"] = json!([{"uri": uri.as_str(), "name": "ws"}]);
        }
        let params: InitializeParams = serde_json::from_value(params).expect("initialize params");
        let capabilities = server_capabilities(&params.capabilities);
        let ctx = ServerContext::new(
            Connection { sender: server_conn.sender.clone(), receiver: server_conn.receiver.clone() },
            params.capabilities.clone(),
        );
        let snapshot = ctx.snapshot();
        let mut sim = Sim {
            ctx,
            snapshot: snapshot.clone(),
            client: client_conn,
            log: Vec::new(),
            responses: BTreeMap::new(),
            requests_sent: Vec::new(),
            published: Vec::new(),
            capabilities,
            opts: opts.clone(),
            next_id: 1,
            t0: tokio::time::Instant::now(),
            server_requests: 0,
            handler_errors: Vec::new(),
            stalled_dispatch: Vec::new(),
        };
        let cmd_args = CmdArgs {
            communication: Communication::Stdio,
            ip: "127.0.0.1".into(),
            port: 0,
            log_level: LogLevel::Error,
            log_path: NoneableString(None),
            resources_path: NoneableString(None),
            load_stdlib: CmdBool(opts.load_std),
            editor: None,
        };
        // the real server runs initialization as a task while the main loop keeps serving responses
        let h = tokio::spawn(async move {
            initialized_handler(snapshot, params, cmd_args).await;
        });
        let mut guard = 0;
        while !h.is_finished() && guard < 100_000 {
            sim.pump().await;
            tokio::time::sleep(Duration::from_millis(5)).await;
            guard += 1;
        }
        let _ = h.await;
        sim.pump().await;
        // keep the server side of the channel alive for the lifetime of the sim
        std::mem::forget(server_conn);
        sim
    }

    pub fn now_ms(&self) -> u64 {
        self.t0.elapsed().as_millis() as u64
    }

    /// Let every runnable task run, collect what the server sent, answer its requests.
    pub async fn pump(&mut self) -> usize {
        let mut total = 0;
        let mut idle_rounds = 0;
        while idle_rounds < 3 {
            tokio::task::yield_now().await;
            let mut got = 0;
            while let Ok(msg) = self.client.receiver.try_recv() {
                got += 1;
                let t = self.now_ms();
                self.log.push(Event { t_ms: t, dir: Dir::FromServer, msg: msg.clone() });
                match msg {
                    Message::Response(r) => {
                        self.responses.entry(id_key(&r.id)).or_default().push(r);
                    }
                    Message::Notification(n) => {
                        if n.method == "textDocument/publishDiagnostics" {
                            let uri = n.params["uri"].as_str().unwrap_or("").to_string();
                            self.published.push((t, uri, n.params["diagnostics"].clone()));
                        }
                    }
                    Message::Request(req) => {
                        self.server_requests += 1;
                        let result = match req.method.as_str() {
                            "workspace/configuration" => {
                                let n = req.params["items"].as_array().map(|a| a.len()).unwrap_or(1);
                                Value::Array((0..n).map(|_| self.opts.config_answer.clone()).collect())
                            }
                            "workspace/applyEdit" => json!({"applied": false}),
                            _ => Value::Null,
                        };
                        let resp = Response { id: req.id.clone(), result: Some(result), error: None };
                        self.log.push(Event { t_ms: t, dir: Dir::ToServer, msg: Message::Response(resp.clone()) });
                        match tokio::time::timeout(Duration::from_secs(DISPATCH_STALL_S), on_response_handler(resp, &self.ctx)).await {
                            Ok(Ok(())) => {}
                            Ok(Err(e)) => self.handler_errors.push(format!("on_response_handler: {e}")),
                            Err(_) => self.stalled_dispatch.push((t, "response".to_string())),
                        }
                    }
                }
            }
            if got == 0 {
                idle_rounds += 1;
            } else {
                idle_rounds = 0;
                total += got;
            }
        }
        total
    }

    /// Deliver one client message through the real dispatch (what `handle_message` does).
    pub async fn deliver(&mut self, msg: Message) {
        let t = self.now_ms();
        self.log.push(Event { t_ms: t, dir: Dir::ToServer, msg: msg.clone() });
        // The real main loop awaits these handlers inline. If one never returns (it waits for a
        // lock that is never released), the server is dead: detect that in VIRTUAL time — with
        // every task blocked the paused clock jumps straight to this timeout.
        let what = match &msg {
            Message::Request(r) => r.method.clone(),
            Message::Notification(n) => n.method.clone(),
            Message::Response(_) => "response".to_string(),
        };
        if let Message::Request(req) = &msg {
            self.requests_sent.push((req.id.clone(), req.method.clone()));
        }
        let ctx = &mut self.ctx;
        let fut = async {
            match msg {
                Message::Request(req) => on_request_handler(req, ctx).await,
                Message::Notification(n) => on_notification_handler(n, ctx).await,
                Message::Response(r) => on_response_handler(r, ctx).await,
            }
        };
        match tokio::time::timeout(Duration::from_secs(DISPATCH_STALL_S), fut).await {
            Ok(Ok(())) => {}
            Ok(Err(e)) => self.handler_errors.push(format!("dispatch: {e}")),
            Err(_) => self.stalled_dispatch.push((t, what)),
        }
    }

    pub async fn notify(&mut self, method: &str, params: Value) {
        self.deliver(Message::Notification(Notification { method: method.to_string(), params })).await;
    }

    /// Send a request without waiting; returns its id.
    pub async fn request(&mut self, method: &str, params: Value) -> RequestId {
        let id: RequestId = self.next_id.into();
        self.next_id += 1;
        self.deliver(Message::Request(Request { id: id.clone(), method: method.to_string(), params })).await;
        id
    }

    /// Send a request and run the server until it is answered (or `max_virtual_ms` elapse).
    pub async fn call(&mut self, method: &str, params: Value, max_virtual_ms: u64) -> Option<Response> {
        let id = self.request(method, params).await;
        let key = id_key(&id);
        let deadline = self.now_ms() + max_virtual_ms;
        loop {
            self.pump().await;
            if let Some(r) = self.responses.get(&key).and_then(|v| v.first()) {
                return Some(r.clone());
            }
            if self.now_ms() >= deadline {
                return None;
            }
            tokio::time::sleep(Duration::from_millis(5)).await;
        }
    }

    pub async fn advance(&mut self, ms: u64) {
        let end = self.now_ms() + ms;
        while self.now_ms() < end {
            let step = (end - self.now_ms()).min(50);
            tokio::time::sleep(Duration::from_millis(step)).await;
            self.pump().await;
        }
    }

    /// Quiescence: no server message for `quiet_ms` of virtual time (bounded by `max_ms`).
    pub async fn settle(&mut self, quiet_ms: u64, max_ms: u64) -> bool {
        let start = self.now_ms();
        let mut last_activity = self.now_ms();
        loop {
            let n = self.pump().await;
            if n > 0 {
                last_activity = self.now_ms();
            }
            if self.now_ms() - last_activity >= quiet_ms {
                return true;
            }
            if self.now_ms() - start >= max_ms {
                return false;
            }
            tokio::time::sleep(Duration::from_millis(100)).await;
        }
    }

    // ---- document helpers -------------------------------------------------------------
    pub async fn did_open(&mut self, uri: &Uri, text: &str, version: i32) {
        self.notify("textDocument/didOpen", json!({"textDocument": {"uri": uri.as_str(), "languageId": "lua", "version": version, "text": text}})).await;
    }
    pub async fn did_change(&mut self, uri: &Uri, text: &str, version: i32) {
        self.notify("textDocument/didChange", json!({"textDocument": {"uri": uri.as_str(), "version": version}, "contentChanges": [{"text": text}]})).await;
    }
    pub async fn did_close(&mut self, uri: &Uri) {
        self.notify("textDocument/didClose", json!({"textDocument": {"uri": uri.as_str()}})).await;
    }

    // ---- probes (read-only, through the public snapshot accessors) -----------------------
    /// The text the analysis holds for `uri` (None = file unknown to the analysis).
    pub async fn analysis_text(&self, uri: &Uri) -> Option<String> {
        let analysis = self.snapshot.analysis().read().await;
        let id = analysis.get_file_id(uri)?;
        analysis.compilation.get_db().get_vfs().get_file_content(&id).cloned()
    }
    pub async fn is_open(&self, uri: &Uri) -> bool {
        self.snapshot.workspace_manager().read().await.is_open_file(uri)
    }

    /// Request ids that got != 1 responses (call after `settle`).
    pub fn response_anomalies(&self) -> Vec<(String, String, usize)> {
        let mut out = Vec::new();
        for (id, method) in &self.requests_sent {
            let n = self.responses.get(&id_key(id)).map(|v| v.len()).unwrap_or(0);
            if n != 1 {
                out.push((id_key(id), method.clone(), n));
            }
        }
        out
    }

    pub fn uri(s: &str) -> Uri {
        Uri::from_str(s).expect("uri")
    }
}
