//! `vcheck` without the mimalloc global allocator (mimalloc is uninstrumented C code): used for
//! ThreadSanitizer builds.
fn main() {
    vh::cli::main()
}
