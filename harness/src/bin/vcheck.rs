// same allocator as the shipped binaries (emmylua_ls, emmylua_check, luafmt)
#[global_allocator]
static GLOBAL: mimalloc::MiMalloc = mimalloc::MiMalloc;

fn main() {
    vh::cli::main()
}
