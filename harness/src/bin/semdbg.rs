use serde_json::json;
use vh::lspdrive::*;
fn main() {
    vh::util::private_home("/verif/target/work", "semdbg");
    let text = std::env::args().nth(1).unwrap().replace("\\n", "\n");
    let r = run_session("/verif/target/work", &text, json!({}), async move |s: &mut DocSession| {
        let td = s.td();
        s.call("textDocument/semanticTokens/full", json!({"textDocument": td})).await
    });
    let data = r.unwrap().result.unwrap()["data"].as_array().unwrap().clone();
    let (mut l, mut c) = (0u64, 0u64);
    for t in data.chunks(5) {
        let g = |k: usize| t[k].as_u64().unwrap();
        if g(0) == 0 { c += g(1) } else { l += g(0); c = g(1) }
        println!("{l}:{c} len {} type {} mods {}", g(2), g(3), g(4));
    }
}
