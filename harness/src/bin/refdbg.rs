use serde_json::json;
use vh::lspdrive::*;
fn main() {
    vh::util::private_home("/verif/target/work", "refdbg");
    let text = std::env::args().nth(1).unwrap().replace("\\n", "\n");
    let l: u32 = std::env::args().nth(2).unwrap().parse().unwrap();
    let c: u32 = std::env::args().nth(3).unwrap().parse().unwrap();
    let r = run_session("/verif/target/work", &text, json!({}), async move |s: &mut DocSession| {
        let td = s.td();
        let a = s.call("textDocument/references", json!({"textDocument": td, "position": pos(l, c), "context": {"includeDeclaration": true}})).await;
        let b = s.call("textDocument/rename", json!({"textDocument": td, "position": pos(l, c), "newName": "zz"})).await;
        let d = s.call("textDocument/definition", json!({"textDocument": td, "position": pos(l, c)})).await;
        (a, b, d)
    });
    println!("references: {}", r.0.unwrap().result.unwrap());
    println!("rename: {}", r.1.unwrap().result.unwrap());
    println!("definition: {}", r.2.unwrap().result.unwrap());
}
