//! Tiny helper for C02's instruction-count scaling clause: parses one width-family input once.
//! Kept separate from vcheck so that valgrind starts quickly (small binary).
fn main() {
    let a: Vec<String> = std::env::args().collect();
    let fam: usize = a.get(1).and_then(|s| s.parse().ok()).unwrap_or(0);
    let n: usize = a.get(2).and_then(|s| s.parse().ok()).unwrap_or(0);
    let text = vh::props::c02::width_text(fam, n);
    let tree = vh::props::c01::parse_with(&text, 7, true, None);
    std::hint::black_box(&tree);
}
