use serde_json::json;
use vh::sim::*;
fn main() {
    vh::util::private_home("/verif/target/work", "simdbg");
    let root = std::path::PathBuf::from("/verif/target/work/simdbg-ws");
    let _ = std::fs::create_dir_all(&root);
    std::fs::write(root.join("a.lua"), "local x = 1\nprint(y)\n").unwrap();
    let t0 = std::time::Instant::now();
    let seed: u64 = std::env::args().nth(1).and_then(|s| s.parse().ok()).unwrap_or(0);
    emmylua_ls::verif_api::sync::install(seed);
    block_on(async {
        let mut sim = Sim::start(SimOpts { root: Some(root.clone()), ..Default::default() }).await;
        println!("started at virtual {} ms, {} events", sim.now_ms(), sim.log.len());
        let uri = path_uri(&root.join("a.lua"));
        sim.did_open(&uri, "local v1 = 1\n", 1).await;
        sim.did_change(&uri, "local v2 = undefined_g\n", 2).await;
        let r = sim.call("textDocument/hover", json!({"textDocument": {"uri": uri.as_str()}, "position": {"line": 0, "character": 7}}), 5000).await;
        println!("hover: {:?}", r.map(|r| r.result));
        let r = sim.call("textDocument/hover", json!({"textDocument": 5}), 5000).await;
        println!("bad hover: {:?}", r.map(|r| r.error));
        let ok = sim.settle(120_000, 3_600_000).await;
        println!("settled={ok} virtual {} ms; text={:?} open={} published={:?}", sim.now_ms(), sim.analysis_text(&uri).await, sim.is_open(&uri).await, sim.published);
        println!("anomalies {:?}", sim.response_anomalies());
    });
    let ev = emmylua_ls::verif_api::sync::take();
    println!("{} lock events", ev.len());
    for e in ev.iter().take(40) { println!("{:?}", e); }
    println!("real time {:?}; panics {:?}", t0.elapsed(), vh::util::take_global_panics().len());
}
