use emmylua_parser::*;
fn main() {
    let args: Vec<String> = std::env::args().collect();
    let text = args[1].replace("\\n", "\n").replace("\\0", "\0");
    let tree = LuaParser::parse(&text, ParserConfig::default());
    println!("{:#?}", tree.get_red_root());
    println!("errors: {:?}", tree.get_errors());
}
