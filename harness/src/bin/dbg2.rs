use vh::props::c02::*;
fn main() {
    let fam: usize = std::env::args().nth(1).unwrap().parse().unwrap();
    for n in [500usize, 1000, 2000, 4000, 8000, 16000, 32000] {
        let text = width_text(fam, n);
        let t0 = vh::util::thread_cpu();
        let tree = vh::props::c01::parse_with(&text, 7, true, None);
        let t1 = vh::util::thread_cpu();
        drop(tree);
        let t2 = vh::util::thread_cpu();
        println!("{} n={} bytes={} parse={:.4}s drop={:.4}s", WIDTH[fam].0, n, text.len(), t1 - t0, t2 - t1);
    }
}
