//! Observable dump of an `EmmyLuaAnalysis` (DESIGN.md §3, shared oracle of C08–C11 and C38).
//!
//! `observe(&EmmyLuaAnalysis) -> serde_json::Value` is a *pure, read-only* function of the
//! analysis: it builds its own `SemanticModel`s and its own `LuaDiagnostic` (all codes
//! enabled, otherwise the analysis' configuration), holds no global state and can be called
//! from several threads at once. Everything is keyed by *path* and positions, never by
//! `FileId` (ids differ between two analyses of the same files).
//!
//! Layout of the dump:
//! ```text
//! { "files":   { <path>: observe_file(..) },
//!   "globals": { <name>: [ "<path>@<range> : <type> | doc" … sorted ] },
//!   "types":   { <full name>: { kind, flags, locations[sorted], supers[sorted], generics,
//!                               alias, doc, members[sorted "key: type @loc | doc"] } },
//!   "gmembers":{ <global path>: [ members … sorted ] },
//!   "modules": { "files": {<path>: {name, workspace, visibility, meta, export}},
//!                "find":  {<module string>: <path>|null} } }
//! ```
//! `observe_file` = `{ "diag": [...sorted], "tokens": [...in text order], "decls": [...] }`.
//!
//! Index-level sections (globals/types/members/modules) are rendered as *sets* (sorted); the
//! order in which the analysis happens to hold them is only visible through its effect on
//! query results (token types, diagnostics). Member listings inside rendered types are sorted
//! (C11 compares "modulo the listing order of members in rendered types").

use emmylua_code_analysis::{
    DbIndex, DiagnosticCode, EmmyLuaAnalysis, Emmyrc, FileId, LuaCommonProperty, LuaDiagnostic, LuaMember, LuaMemberOwner, LuaSemanticDeclId, LuaType,
    LuaTypeCache, LuaTypeDecl, LuaTypeIdentifier, RenderLevel, SemanticModel, humanize_type,
};
use emmylua_parser::{LuaSyntaxNode, LuaTokenKind};
use rowan::{NodeOrToken, TextRange};
use serde_json::{Map, Value, json};
use std::collections::{BTreeMap, BTreeSet};
use std::sync::Arc;
use tokio_util::sync::CancellationToken;

// ───────────────────────── small helpers ─────────────────────────

fn rng_s(r: TextRange) -> String {
    format!("{}..{}", u32::from(r.start()), u32::from(r.end()))
}

/// Path of a file id ("<gone:…>" never contains the numeric id: a dangling id renders as a
/// constant so that it is visible but comparable).
pub fn path_of(db: &DbIndex, fid: FileId) -> String {
    match db.get_vfs().get_file_path(&fid) {
        Some(p) => p.to_string_lossy().to_string(),
        None => "<no-path>".to_string(),
    }
}

fn loc(db: &DbIndex, fid: FileId, r: TextRange) -> String {
    format!("{}@{}", path_of(db, fid), rng_s(r))
}

/// Sorts the items of every `{ … }` listing inside a rendered type (and leaves everything
/// else untouched). Falls back to the input when brackets do not balance.
pub fn canon_type(s: &str) -> String {
    if !s.contains('{') {
        return s.to_string();
    }
    let chars: Vec<char> = s.chars().collect();
    let mut pos = 0usize;
    match canon_seq(&chars, &mut pos, None) {
        Some(out) if pos == chars.len() => out,
        _ => s.to_string(),
    }
}

/// Parses up to (not including) `close` at nesting level 0; returns the canonical text.
fn canon_seq(c: &[char], pos: &mut usize, close: Option<char>) -> Option<String> {
    let mut out = String::new();
    while *pos < c.len() {
        let ch = c[*pos];
        if Some(ch) == close {
            return Some(out);
        }
        match ch {
            '"' | '\'' => {
                out.push(ch);
                *pos += 1;
                while *pos < c.len() && c[*pos] != ch {
                    if c[*pos] == '\\' && *pos + 1 < c.len() {
                        out.push(c[*pos]);
                        *pos += 1;
                    }
                    out.push(c[*pos]);
                    *pos += 1;
                }
                if *pos < c.len() {
                    out.push(ch);
                    *pos += 1;
                }
            }
            '{' => {
                *pos += 1;
                let items = canon_items(c, pos)?;
                if *pos >= c.len() || c[*pos] != '}' {
                    return None;
                }
                *pos += 1;
                out.push_str("{ ");
                out.push_str(&items.join(", "));
                out.push_str(" }");
            }
            '(' | '[' => {
                let cl = if ch == '(' { ')' } else { ']' };
                out.push(ch);
                *pos += 1;
                let inner = canon_seq(c, pos, Some(cl))?;
                if *pos >= c.len() {
                    return None;
                }
                out.push_str(&inner);
                out.push(cl);
                *pos += 1;
            }
            '}' | ')' | ']' => return None,
            _ => {
                out.push(ch);
                *pos += 1;
            }
        }
    }
    if close.is_some() { None } else { Some(out) }
}

/// Items of a `{}` listing (split at top-level commas; `<…>` argument lists are kept whole).
fn canon_items(c: &[char], pos: &mut usize) -> Option<Vec<String>> {
    let mut items = Vec::new();
    let mut cur = String::new();
    let mut angle = 0i32;
    while *pos < c.len() {
        let ch = c[*pos];
        match ch {
            '}' => break,
            ',' if angle == 0 => {
                items.push(std::mem::take(&mut cur));
                *pos += 1;
            }
            '<' => {
                angle += 1;
                cur.push(ch);
                *pos += 1;
            }
            '>' => {
                if angle > 0 {
                    angle -= 1;
                }
                cur.push(ch);
                *pos += 1;
            }
            '{' | '(' | '[' | '"' | '\'' => {
                // delegate one balanced group to canon_seq by parsing exactly one element
                let start = *pos;
                let mut sub = String::new();
                let one = canon_one(c, pos, &mut sub)?;
                if !one || *pos == start {
                    return None;
                }
                cur.push_str(&sub);
            }
            _ => {
                cur.push(ch);
                *pos += 1;
            }
        }
    }
    items.push(cur);
    let mut v: Vec<String> = items.into_iter().map(|s| s.split_whitespace().collect::<Vec<_>>().join(" ")).filter(|s| !s.is_empty()).collect();
    v.sort();
    Some(v)
}

fn canon_one(c: &[char], pos: &mut usize, out: &mut String) -> Option<bool> {
    let ch = c[*pos];
    match ch {
        '{' => {
            *pos += 1;
            let items = canon_items(c, pos)?;
            if *pos >= c.len() || c[*pos] != '}' {
                return None;
            }
            *pos += 1;
            out.push_str("{ ");
            out.push_str(&items.join(", "));
            out.push_str(" }");
            Some(true)
        }
        '(' | '[' => {
            let cl = if ch == '(' { ')' } else { ']' };
            out.push(ch);
            *pos += 1;
            let inner = canon_seq(c, pos, Some(cl))?;
            if *pos >= c.len() {
                return None;
            }
            out.push_str(&inner);
            out.push(cl);
            *pos += 1;
            Some(true)
        }
        '"' | '\'' => {
            out.push(ch);
            *pos += 1;
            while *pos < c.len() && c[*pos] != ch {
                if c[*pos] == '\\' && *pos + 1 < c.len() {
                    out.push(c[*pos]);
                    *pos += 1;
                }
                out.push(c[*pos]);
                *pos += 1;
            }
            if *pos < c.len() {
                out.push(ch);
                *pos += 1;
            }
            Some(true)
        }
        _ => Some(false),
    }
}

pub fn render_type(db: &DbIndex, t: &LuaType) -> String {
    canon_type(&humanize_type(db, t, RenderLevel::Detailed))
}

fn render_cache(db: &DbIndex, c: Option<&LuaTypeCache>) -> String {
    match c {
        None => "<none>".into(),
        Some(LuaTypeCache::DocType(t)) => format!("doc:{}", render_type(db, t)),
        Some(LuaTypeCache::InferType(t)) => format!("infer:{}", render_type(db, t)),
    }
}

fn render_prop(p: Option<&LuaCommonProperty>) -> String {
    let Some(p) = p else { return String::new() };
    let mut s = String::new();
    if let Some(d) = p.description() {
        // an empty description is shown exactly like no description
        if !d.trim().is_empty() {
            s.push_str(&format!("desc={d:?}"));
        }
    }
    if let Some(d) = p.deprecated() {
        s.push_str(&format!(" deprecated={d:?}"));
    }
    let vis = format!("{:?}", p.visibility);
    if vis != "Public" {
        s.push_str(&format!(" vis={vis}"));
    }
    if let Some(t) = p.tag_content() {
        s.push_str(&format!(" tags={:?}", t.get_all_tags()));
    }
    if let Some(src) = p.source() {
        s.push_str(&format!(" source={src:?}"));
    }
    if let Some(v) = p.version_conds() {
        s.push_str(&format!(" version={v:?}"));
    }
    if let Some(a) = p.attribute_uses() {
        s.push_str(&format!(" attrs={}", a.len()));
    }
    s
}

fn type_name(db: &DbIndex, d: &LuaTypeDecl) -> String {
    let id = d.get_id();
    match id.get_id() {
        LuaTypeIdentifier::Global(n) => n.to_string(),
        LuaTypeIdentifier::Internal(ws, n) => format!("{n}#internal({ws})"),
        LuaTypeIdentifier::File(f, n) => format!("{n}#file({})", path_of(db, *f)),
    }
}

pub fn render_decl(db: &DbIndex, d: &LuaSemanticDeclId) -> String {
    match d {
        LuaSemanticDeclId::LuaDecl(id) => match db.get_decl_index().get_decl(id) {
            Some(decl) => format!("decl:{}:{}", decl.get_name(), loc(db, id.file_id, decl.get_range())),
            None => format!("decl:<dangling>:{}@{}", path_of(db, id.file_id), u32::from(id.position)),
        },
        LuaSemanticDeclId::Member(id) => match db.get_member_index().get_member(id) {
            Some(m) => format!("member:{}:{}", m.get_key().to_path(), loc(db, id.file_id, m.get_range())),
            None => format!("member:<dangling>:{}", loc(db, id.file_id, id.get_syntax_id().get_range())),
        },
        LuaSemanticDeclId::TypeDecl(id) => match db.get_type_index().get_type_decl(id) {
            Some(t) => format!("type:{}", type_name(db, t)),
            None => format!("type:<dangling>:{}", id.get_name()),
        },
        LuaSemanticDeclId::Signature(id) => format!("sig:{}@{}", path_of(db, id.get_file_id()), u32::from(id.get_position())),
    }
}

fn render_member(db: &DbIndex, m: &LuaMember) -> String {
    let id = m.get_id();
    let ty = render_cache(db, db.get_type_index().get_type_cache(&id.into()));
    let prop = render_prop(db.get_property_index().get_property(&LuaSemanticDeclId::Member(id)));
    format!("{}: {} @{} |{}", m.get_key().to_path(), ty, loc(db, m.get_file_id(), m.get_range()), prop)
}

fn members_of(db: &DbIndex, owner: &LuaMemberOwner) -> Vec<String> {
    let mut v: Vec<String> = db.get_member_index().get_members(owner).unwrap_or_default().into_iter().map(|m| render_member(db, m)).collect();
    v.sort();
    v
}

/// The analysis' own configuration with every diagnostic code enabled.
fn all_codes_config(a: &EmmyLuaAnalysis) -> Arc<Emmyrc> {
    let mut rc: Emmyrc = (*a.emmyrc).clone();
    rc.diagnostics.enable = true;
    rc.diagnostics.disable.clear();
    rc.diagnostics.enables = DiagnosticCode::all();
    Arc::new(rc)
}

fn all_codes_diagnostic(a: &EmmyLuaAnalysis) -> LuaDiagnostic {
    let mut d = LuaDiagnostic::new();
    d.update_config(all_codes_config(a));
    d
}

// ───────────────────────── per file ─────────────────────────

/// Dump of one file: diagnostics (all codes enabled), per-token semantic info, declarations
/// with their references and documentation.
pub fn observe_file(a: &EmmyLuaAnalysis, fid: FileId) -> Value {
    let diag = all_codes_diagnostic(a);
    observe_file_with(a, fid, &diag)
}

fn observe_file_with(a: &EmmyLuaAnalysis, fid: FileId, diag: &LuaDiagnostic) -> Value {
    let db = a.compilation.get_db();
    let mut out = Map::new();

    // diagnostics
    let mut ds: Vec<String> = Vec::new();
    match diag.diagnose_file(&a.compilation, fid, CancellationToken::new()) {
        Some(list) => {
            for d in list {
                let code = match &d.code {
                    Some(lsp_types::NumberOrString::String(s)) => s.clone(),
                    Some(lsp_types::NumberOrString::Number(n)) => n.to_string(),
                    None => "-".into(),
                };
                let mut rel = String::new();
                if let Some(ri) = &d.related_information {
                    for r in ri {
                        rel.push_str(&format!(" rel={}@{}:{}-{}:{} {:?}", r.location.uri.as_str(), r.location.range.start.line, r.location.range.start.character, r.location.range.end.line, r.location.range.end.character, r.message));
                    }
                }
                let data = d.data.as_ref().map(|v| format!(" data={v}")).unwrap_or_default();
                ds.push(format!(
                    "{}:{}-{}:{} {} sev={:?} tags={:?} {:?}{}{}",
                    d.range.start.line,
                    d.range.start.character,
                    d.range.end.line,
                    d.range.end.character,
                    code,
                    d.severity,
                    d.tags,
                    canon_type(&d.message),
                    rel,
                    data
                ));
            }
            ds.sort();
            out.insert("diag".into(), json!(ds));
        }
        None => {
            out.insert("diag".into(), Value::Null);
        }
    }

    // tokens
    let mut tokens: Vec<Value> = Vec::new();
    if let Some(sm) = a.compilation.get_semantic_model(fid) {
        tokens = observe_tokens(db, &sm);
    }
    out.insert("tokens".into(), Value::Array(tokens));

    // declarations, their references and documentation
    let mut decls: Vec<String> = Vec::new();
    if let Some(tree) = db.get_decl_index().get_decl_tree(&fid) {
        for (id, decl) in tree.get_decls() {
            let ty = render_cache(db, db.get_type_index().get_type_cache(&(*id).into()));
            let prop = render_prop(db.get_property_index().get_property(&LuaSemanticDeclId::LuaDecl(*id)));
            let mut refs: Vec<String> = Vec::new();
            if let Some(r) = db.get_reference_index().get_decl_references(&fid, id) {
                for c in &r.cells {
                    refs.push(format!("{}{}", rng_s(c.range), if c.is_write { "w" } else { "" }));
                }
            }
            if decl.is_global() {
                if let Some(gr) = db.get_reference_index().get_global_references(decl.get_name()) {
                    for r in gr {
                        refs.push(format!("g:{}", loc(db, r.file_id, r.value.get_range())));
                    }
                }
            }
            refs.sort();
            let kind = if decl.is_global() {
                "global"
            } else if decl.is_param() {
                "param"
            } else if decl.is_implicit_self() {
                "self"
            } else {
                "local"
            };
            decls.push(format!("{}@{} {} {}: {} |{} refs={:?}", u32::from(decl.get_position()), rng_s(decl.get_range()), kind, decl.get_name(), ty, prop, refs));
        }
    }
    decls.sort();
    out.insert("decls".into(), json!(decls));
    Value::Object(out)
}

fn observe_tokens(db: &DbIndex, sm: &SemanticModel) -> Vec<Value> {
    let root: LuaSyntaxNode = {
        use emmylua_parser::LuaAstNode;
        sm.get_root().syntax().clone()
    };
    let mut out = Vec::new();
    for el in root.descendants_with_tokens() {
        let NodeOrToken::Token(t) = el else { continue };
        let kind: LuaTokenKind = t.kind().into();
        if !matches!(kind, LuaTokenKind::TkName | LuaTokenKind::TkString) {
            continue;
        }
        let r = t.text_range();
        let info = sm.get_semantic_info(NodeOrToken::Token(t.clone()));
        let (ty, decl) = match &info {
            Some(i) => (render_type(db, &i.typ), i.semantic_decl.as_ref().map(|d| render_decl(db, d))),
            None => ("<none>".to_string(), None),
        };
        out.push(json!([rng_s(r), t.text(), ty, decl]));
    }
    out
}

// ───────────────────────── whole analysis ─────────────────────────

/// All live file ids in id (= registration) order.
pub fn file_ids(a: &EmmyLuaAnalysis) -> Vec<FileId> {
    a.compilation.get_db().get_vfs().get_all_file_ids()
}

pub fn observe(a: &EmmyLuaAnalysis) -> Value {
    let db = a.compilation.get_db();
    let diag = all_codes_diagnostic(a);
    let ids = file_ids(a);

    let mut files = Map::new();
    let mut strings: BTreeSet<String> = BTreeSet::new();
    for fid in &ids {
        let Some(p) = db.get_vfs().get_file_path(fid) else { continue };
        let v = observe_file_with(a, *fid, &diag);
        // candidate module strings: every short string literal of the workspace
        if let Some(toks) = v.get("tokens").and_then(|t| t.as_array()) {
            for t in toks {
                if let Some(txt) = t.get(1).and_then(|x| x.as_str()) {
                    if txt.len() >= 3 && txt.len() <= 60 && (txt.starts_with('"') || txt.starts_with('\'')) {
                        let inner = &txt[1..txt.len() - 1];
                        if !inner.is_empty() && inner.chars().all(|c| c.is_ascii_alphanumeric() || "._/-".contains(c)) {
                            strings.insert(inner.to_string());
                        }
                    }
                }
            }
        }
        files.insert(p.to_string_lossy().to_string(), v);
    }

    // globals
    let mut globals: BTreeMap<String, Vec<String>> = BTreeMap::new();
    for id in db.get_global_index().get_all_global_decl_ids() {
        let (name, r) = match db.get_decl_index().get_decl(&id) {
            Some(d) => (d.get_name().to_string(), rng_s(d.get_range())),
            None => ("<dangling>".to_string(), format!("{}", u32::from(id.position))),
        };
        let ty = render_cache(db, db.get_type_index().get_type_cache(&id.into()));
        let prop = render_prop(db.get_property_index().get_property(&LuaSemanticDeclId::LuaDecl(id)));
        globals.entry(name).or_default().push(format!("{}@{} : {} |{}", path_of(db, id.file_id), r, ty, prop));
    }
    for v in globals.values_mut() {
        v.sort();
    }

    // types
    let mut types = Map::new();
    let mut gpaths: BTreeSet<String> = BTreeSet::new();
    for d in db.get_type_index().get_all_types() {
        let id = d.get_id();
        let mut locs: Vec<String> = d.get_locations().iter().map(|l| format!("{} flags={:?}", loc(db, l.file_id, l.range), l.flag)).collect();
        locs.sort();
        let mut supers: Vec<String> = db.get_type_index().get_super_types_raw(&id).unwrap_or_default().iter().map(|t| canon_type(&humanize_type(db, t, RenderLevel::Simple))).collect(); // the relation only: the members of a super type are dumped under that type
        supers.sort();
        let generics: Vec<String> = db
            .get_type_index()
            .get_generic_params(&id)
            .map(|g| g.iter().map(|p| format!("{}{}", p.name, p.constraint.as_ref().map(|c| format!(" extends {}", render_type(db, c))).unwrap_or_default())).collect())
            .unwrap_or_default();
        let kind = if d.is_class() {
            "class"
        } else if d.is_enum() {
            "enum"
        } else {
            "alias"
        };
        let alias = d.get_alias_ref().map(|t| render_type(db, t));
        let doc = render_prop(db.get_property_index().get_property(&LuaSemanticDeclId::TypeDecl(id.clone())));
        let members = members_of(db, &LuaMemberOwner::Type(id.clone()));
        types.insert(
            type_name(db, d),
            json!({"kind": kind, "locations": locs, "supers": supers, "generics": generics, "alias": alias, "doc": doc, "members": members}),
        );
    }

    // members of global tables (owner = global path): every global name and one level below
    let mut gmembers = Map::new();
    for name in globals.keys() {
        gpaths.insert(name.clone());
    }
    let mut frontier: Vec<String> = gpaths.iter().cloned().collect();
    for _ in 0..2 {
        let mut next = Vec::new();
        for p in &frontier {
            let owner = LuaMemberOwner::GlobalPath(emmylua_code_analysis::GlobalId::new(p));
            let Some(ms) = db.get_member_index().get_members(&owner) else { continue };
            let mut v = Vec::new();
            for m in ms {
                v.push(render_member(db, m));
                if let Some(n) = m.get_key().get_name() {
                    next.push(format!("{p}.{n}"));
                }
            }
            v.sort();
            gmembers.insert(p.clone(), json!(v));
        }
        next.sort();
        next.dedup();
        frontier = next;
    }

    // modules
    let mut mfiles = Map::new();
    for fid in &ids {
        let Some(p) = db.get_vfs().get_file_path(fid) else { continue };
        let v = match db.get_module_index().get_module(*fid) {
            Some(m) => {
                strings.insert(m.full_module_name.clone());
                strings.insert(m.name.clone());
                json!({
                    "name": m.full_module_name,
                    "workspace": format!("{}", m.workspace_id),
                    "visible": format!("{:?}", m.visible),
                    "meta": m.is_meta,
                    "export": m.export_type.as_ref().map(|t| render_type(db, t)),
                    "semantic": m.semantic_id.as_ref().map(|d| render_decl(db, d)),
                    "version": m.version_conds.as_ref().map(|v| format!("{v:?}")),
                })
            }
            None => Value::Null,
        };
        mfiles.insert(p.to_string_lossy().to_string(), v);
    }
    let mut find = Map::new();
    for s in &strings {
        let r = db.get_module_index().find_module(s).map(|m| path_of(db, m.file_id));
        find.insert(s.clone(), json!(r));
    }
    // module infos that exist for files the vfs no longer has (must not happen)
    let mut orphan: Vec<String> = Vec::new();
    for m in db.get_module_index().get_module_infos() {
        if db.get_vfs().get_file_content(&m.file_id).is_none() {
            orphan.push(m.full_module_name.clone());
        }
    }
    orphan.sort();

    json!({
        "files": files,
        "globals": globals,
        "types": types,
        "gmembers": gmembers,
        "modules": {"files": mfiles, "find": find, "orphan": orphan},
    })
}

/// Per-index structural sizes (hook H1, `DbIndex::verif_census`).
pub fn census(a: &EmmyLuaAnalysis) -> BTreeMap<String, usize> {
    a.compilation.get_db().verif_census().into_iter().map(|(k, v)| (k.to_string(), v)).collect()
}

/// FNV-1a of the canonical JSON text (keys sorted).
pub fn dump_hash(v: &Value) -> u64 {
    crate::rng::fnv(canon_string(v).as_bytes())
}

// ───────────────────────── diffing ─────────────────────────

#[derive(Clone, Debug)]
pub struct Diff {
    /// structural section, e.g. `files.tokens.type`, `types.doc`, `globals`, `modules.find`
    pub section: String,
    /// full JSON path of the differing leaf (contains names/paths: for details, not signatures)
    pub path: String,
    /// the same path as components
    pub comps: Vec<String>,
    pub left: String,
    pub right: String,
}

/// Structural diff of two dumps: one entry per differing leaf (capped).
pub fn diff(a: &Value, b: &Value) -> Vec<Diff> {
    let mut out = Vec::new();
    diff_rec(a, b, &mut Vec::new(), &mut out);
    out
}

fn section_of(path: &[String]) -> String {
    // drop map keys that are names/paths: keep the schema part only
    match path.first().map(|s| s.as_str()) {
        Some("files") => {
            let sec = path.get(2).map(|s| s.as_str()).unwrap_or("file");
            if sec == "tokens" {
                match path.get(4).map(|s| s.as_str()) {
                    Some("2") => "files.tokens.type".into(),
                    Some("3") => "files.tokens.decl".into(),
                    Some(_) => "files.tokens.text".into(),
                    None => "files.tokens".into(),
                }
            } else {
                format!("files.{sec}")
            }
        }
        Some("types") => match path.get(2) {
            Some(k) => format!("types.{k}"),
            None => "types".into(),
        },
        Some("modules") => match path.get(1) {
            Some(k) => format!("modules.{k}"),
            None => "modules".into(),
        },
        Some(s) => s.to_string(),
        None => "root".into(),
    }
}

fn short(v: &Value) -> String {
    let s = v.to_string();
    crate::report::clip(&s, 300)
}

fn diff_rec(a: &Value, b: &Value, path: &mut Vec<String>, out: &mut Vec<Diff>) {
    if out.len() >= 200 || a == b {
        return;
    }
    match (a, b) {
        (Value::Object(x), Value::Object(y)) => {
            let keys: BTreeSet<&String> = x.keys().chain(y.keys()).collect();
            for k in keys {
                path.push(k.clone());
                match (x.get(k), y.get(k)) {
                    (Some(p), Some(q)) => diff_rec(p, q, path, out),
                    (p, q) => out.push(Diff { section: section_of(path), comps: path.clone(), path: path.join("/"), left: p.map(short).unwrap_or("<absent>".into()), right: q.map(short).unwrap_or("<absent>".into()) }),
                }
                path.pop();
            }
        }
        (Value::Array(x), Value::Array(y)) => {
            let is_token_list = path.last().map(|s| s == "tokens").unwrap_or(false);
            if is_token_list && x.len() == y.len() {
                for i in 0..x.len() {
                    path.push(i.to_string());
                    diff_rec(&x[i], &y[i], path, out);
                    path.pop();
                }
            } else if x.iter().all(|v| v.is_string()) && y.iter().all(|v| v.is_string()) && !is_token_list {
                // sorted string sets: report the symmetric difference
                let sx: BTreeSet<&str> = x.iter().filter_map(|v| v.as_str()).collect();
                let sy: BTreeSet<&str> = y.iter().filter_map(|v| v.as_str()).collect();
                let only_x: Vec<&&str> = sx.difference(&sy).collect();
                let only_y: Vec<&&str> = sy.difference(&sx).collect();
                out.push(Diff {
                    section: section_of(path),
                    comps: path.clone(),
                    path: path.join("/"),
                    left: crate::report::clip(&format!("{only_x:?}"), 400),
                    right: crate::report::clip(&format!("{only_y:?}"), 400),
                });
            } else if x.len() == y.len() {
                for i in 0..x.len() {
                    path.push(i.to_string());
                    diff_rec(&x[i], &y[i], path, out);
                    path.pop();
                }
            } else {
                out.push(Diff { section: section_of(path), comps: path.clone(), path: path.join("/"), left: format!("{} items", x.len()), right: format!("{} items", y.len()) });
            }
        }
        _ => out.push(Diff { section: section_of(path), comps: path.clone(), path: path.join("/"), left: short(a), right: short(b) }),
    }
}

/// Sorted, de-duplicated sections of a diff (for signatures).
pub fn diff_sections(d: &[Diff]) -> Vec<String> {
    let mut s: Vec<String> = d.iter().map(|x| x.section.clone()).collect();
    s.sort();
    s.dedup();
    s
}

pub fn diff_text(d: &[Diff], max: usize) -> String {
    let mut s = String::new();
    for x in d.iter().take(max) {
        s.push_str(&format!("[{}] {}: {}  =>  {}\n", x.section, x.path, x.left, x.right));
    }
    if d.len() > max {
        s.push_str(&format!("… {} more\n", d.len() - max));
    }
    s
}

/// Every string leaf of a dump together with its section (C10 scans them for removed paths).
pub fn walk_strings(v: &Value, f: &mut dyn FnMut(&[String], &str)) {
    fn rec(v: &Value, path: &mut Vec<String>, f: &mut dyn FnMut(&[String], &str)) {
        match v {
            Value::String(s) => f(path, s),
            Value::Array(a) => {
                for (i, x) in a.iter().enumerate() {
                    path.push(i.to_string());
                    rec(x, path, f);
                    path.pop();
                }
            }
            Value::Object(o) => {
                for (k, x) in o {
                    path.push(k.clone());
                    f(path, k);
                    rec(x, path, f);
                    path.pop();
                }
            }
            _ => {}
        }
    }
    rec(v, &mut Vec::new(), f);
}

pub fn section_of_path(path: &[String]) -> String {
    section_of(path)
}

/// Canonical JSON text with object keys sorted (independent of serde_json's `preserve_order`).
pub fn canon_string(v: &Value) -> String {
    fn rec(v: &Value, out: &mut String) {
        match v {
            Value::Object(o) => {
                let mut keys: Vec<&String> = o.keys().collect();
                keys.sort();
                out.push('{');
                for (i, k) in keys.iter().enumerate() {
                    if i > 0 {
                        out.push(',');
                    }
                    out.push_str(&Value::String((*k).clone()).to_string());
                    out.push(':');
                    rec(&o[*k], out);
                }
                out.push('}');
            }
            Value::Array(a) => {
                out.push('[');
                for (i, x) in a.iter().enumerate() {
                    if i > 0 {
                        out.push(',');
                    }
                    rec(x, out);
                }
                out.push(']');
            }
            other => out.push_str(&other.to_string()),
        }
    }
    let mut s = String::new();
    rec(v, &mut s);
    s
}


/// Structural discriminator of one diff entry for signatures: what kind of thing differs,
/// never its name. `a`/`b` are the two dumps the diff was taken from.
pub fn discriminator(a: &Value, b: &Value, d: &Diff, files_declaring: &dyn Fn(&str) -> usize) -> String {
    fn files_of(locs: Option<&Value>) -> usize {
        let mut s = BTreeSet::new();
        if let Some(l) = locs.and_then(|l| l.as_array()) {
            for x in l {
                if let Some(t) = x.as_str() {
                    s.insert(t.split('@').next().unwrap_or("").to_string());
                }
            }
        }
        s.len()
    }
    let n_files = |n: usize| match n {
        0 => "0",
        1 => "1",
        _ => "n",
    };
    let c = &d.comps;
    match c.first().map(|s| s.as_str()) {
        Some("types") => {
            let name = c.get(1).cloned().unwrap_or_default();
            let ea = a.get("types").and_then(|t| t.get(&name));
            let eb = b.get("types").and_then(|t| t.get(&name));
            let e = ea.or(eb);
            let kind = e.and_then(|e| e.get("kind")).and_then(|k| k.as_str()).unwrap_or("?");
            // number of files of the case that declare the type (in any text of the history);
            // falls back to the locations recorded in the dumps
            let by_text = files_declaring(name.split('#').next().unwrap_or(&name));
            let n = by_text.max(files_of(ea.and_then(|e| e.get("locations")))).max(files_of(eb.and_then(|e| e.get("locations"))));
            format!("owner={kind}-declared-in-{}-files", n_files(n))
        }
        Some("globals") => {
            let name = c.get(1).cloned().unwrap_or_default();
            let n = files_of(a.get("globals").and_then(|t| t.get(&name))).max(files_of(b.get("globals").and_then(|t| t.get(&name))));
            format!("global-declared-in-{}-files", n_files(n))
        }
        Some("files") => {
            let sec = c.get(2).map(|s| s.as_str()).unwrap_or("");
            match sec {
                "tokens" => {
                    // what the token resolves to in either dump
                    let tok = |v: &Value| -> Option<String> {
                        let t = v.get("files")?.get(c.get(1)?)?.get("tokens")?.get(c.get(3)?.parse::<usize>().ok()?)?;
                        let decl = t.get(3).and_then(|x| x.as_str()).unwrap_or("none");
                        let kind = decl.split(':').next().unwrap_or("none").to_string();
                        Some(kind)
                    };
                    let mut kinds: BTreeSet<String> = BTreeSet::new();
                    kinds.insert(tok(a).unwrap_or("?".into()));
                    kinds.insert(tok(b).unwrap_or("?".into()));
                    format!("token={}", kinds.into_iter().collect::<Vec<_>>().join("|"))
                }
                "diag" => {
                    // codes in the symmetric difference
                    let mut codes = BTreeSet::new();
                    for side in [&d.left, &d.right] {
                        for part in side.split('"') {
                            // entries look like `l:c-l:c code sev=…`
                            let mut it = part.split(' ');
                            if let (Some(r), Some(code)) = (it.next(), it.next()) {
                                if r.contains(':') && r.contains('-') && code.chars().all(|ch| ch.is_ascii_lowercase() || ch == '-') && !code.is_empty() {
                                    codes.insert(code.to_string());
                                }
                            }
                        }
                    }
                    format!("code={}", codes.into_iter().collect::<Vec<_>>().join("+"))
                }
                "decls" => {
                    let mut kinds = BTreeSet::new();
                    for side in [&d.left, &d.right] {
                        for k in ["global", "local", "param", "self"] {
                            if side.contains(&format!(" {k} ")) {
                                kinds.insert(k);
                            }
                        }
                    }
                    format!("decl={}", kinds.into_iter().collect::<Vec<_>>().join("+"))
                }
                _ => String::from("file"),
            }
        }
        Some("modules") => {
            if d.right.contains("null") || d.left.contains("null") { "resolves-vs-null".into() } else { "differs".into() }
        }
        _ => String::from("-"),
    }
}

/// Field-level refinement of the census: line counts of the top-level fields of every index'
/// pretty `Debug` rendering (`index.field`). Used for signatures and details only; verdicts
/// use the hook census.
pub fn census_fields(a: &EmmyLuaAnalysis) -> BTreeMap<String, usize> {
    fn fields(name: &str, text: &str, out: &mut BTreeMap<String, usize>) {
        let mut cur: Option<String> = None;
        for line in text.lines() {
            if line.starts_with("    ") && !line.starts_with("     ") {
                let t = line.trim_start();
                if let Some(i) = t.find(':') {
                    let f = &t[..i];
                    if !f.is_empty() && f.chars().all(|c| c.is_ascii_alphanumeric() || c == '_') {
                        cur = Some(format!("{name}.{f}"));
                    }
                }
            }
            if let Some(c) = &cur {
                *out.entry(c.clone()).or_insert(0) += 1;
            }
        }
    }
    let db = a.compilation.get_db();
    let mut out = BTreeMap::new();
    fields("decl", &format!("{:#?}", db.get_decl_index()), &mut out);
    fields("references", &format!("{:#?}", db.get_reference_index()), &mut out);
    fields("types", &format!("{:#?}", db.get_type_index()), &mut out);
    fields("modules", &format!("{:#?}", db.get_module_index()), &mut out);
    fields("members", &format!("{:#?}", db.get_member_index()), &mut out);
    fields("property", &format!("{:#?}", db.get_property_index()), &mut out);
    fields("signature", &format!("{:#?}", db.get_signature_index()), &mut out);
    fields("diagnostic", &format!("{:#?}", db.get_diagnostic_index()), &mut out);
    fields("operator", &format!("{:#?}", db.get_operator_index()), &mut out);
    fields("flow", &format!("{:#?}", db.get_flow_index()), &mut out);
    fields("file_dependencies", &format!("{:#?}", db.get_file_dependencies_index()), &mut out);
    fields("metatable", &format!("{:#?}", db.get_metatable_index()), &mut out);
    fields("global", &format!("{:#?}", db.get_global_index()), &mut out);
    fields("json_schema", &format!("{:#?}", db.get_json_schema_index()), &mut out);
    out
}
