//! Process helpers for the E3 (process-boundary) checks C33/C35/C36/C39:
//! locate the shipped binaries, run a command with a private HOME / XDG dirs, capture
//! stdout / stderr / exit status under a generous wall-clock watchdog (its firing is
//! *inconclusive*, never a verdict), optional RLIMIT_FSIZE, and `strace` wrappers
//! (syscall enumeration + `-e inject=` fault injection) with a parser for strace's log.

use std::io::{Read, Write};
use std::os::unix::process::{CommandExt, ExitStatusExt};
use std::path::{Path, PathBuf};
use std::process::{Command, Stdio};
use std::time::{Duration, Instant};

/// Directory that holds the shipped binaries built from the tree under check.
/// `VERIF_REPO_BINS` overrides; default `<work>/../repo-bins/release` (work = $VERIF_TARGET/work).
pub fn bins_dir(work: &str) -> PathBuf {
    if let Ok(d) = std::env::var("VERIF_REPO_BINS") {
        if !d.is_empty() {
            return PathBuf::from(d);
        }
    }
    let w = Path::new(work);
    let target = w.parent().unwrap_or(w);
    target.join("repo-bins").join("release")
}

/// Path of one shipped binary (`luafmt`, `emmylua_check`, `emmylua_doc_cli`, `emmylua_ls`).
pub fn repo_bin(work: &str, name: &str) -> Result<PathBuf, String> {
    let p = bins_dir(work).join(name);
    match std::fs::metadata(&p) {
        Ok(m) if m.is_file() => Ok(p),
        _ => Err(format!("binary-not-found:{}", p.display())),
    }
}

/// Unique scratch directory under `work` (pid + shard + tag); the caller removes it.
pub fn scratch_dir(work: &str, tag: &str, shard: u32) -> PathBuf {
    let d = Path::new(work).join(format!("{tag}-{}-{shard}", std::process::id()));
    let _ = std::fs::remove_dir_all(&d);
    let _ = std::fs::create_dir_all(&d);
    d
}

/// Create (or empty) a private HOME directory.
pub fn fresh_home(dir: &Path) -> PathBuf {
    let _ = std::fs::remove_dir_all(dir);
    let _ = std::fs::create_dir_all(dir);
    dir.to_path_buf()
}

#[derive(Clone, Debug)]
pub struct Cmd {
    pub program: PathBuf,
    pub args: Vec<String>,
    pub cwd: Option<PathBuf>,
    /// private HOME (XDG dirs are derived from it)
    pub home: PathBuf,
    pub env: Vec<(String, String)>,
    pub stdin: Option<Vec<u8>>,
    /// RLIMIT_FSIZE (soft = hard) for the child
    pub rlimit_fsize: Option<u64>,
    /// ignore SIGXFSZ in the child (so that exceeding the limit is EFBIG, not death)
    pub ignore_sigxfsz: bool,
    /// generous outer wall-clock watchdog; firing makes the run inconclusive
    pub wall_limit_secs: f64,
}

impl Cmd {
    pub fn new(program: &Path, home: &Path) -> Cmd {
        Cmd {
            program: program.to_path_buf(),
            args: Vec::new(),
            cwd: None,
            home: home.to_path_buf(),
            env: Vec::new(),
            stdin: None,
            rlimit_fsize: None,
            ignore_sigxfsz: false,
            wall_limit_secs: 300.0,
        }
    }
    pub fn arg(mut self, a: impl Into<String>) -> Cmd {
        self.args.push(a.into());
        self
    }
    pub fn args<I: IntoIterator<Item = S>, S: Into<String>>(mut self, it: I) -> Cmd {
        for a in it {
            self.args.push(a.into());
        }
        self
    }
    pub fn cwd(mut self, d: &Path) -> Cmd {
        self.cwd = Some(d.to_path_buf());
        self
    }
}

#[derive(Clone, Debug, Default)]
pub struct Output {
    pub code: Option<i32>,
    pub signal: Option<i32>,
    pub stdout: Vec<u8>,
    pub stderr: Vec<u8>,
    /// the watchdog killed the run: inconclusive
    pub watchdog: bool,
    pub wall_s: f64,
}

impl Output {
    pub fn stdout_str(&self) -> String {
        String::from_utf8_lossy(&self.stdout).into_owned()
    }
    pub fn stderr_str(&self) -> String {
        String::from_utf8_lossy(&self.stderr).into_owned()
    }
    /// "exit:N" / "signal:N" / "watchdog"
    pub fn status_str(&self) -> String {
        if self.watchdog {
            "watchdog".into()
        } else if let Some(c) = self.code {
            format!("exit:{c}")
        } else if let Some(s) = self.signal {
            format!("signal:{s}")
        } else {
            "unknown".into()
        }
    }
}

/// Run one command to completion. `Err` = the harness could not run it (spawn failure):
/// always inconclusive for the caller.
pub fn run(cmd: &Cmd) -> Result<Output, String> {
    let mut c = Command::new(&cmd.program);
    c.args(&cmd.args);
    c.env_clear();
    let path = std::env::var("PATH").unwrap_or_else(|_| "/usr/local/bin:/usr/bin:/bin".into());
    let home = cmd.home.to_string_lossy().to_string();
    c.env("PATH", path)
        .env("HOME", &home)
        .env("XDG_CONFIG_HOME", format!("{home}/.config"))
        .env("XDG_DATA_HOME", format!("{home}/.local/share"))
        .env("XDG_CACHE_HOME", format!("{home}/.cache"))
        .env("XDG_STATE_HOME", format!("{home}/.local/state"))
        .env("LANG", "C")
        .env("LC_ALL", "C")
        .env("NO_COLOR", "1")
        .env("RUST_BACKTRACE", "0");
    for (k, v) in &cmd.env {
        c.env(k, v);
    }
    if let Some(d) = &cmd.cwd {
        c.current_dir(d);
    }
    c.stdin(if cmd.stdin.is_some() { Stdio::piped() } else { Stdio::null() });
    c.stdout(Stdio::piped());
    c.stderr(Stdio::piped());
    let rl = cmd.rlimit_fsize;
    let ign = cmd.ignore_sigxfsz;
    unsafe {
        c.pre_exec(move || {
            // own process group so the watchdog can kill strace + tracees together
            libc::setpgid(0, 0);
            if ign {
                libc::signal(libc::SIGXFSZ, libc::SIG_IGN);
            }
            if let Some(l) = rl {
                let lim = libc::rlimit { rlim_cur: l as libc::rlim_t, rlim_max: l as libc::rlim_t };
                if libc::setrlimit(libc::RLIMIT_FSIZE, &lim) != 0 {
                    return Err(std::io::Error::last_os_error());
                }
            }
            Ok(())
        });
    }
    let t0 = Instant::now();
    let mut child = c.spawn().map_err(|e| format!("spawn-failed:{}:{e}", cmd.program.display()))?;
    let pid = child.id() as i32;
    let mut so = child.stdout.take().unwrap();
    let mut se = child.stderr.take().unwrap();
    let stdin_data = cmd.stdin.clone();
    let si = child.stdin.take();
    let h_in = std::thread::spawn(move || {
        if let (Some(mut si), Some(d)) = (si, stdin_data) {
            let _ = si.write_all(&d);
        }
    });
    let h_out = std::thread::spawn(move || {
        let mut v = Vec::new();
        let _ = so.read_to_end(&mut v);
        v
    });
    let h_err = std::thread::spawn(move || {
        let mut v = Vec::new();
        let _ = se.read_to_end(&mut v);
        v
    });
    let mut watchdog = false;
    let mut sleep_us = 200u64;
    let status = loop {
        match child.try_wait() {
            Ok(Some(st)) => break st,
            Ok(None) => {}
            Err(e) => return Err(format!("wait-failed:{e}")),
        }
        if t0.elapsed().as_secs_f64() > cmd.wall_limit_secs {
            watchdog = true;
            unsafe {
                libc::kill(-pid, libc::SIGKILL);
                libc::kill(pid, libc::SIGKILL);
            }
            break child.wait().map_err(|e| format!("wait-failed:{e}"))?;
        }
        std::thread::sleep(Duration::from_micros(sleep_us));
        sleep_us = (sleep_us * 2).min(5_000);
    };
    // make sure no straggler of the group keeps the pipes open
    unsafe {
        libc::kill(-pid, libc::SIGKILL);
    }
    let _ = h_in.join();
    let stdout = h_out.join().unwrap_or_default();
    let stderr = h_err.join().unwrap_or_default();
    Ok(Output { code: status.code(), signal: status.signal(), stdout, stderr, watchdog, wall_s: t0.elapsed().as_secs_f64() })
}

// ---------------------------------------------------------------------------------------------
// strace

/// Syscalls traced for the C39 enumeration: everything that creates, opens, writes, syncs,
/// renames, truncates, links or removes a file (non-mutating read/stat calls are left out: a
/// crash before one of them leaves the same file state as a crash before the next listed call).
pub const FILE_SYSCALLS: &[&str] = &[
    "open", "openat", "openat2", "creat", "write", "pwrite64", "writev", "pwritev", "pwritev2", "close", "fsync", "fdatasync",
    "sync_file_range", "rename", "renameat", "renameat2", "ftruncate", "truncate", "fallocate", "unlink", "unlinkat", "link",
    "linkat", "symlink", "symlinkat", "chmod", "fchmod", "fchmodat", "chown", "fchown", "fchownat", "lchown", "copy_file_range",
    "sendfile", "mkdir", "mkdirat", "rmdir", "utimensat", "dup", "dup2", "dup3",
];

#[derive(Clone, Debug, PartialEq)]
pub enum Inject {
    /// SIGKILL delivered on entry of the `when`-th call of `syscall` (the call is not executed)
    Kill { syscall: String, when: u32 },
    /// the `when`-th call of `syscall` fails with `errno` (the call is not executed)
    Error { syscall: String, when: u32, errno: String },
}

impl Inject {
    fn expr(&self) -> String {
        match self {
            Inject::Kill { syscall, when } => format!("inject={syscall}:signal=KILL:when={when}"),
            Inject::Error { syscall, when, errno } => format!("inject={syscall}:error={errno}:when={when}"),
        }
    }
}

/// Wrap `cmd` in `strace -f -o <log> -e trace=<set> [-e inject=…]`.
pub fn strace_wrap(cmd: &Cmd, log: &Path, trace: &[&str], inject: Option<&Inject>) -> Cmd {
    let mut c = cmd.clone();
    let mut args: Vec<String> = vec!["-f".into(), "-qq".into(), "-o".into(), log.to_string_lossy().to_string(), "-e".into(), format!("trace={}", trace.join(","))];
    if let Some(i) = inject {
        args.push("-e".into());
        args.push(i.expr());
    }
    args.push("--".into());
    args.push(cmd.program.to_string_lossy().to_string());
    args.extend(cmd.args.iter().cloned());
    c.program = PathBuf::from("strace");
    c.args = args;
    c
}

#[derive(Clone, Debug)]
pub struct SysLine {
    pub pid: u32,
    pub name: String,
    /// text between the outer parentheses (possibly cut at "<unfinished")
    pub args: String,
    /// text after " = " ("3", "-1 ENOSPC (No space left on device) (INJECTED)", "?")
    pub ret: String,
    /// this line is a syscall *entry* (complete line or "<unfinished ...>"), i.e. counts for `when=`
    pub entry: bool,
    pub injected: bool,
}

#[derive(Clone, Debug, Default)]
pub struct StraceLog {
    pub calls: Vec<SysLine>,
    /// "+++ killed by SIGKILL +++" / "+++ exited with N +++" lines, per pid
    pub ends: Vec<(u32, String)>,
    pub unparsed: usize,
}

/// Parse a `strace -f -o file` log (lines start with the pid).
pub fn parse_strace(text: &str) -> StraceLog {
    let mut log = StraceLog::default();
    for line in text.lines() {
        let l = line.trim_end();
        if l.is_empty() {
            continue;
        }
        let (pid_s, rest) = match l.find(|c: char| !c.is_ascii_digit()) {
            Some(i) if i > 0 => (&l[..i], l[i..].trim_start()),
            _ => {
                log.unparsed += 1;
                continue;
            }
        };
        let pid: u32 = pid_s.parse().unwrap_or(0);
        if rest.starts_with("+++") {
            log.ends.push((pid, rest.to_string()));
            continue;
        }
        if rest.starts_with("---") {
            continue; // signal delivery
        }
        if let Some(r) = rest.strip_prefix("<... ") {
            // "<... write resumed>…) = 5"
            let name = r.split(' ').next().unwrap_or("").to_string();
            let ret = r.rsplit_once(" = ").map(|x| x.1.to_string()).unwrap_or_default();
            let injected = ret.contains("(INJECTED)");
            log.calls.push(SysLine { pid, name, args: String::new(), ret, entry: false, injected });
            continue;
        }
        let Some(p) = rest.find('(') else {
            log.unparsed += 1;
            continue;
        };
        let name = rest[..p].to_string();
        if name.is_empty() || !name.chars().all(|c| c.is_ascii_alphanumeric() || c == '_') {
            log.unparsed += 1;
            continue;
        }
        let after = &rest[p + 1..];
        let (args, ret) = if let Some(i) = after.find(" <unfinished ...>") {
            (after[..i].to_string(), String::new())
        } else {
            match after.rsplit_once(" = ") {
                Some((a, r)) => (a.trim_end().trim_end_matches(')').to_string(), r.to_string()),
                None => (after.to_string(), String::new()),
            }
        };
        let injected = ret.contains("(INJECTED)");
        log.calls.push(SysLine { pid, name, args, ret, entry: true, injected });
    }
    log
}

impl StraceLog {
    pub fn any_injected(&self) -> bool {
        self.calls.iter().any(|c| c.injected)
    }
    pub fn killed(&self) -> bool {
        self.ends.iter().any(|(_, e)| e.contains("killed by SIGKILL"))
    }
    /// The last syscall entry of the log (the one a KILL injection hit has ret "?").
    pub fn last_entry(&self) -> Option<&SysLine> {
        self.calls.iter().rev().find(|c| c.entry)
    }
}

/// First quoted string of a strace argument list (the path of open/rename/unlink…), unescaped
/// for the simple escapes strace emits.
pub fn first_quoted(args: &str) -> Option<String> {
    quoted_strings(args).into_iter().next()
}

pub fn quoted_strings(args: &str) -> Vec<String> {
    let b = args.as_bytes();
    let mut out = Vec::new();
    let mut i = 0;
    while i < b.len() {
        if b[i] == b'"' {
            let mut s = Vec::new();
            i += 1;
            while i < b.len() && b[i] != b'"' {
                if b[i] == b'\\' && i + 1 < b.len() {
                    i += 1;
                    match b[i] {
                        b'n' => s.push(b'\n'),
                        b't' => s.push(b'\t'),
                        b'r' => s.push(b'\r'),
                        c => s.push(c),
                    }
                } else {
                    s.push(b[i]);
                }
                i += 1;
            }
            out.push(String::from_utf8_lossy(&s).into_owned());
        }
        i += 1;
    }
    out
}

// ---------------------------------------------------------------------------------------------
// directory snapshots

/// All regular files below `root` as (relative path with '/', bytes), sorted by path.
pub fn snapshot_dir(root: &Path) -> Vec<(String, Vec<u8>)> {
    fn walk(root: &Path, dir: &Path, out: &mut Vec<(String, Vec<u8>)>) {
        let Ok(rd) = std::fs::read_dir(dir) else { return };
        let mut ents: Vec<_> = rd.filter_map(|e| e.ok()).collect();
        ents.sort_by_key(|e| e.file_name());
        for e in ents {
            let p = e.path();
            let Ok(ft) = e.file_type() else { continue };
            if ft.is_dir() {
                walk(root, &p, out);
            } else if ft.is_file() {
                let rel = p.strip_prefix(root).unwrap_or(&p).to_string_lossy().replace('\\', "/");
                out.push((rel, std::fs::read(&p).unwrap_or_default()));
            }
        }
    }
    let mut out = Vec::new();
    walk(root, root, &mut out);
    out.sort();
    out
}

/// (Re)create `root` with exactly the given files.
pub fn materialize(root: &Path, files: &[(String, Vec<u8>)]) -> Result<(), String> {
    let _ = std::fs::remove_dir_all(root);
    std::fs::create_dir_all(root).map_err(|e| format!("mkdir {}: {e}", root.display()))?;
    for (rel, data) in files {
        let p = root.join(rel);
        if let Some(parent) = p.parent() {
            std::fs::create_dir_all(parent).map_err(|e| format!("mkdir {}: {e}", parent.display()))?;
        }
        std::fs::write(&p, data).map_err(|e| format!("write {}: {e}", p.display()))?;
    }
    Ok(())
}
