//! G-lsp: generated message scripts for the SimServer, a reference model of the editor/disk
//! state, and a runner that returns everything the history checkers need.

use crate::rng::Rng;
use crate::sim::{Sim, SimOpts, block_on, id_key, path_uri};
use emmylua_ls::verif_api::sync::{LockEvent, install as trace_install, take as trace_take};
use lsp_types::Uri;
use serde_json::{Value, json};
use std::path::PathBuf;

#[derive(Clone, Debug)]
pub enum Op {
    Open(usize),
    Change(usize),
    Close(usize),
    Save(usize),
    /// write (Some) or delete (None) the file on disk and tell the server through a watched-file event
    Disk(usize, bool),
    /// rewrite .emmyrc.json and send the watched-file event (debounced reload, 2 s)
    Emmyrc(u32),
    /// workspace/didChangeConfiguration
    ConfigChange,
    /// request `kind` on document; malformed: 0 = valid, 1 = wrong-typed params, 2 = null, 3 = missing field
    Req(usize, usize, u8),
    /// $/cancelRequest for the k-th request sent so far (modulo)
    Cancel(usize),
    Unknown,
    Advance(u64),
    Pump,
}

pub const REQ_KINDS: &[&str] = &[
    "textDocument/hover",
    "textDocument/documentSymbol",
    "textDocument/definition",
    "textDocument/references",
    "textDocument/completion",
    "textDocument/semanticTokens/full",
    "textDocument/foldingRange",
    "textDocument/documentHighlight",
    "textDocument/codeAction",
    "textDocument/inlayHint",
    "textDocument/signatureHelp",
    "textDocument/formatting",
    "workspace/symbol",
    "textDocument/codeLens",
    "textDocument/documentLink",
    "textDocument/selectionRange",
    "textDocument/rename",
    "textDocument/prepareRename",
    "textDocument/diagnostic",
    "textDocument/documentColor",
    "textDocument/implementation",
    "textDocument/prepareCallHierarchy",
    "textDocument/inlineValue",
    "textDocument/rangeFormatting",
    "workspace/executeCommand",
    "workspace/diagnostic",
];

#[derive(Clone, Debug)]
pub struct DocSpec {
    pub name: String,
    pub on_disk: bool,
}

#[derive(Clone, Debug)]
pub struct Script {
    pub docs: Vec<DocSpec>,
    pub ops: Vec<Op>,
    pub sched_seed: u64,
    pub pull_diagnostics: bool,
    pub enable_reindex: bool,
}

#[derive(Clone, Copy, Debug, Default)]
pub struct Flavor {
    pub reloads: bool,
    pub requests: bool,
    pub malformed: bool,
    pub disk_events: bool,
    pub saves: bool,
}

pub fn doc_text(doc: usize, version: u32) -> String {
    // unique per (doc, version): the read identifies the write it observed; diagnostics depend on
    // this text only (two undefined globals, one unused local)
    format!("local d{doc}_v{version} = {version}\nprint(undefined_{doc}_{version})\n")
}

pub fn gen_script(rng: &mut Rng, fl: Flavor, nops: usize) -> Script {
    let ndocs = rng.range(1, 4);
    let docs: Vec<DocSpec> = (0..ndocs).map(|i| DocSpec { name: format!("doc{i}.lua"), on_disk: rng.chance(2, 3) }).collect();
    let mut open = vec![false; ndocs];
    let mut ops = Vec::new();
    let mut nreq = 0usize;
    for _ in 0..nops {
        let d = rng.below(ndocs);
        let roll = rng.below(100);
        let op = if roll < 38 {
            // document life cycle, respecting the protocol (open only closed, change/close only open)
            if !open[d] {
                open[d] = true;
                Op::Open(d)
            } else if rng.chance(1, 5) {
                open[d] = false;
                Op::Close(d)
            } else {
                Op::Change(d)
            }
        } else if roll < 50 {
            Op::Pump
        } else if roll < 62 {
            // includes values aligned with the server's debounce constants (500 ms diagnostics, 1 s reindex, 2 s config reload)
            Op::Advance(*rng_pick(rng, &[1u64, 1, 2, 3, 20, 100, 400, 497, 499, 500, 501, 600, 997, 999, 1000, 1001, 1100, 1997, 1999, 2000, 2001, 2500, 5000]))
        } else if roll < 70 && fl.disk_events {
            Op::Disk(d, !rng.chance(1, 4))
        } else if roll < 76 && fl.reloads {
            if rng.chance(1, 4) { Op::ConfigChange } else { Op::Emmyrc(rng.below(4) as u32) }
        } else if roll < 80 && fl.saves && open[d] {
            Op::Save(d)
        } else if roll < 96 && fl.requests {
            nreq += 1;
            let mal = if fl.malformed && rng.chance(1, 3) { rng.range(1, 3) as u8 } else { 0 };
            Op::Req(rng.below(REQ_KINDS.len()), d, mal)
        } else if roll < 98 && fl.requests && nreq > 0 {
            Op::Cancel(rng.below(nreq + 1))
        } else if fl.malformed {
            Op::Unknown
        } else {
            Op::Pump
        };
        ops.push(op);
    }
    Script { docs, ops, sched_seed: rng.next_u64() | 1, pull_diagnostics: false, enable_reindex: fl.saves && rng.bool() }
}

/// Targeted family: document traffic placed right at the virtual instant at which a debounced
/// task of the server fires (`delay_ms` after `trigger`), separated by 1 ms steps, so that —
/// together with the sleeping schedule points of hook H3 — notifications arrive while that task
/// is between two of its critical sections.
pub fn gen_race_script(rng: &mut Rng, trigger_reload: bool, delay_ms: u64) -> Script {
    let ndocs = rng.range(1, 3);
    let docs: Vec<DocSpec> = (0..ndocs).map(|i| DocSpec { name: format!("doc{i}.lua"), on_disk: rng.chance(2, 3) }).collect();
    let mut open = vec![false; ndocs];
    let mut ops = Vec::new();
    // prologue: open (and edit) some documents
    for d in 0..ndocs {
        if rng.chance(3, 4) {
            ops.push(Op::Open(d));
            open[d] = true;
            if rng.bool() {
                ops.push(Op::Change(d));
            }
        }
    }
    ops.push(Op::Advance(3000));
    // the trigger
    if trigger_reload {
        ops.push(Op::Emmyrc(rng.below(4) as u32));
    } else {
        let d = rng.below(ndocs);
        if !open[d] {
            ops.push(Op::Open(d));
            open[d] = true;
        } else {
            ops.push(Op::Change(d));
        }
    }
    // arrive a few ms around the instant the debounced task fires
    let jitter = rng.below(5) as u64; // 0..4 -> -2..+2
    ops.push(Op::Advance(delay_ms + jitter - 2));
    for _ in 0..rng.range(2, 8) {
        match rng.below(6) {
            0 | 1 => ops.push(Op::Advance(1)),
            2 => ops.push(Op::Pump),
            _ => {
                let d = rng.below(ndocs);
                if !open[d] {
                    ops.push(Op::Open(d));
                    open[d] = true;
                } else if rng.chance(2, 5) {
                    ops.push(Op::Close(d));
                    open[d] = false;
                } else {
                    ops.push(Op::Change(d));
                }
            }
        }
    }
    Script { docs, ops, sched_seed: rng.next_u64() | 1, pull_diagnostics: false, enable_reindex: false }
}

fn rng_pick<'a, T>(rng: &mut Rng, xs: &'a [T]) -> &'a T {
    &xs[rng.below(xs.len())]
}

/// Reference model, folded over the script in message order.
#[derive(Clone, Debug, Default)]
pub struct Model {
    /// editor text of each document (None = closed)
    pub editor: Vec<Option<String>>,
    /// disk content (None = absent)
    pub disk: Vec<Option<String>>,
    pub version: Vec<u32>,
    pub reload_triggers: usize,
}

#[derive(Debug, Default)]
pub struct Outcome {
    pub model: Model,
    pub uris: Vec<String>,
    pub final_text: Vec<Option<String>>,
    pub final_open: Vec<bool>,
    /// last publishDiagnostics per document (None = never published)
    pub last_published: Vec<Option<Value>>,
    /// diagnose_file on the server's own analysis at quiescence (None = file not in analysis)
    pub expected_diagnostics: Vec<Option<Value>>,
    pub anomalies: Vec<(String, String, usize)>,
    pub cancelled_ids: Vec<String>,
    pub requests: usize,
    pub error_codes: Vec<(String, i64)>,
    pub lock_events: Vec<LockEvent>,
    pub settled: bool,
    pub panics: Vec<crate::util::PanicInfo>,
    pub virtual_ms: u64,
    pub messages_from_server: usize,
    pub publish_count: usize,
    pub handler_errors: Vec<String>,
    pub stalled_dispatch: Vec<(u64, String)>,
    /// the shared locks could not be acquired for 900 virtual seconds at the end of the run
    pub wedged: bool,
    /// documentSymbol result per open document at quiescence (protocol-boundary view of the text)
    pub symbols_view: Vec<Option<String>>,
}

pub fn req_params(kind: &str, uri: &Uri, mal: u8, n: usize) -> Value {
    if mal == 2 {
        return Value::Null;
    }
    let td = json!({"uri": uri.as_str()});
    let pos = json!({"line": (n % 2) as u32, "character": (6 + n % 5) as u32});
    let range = json!({"start": {"line": 0, "character": 0}, "end": {"line": 1, "character": 5}});
    let mut v = match kind {
        "textDocument/hover" | "textDocument/definition" | "textDocument/documentHighlight" | "textDocument/signatureHelp" | "textDocument/prepareRename"
        | "textDocument/implementation" | "textDocument/prepareCallHierarchy" | "textDocument/completion" => json!({"textDocument": td, "position": pos}),
        "textDocument/references" => json!({"textDocument": td, "position": pos, "context": {"includeDeclaration": true}}),
        "textDocument/rename" => json!({"textDocument": td, "position": pos, "newName": "renamed_x"}),
        "textDocument/codeAction" => json!({"textDocument": td, "range": range, "context": {"diagnostics": []}}),
        "textDocument/inlayHint" | "textDocument/rangeFormatting" => {
            let mut v = json!({"textDocument": td, "range": range});
            if kind.ends_with("rangeFormatting") {
                v["options"] = json!({"tabSize": 4, "insertSpaces": true});
            }
            v
        }
        "textDocument/inlineValue" => json!({"textDocument": td, "range": range, "context": {"frameId": 1, "stoppedLocation": range}}),
        "textDocument/formatting" => json!({"textDocument": td, "options": {"tabSize": 4, "insertSpaces": true}}),
        "textDocument/selectionRange" => json!({"textDocument": td, "positions": [pos]}),
        "workspace/symbol" => json!({"query": "d"}),
        "workspace/executeCommand" => json!({"command": "emmy.nonexistent", "arguments": []}),
        "workspace/diagnostic" => json!({"previousResultIds": []}),
        _ => json!({"textDocument": td}),
    };
    match mal {
        1 => {
            // wrong-typed: the first field becomes a number
            if let Some(o) = v.as_object_mut() {
                if let Some(k) = o.keys().next().cloned() {
                    o.insert(k, json!(5));
                }
            }
        }
        3 => {
            if let Some(o) = v.as_object_mut() {
                if let Some(k) = o.keys().next().cloned() {
                    o.remove(&k);
                }
            }
        }
        _ => {}
    }
    v
}

static RUN_COUNTER: std::sync::atomic::AtomicU64 = std::sync::atomic::AtomicU64::new(0);

/// Runs the script against a fresh server. `trace` installs the lock trace (and the seeded
/// schedule points when `script.sched_seed != 0`).
pub fn run_script(script: &Script, work: &str, trace: bool) -> Outcome {
    let n = RUN_COUNTER.fetch_add(1, std::sync::atomic::Ordering::Relaxed);
    let root = PathBuf::from(format!("{work}/simws-{}-{n}", std::process::id()));
    let _ = std::fs::remove_dir_all(&root);
    std::fs::create_dir_all(&root).expect("mkdir ws");
    let mut model = Model::default();
    let mut uris: Vec<Uri> = Vec::new();
    for (i, d) in script.docs.iter().enumerate() {
        let p = root.join(&d.name);
        if d.on_disk {
            let t = format!("local disk{i}_v0 = 0\nprint(undefined_disk_{i}_0)\n");
            std::fs::write(&p, &t).expect("write");
            model.disk.push(Some(t));
        } else {
            model.disk.push(None);
        }
        model.editor.push(None);
        model.version.push(0);
        uris.push(path_uri(&p));
    }
    if script.enable_reindex {
        std::fs::write(root.join(".emmyrc.json"), "{\"workspace\": {\"enableReindex\": true}}").expect("write rc");
    }
    let _ = crate::util::take_global_panics();
    if trace {
        trace_install(script.sched_seed);
    }
    let opts = SimOpts { root: Some(root.clone()), pull_diagnostics: script.pull_diagnostics, ..Default::default() };
    let mut out;
    let ops = script.ops.clone();
    let uri_strs: Vec<String> = uris.iter().map(|u| u.as_str().to_string()).collect();
    let root_outer = root.clone();
    let (sim_out, model) = block_on(async move {
        let mut sim = Sim::start(opts).await;
        let mut sent_ids: Vec<lsp_server::RequestId> = Vec::new();
        let mut cancelled: Vec<String> = Vec::new();
        let mut disk_counter = 0u32;
        for op in ops {
            match op {
                Op::Open(d) => {
                    model.version[d] += 1;
                    let t = doc_text(d, model.version[d]);
                    model.editor[d] = Some(t.clone());
                    sim.did_open(&uris[d], &t, model.version[d] as i32).await;
                }
                Op::Change(d) => {
                    model.version[d] += 1;
                    let t = doc_text(d, model.version[d]);
                    model.editor[d] = Some(t.clone());
                    sim.did_change(&uris[d], &t, model.version[d] as i32).await;
                }
                Op::Close(d) => {
                    model.editor[d] = None;
                    sim.did_close(&uris[d]).await;
                }
                Op::Save(d) => {
                    // the editor writes its buffer to disk, then notifies
                    if let Some(t) = model.editor[d].clone() {
                        let p = emmylua_code_analysis::uri_to_file_path(&uris[d]).expect("path");
                        let _ = std::fs::write(&p, &t);
                        model.disk[d] = Some(t);
                    }
                    sim.notify("textDocument/didSave", json!({"textDocument": {"uri": uris[d].as_str()}})).await;
                }
                Op::Disk(d, write) => {
                    let p = emmylua_code_analysis::uri_to_file_path(&uris[d]).expect("path");
                    let existed = model.disk[d].is_some();
                    let typ = if write {
                        disk_counter += 1;
                        let t = format!("local disk{d}_w{disk_counter} = {disk_counter}\nprint(undefined_disk_{d}_{disk_counter})\n");
                        let _ = std::fs::write(&p, &t);
                        model.disk[d] = Some(t);
                        if existed { 2 } else { 1 }
                    } else {
                        let _ = std::fs::remove_file(&p);
                        model.disk[d] = None;
                        3
                    };
                    if write || existed {
                        sim.notify("workspace/didChangeWatchedFiles", json!({"changes": [{"uri": uris[d].as_str(), "type": typ}]})).await;
                    }
                }
                Op::Emmyrc(k) => {
                    let p = root.join(".emmyrc.json");
                    let existed = p.exists();
                    let body = json!({"diagnostics": {"globals": [format!("g{k}")]}, "workspace": {"enableReindex": script_reindex(k)}});
                    let _ = std::fs::write(&p, body.to_string());
                    model.reload_triggers += 1;
                    sim.notify("workspace/didChangeWatchedFiles", json!({"changes": [{"uri": path_uri(&p).as_str(), "type": if existed { 2 } else { 1 }}]})).await;
                }
                Op::ConfigChange => {
                    sim.notify("workspace/didChangeConfiguration", json!({"settings": {}})).await;
                }
                Op::Req(kind, d, mal) => {
                    let params = req_params(REQ_KINDS[kind], &uris[d], mal, sent_ids.len());
                    let id = sim.request(REQ_KINDS[kind], params).await;
                    sent_ids.push(id);
                }
                Op::Cancel(k) => {
                    // k == len: an id that was never used
                    let id_json = if k < sent_ids.len() {
                        cancelled.push(id_key(&sent_ids[k]));
                        serde_json::to_value(&sent_ids[k]).unwrap_or(json!(0))
                    } else {
                        json!(987654)
                    };
                    sim.notify("$/cancelRequest", json!({"id": id_json})).await;
                }
                Op::Unknown => {
                    let id = sim.request("verif/unknownMethod", json!({"x": 1})).await;
                    sent_ids.push(id);
                    sim.notify("verif/unknownNotification", json!({})).await;
                }
                Op::Advance(ms) => sim.advance(ms).await,
                Op::Pump => {
                    sim.pump().await;
                }
            }
        }
        let settled = sim.settle(120_000, 3_600_000).await;
        let mut o = Outcome::default();
        o.settled = settled;
        // protocol-boundary view first (requests take read locks only)
        for (d, u) in uris.iter().enumerate() {
            if model.editor[d].is_some() {
                let r = sim.call("textDocument/documentSymbol", json!({"textDocument": {"uri": u.as_str()}}), 60_000).await;
                o.symbols_view.push(r.and_then(|r| r.result).map(|v| v.to_string()));
            } else {
                o.symbols_view.push(None);
            }
        }
        sim.settle(5_000, 600_000).await;
        // if the server is wedged the probes below would block on its locks: give up (the stall is reported)
        let probe_ok = tokio::time::timeout(std::time::Duration::from_secs(900), async {
            let _a = sim.snapshot.analysis().read().await;
        })
        .await
        .is_ok()
            && tokio::time::timeout(std::time::Duration::from_secs(900), async {
                let _w = sim.snapshot.workspace_manager().read().await;
            })
            .await
            .is_ok();
        if !probe_ok {
            o.wedged = true;
            o.stalled_dispatch = sim.stalled_dispatch.clone();
            o.anomalies = sim.response_anomalies();
            o.requests = sim.requests_sent.len();
            o.virtual_ms = sim.now_ms();
            return (o, model);
        }
        for u in &uris {
            o.final_text.push(sim.analysis_text(u).await);
            o.final_open.push(sim.is_open(u).await);
            let last = sim.published.iter().rev().find(|(_, pu, _)| pu == u.as_str()).map(|(_, _, d)| d.clone());
            o.last_published.push(last);
            let expected = {
                let analysis = sim.snapshot.analysis().read().await;
                match analysis.get_file_id(u) {
                    Some(fid) => analysis.diagnose_file(fid, tokio_util::sync::CancellationToken::new()).map(|d| serde_json::to_value(d).unwrap_or(Value::Null)),
                    None => None,
                }
            };
            o.expected_diagnostics.push(expected);
        }
        o.anomalies = sim.response_anomalies();
        o.requests = sim.requests_sent.len();
        for (id, _m) in &sim.requests_sent {
            if let Some(rs) = sim.responses.get(&id_key(id)) {
                for r in rs {
                    if let Some(e) = &r.error {
                        o.error_codes.push((id_key(id), e.code as i64));
                    }
                }
            }
        }
        o.cancelled_ids = cancelled;
        o.virtual_ms = sim.now_ms();
        o.messages_from_server = sim.log.iter().filter(|e| matches!(e.dir, crate::sim::Dir::FromServer)).count();
        o.publish_count = sim.published.len();
        o.handler_errors = sim.handler_errors.clone();
        o.stalled_dispatch = sim.stalled_dispatch.clone();
        (o, model)
    });
    out = sim_out;
    out.model = model;
    out.uris = uri_strs;
    if trace {
        out.lock_events = trace_take();
    }
    out.panics = crate::util::take_global_panics();
    let _ = std::fs::remove_dir_all(&root_outer);
    out
}

fn script_reindex(k: u32) -> bool {
    k % 2 == 1
}

// ---- (de)serialisation of scripts for replay files ------------------------------------------
pub fn script_to_json(s: &Script) -> Value {
    let ops: Vec<Value> = s
        .ops
        .iter()
        .map(|op| match op {
            Op::Open(d) => json!(["open", d]),
            Op::Change(d) => json!(["change", d]),
            Op::Close(d) => json!(["close", d]),
            Op::Save(d) => json!(["save", d]),
            Op::Disk(d, w) => json!(["disk", d, w]),
            Op::Emmyrc(k) => json!(["emmyrc", k]),
            Op::ConfigChange => json!(["config"]),
            Op::Req(k, d, m) => json!(["req", k, d, m]),
            Op::Cancel(k) => json!(["cancel", k]),
            Op::Unknown => json!(["unknown"]),
            Op::Advance(ms) => json!(["advance", ms]),
            Op::Pump => json!(["pump"]),
        })
        .collect();
    json!({"docs": s.docs.iter().map(|d| json!([d.name, d.on_disk])).collect::<Vec<_>>(), "ops": ops, "sched_seed": s.sched_seed.to_string(), "pull": s.pull_diagnostics, "reindex": s.enable_reindex})
}

pub fn script_from_json(v: &Value) -> Script {
    let docs = v["docs"].as_array().map(|a| a.iter().map(|d| DocSpec { name: d[0].as_str().unwrap_or("doc0.lua").to_string(), on_disk: d[1].as_bool().unwrap_or(true) }).collect()).unwrap_or_default();
    let u = |x: &Value| x.as_u64().unwrap_or(0) as usize;
    let ops = v["ops"]
        .as_array()
        .map(|a| {
            a.iter()
                .map(|o| match o[0].as_str().unwrap_or("") {
                    "open" => Op::Open(u(&o[1])),
                    "change" => Op::Change(u(&o[1])),
                    "close" => Op::Close(u(&o[1])),
                    "save" => Op::Save(u(&o[1])),
                    "disk" => Op::Disk(u(&o[1]), o[2].as_bool().unwrap_or(true)),
                    "emmyrc" => Op::Emmyrc(u(&o[1]) as u32),
                    "config" => Op::ConfigChange,
                    "req" => Op::Req(u(&o[1]), u(&o[2]), u(&o[3]) as u8),
                    "cancel" => Op::Cancel(u(&o[1])),
                    "unknown" => Op::Unknown,
                    "advance" => Op::Advance(o[1].as_u64().unwrap_or(0)),
                    _ => Op::Pump,
                })
                .collect()
        })
        .unwrap_or_default();
    Script {
        docs,
        ops,
        sched_seed: v["sched_seed"].as_str().and_then(|s| s.parse().ok()).unwrap_or(1),
        pull_diagnostics: v["pull"].as_bool().unwrap_or(false),
        enable_reindex: v["reindex"].as_bool().unwrap_or(false),
    }
}

/// Identity of the interleaving actually produced: hash of the (task, lock, mode, kind) sequence.
pub fn interleaving_hash(events: &[LockEvent]) -> u64 {
    let mut h: u64 = 0xcbf29ce484222325;
    for e in events {
        let s = format!("{:?}|{}|{:?}|{:?}|{}", e.task, e.lock.len(), e.mode, e.kind, e.site.rsplit('/').next().unwrap_or(""));
        for b in s.bytes() {
            h ^= b as u64;
            h = h.wrapping_mul(0x100000001b3);
        }
    }
    h
}
