//! Independent position model (shared oracle of C22 / C23 / C26 and anything that validates LSP ranges).
//!
//! It is written from the LSP specification only and never calls `LineIndex` / `LuaDocument`:
//!
//! * a *position* is `(line, character)`, both zero based;
//! * lines end at `\n`, `\r\n` or `\r` ([`LineSplit::Lsp`], what the protocol says) or only at `\n`
//!   ([`LineSplit::LfOnly`], what the pinned tree does — kept so that checks which are *not* about
//!   line endings can accept either);
//! * `character` counts UTF-16 code units ([`Encoding::Utf16`], the protocol default), Unicode
//!   scalar values ([`Encoding::Scalar`], what the pinned tree does) or bytes ([`Encoding::Utf8`]);
//! * a `character` greater than the line length "defaults back to the line length" (spec, `Position`);
//!   the line length does not include the terminator;
//! * a `line` that does not exist addresses nothing.
//!
//! Offsets are byte offsets into the UTF-8 text, as everywhere in the code under test.
//!
//! ```ignore
//! let m = PosModel::new("a😀b\r\nc", Encoding::Utf16, LineSplit::Lsp);
//! assert_eq!(m.line_count(), 2);
//! assert_eq!(m.line_len_units(0), Some(4));            // a + 2 units + b
//! assert_eq!(m.to_offset(0, 3), Some(5));              // before 'b'
//! assert_eq!(m.to_offset(0, 99), Some(6));             // clamped to the end of line 0 (before "\r\n")
//! assert_eq!(m.to_offset(2, 0), None);                 // no such line
//! assert_eq!(m.to_position(8), (1, 0));
//! assert_eq!(m.slice((0, 1), (0, 3)), Some("😀"));
//! ```

#[derive(Clone, Copy, Debug, PartialEq, Eq, Hash, PartialOrd, Ord)]
pub enum Encoding {
    /// UTF-16 code units (LSP default / mandatory-to-support encoding).
    Utf16,
    /// Unicode scalar values (`str::chars()`), i.e. LSP "utf-32".
    Scalar,
    /// UTF-8 bytes (LSP "utf-8").
    Utf8,
}

#[derive(Clone, Copy, Debug, PartialEq, Eq, Hash, PartialOrd, Ord)]
pub enum LineSplit {
    /// `\n`, `\r\n` and `\r` end a line (LSP specification).
    Lsp,
    /// only `\n` ends a line; `\r` is ordinary line content.
    LfOnly,
}

impl Encoding {
    pub fn name(self) -> &'static str {
        match self {
            Encoding::Utf16 => "utf-16",
            Encoding::Scalar => "scalar",
            Encoding::Utf8 => "utf-8",
        }
    }
    /// width of one character in units of this encoding
    pub fn units(self, c: char) -> u32 {
        match self {
            Encoding::Utf16 => c.len_utf16() as u32,
            Encoding::Scalar => 1,
            Encoding::Utf8 => c.len_utf8() as u32,
        }
    }
    /// width of a string in units of this encoding
    pub fn str_units(self, s: &str) -> u32 {
        match self {
            Encoding::Utf8 => s.len() as u32,
            _ => s.chars().map(|c| self.units(c)).sum(),
        }
    }
}

impl LineSplit {
    pub fn name(self) -> &'static str {
        match self {
            LineSplit::Lsp => "lf+crlf+cr",
            LineSplit::LfOnly => "lf-only",
        }
    }
}

/// The four (encoding, split) combinations a check may have to tolerate, protocol-conformant first.
pub const VARIANTS: [(Encoding, LineSplit); 4] = [
    (Encoding::Utf16, LineSplit::Lsp),
    (Encoding::Utf16, LineSplit::LfOnly),
    (Encoding::Scalar, LineSplit::Lsp),
    (Encoding::Scalar, LineSplit::LfOnly),
];

#[derive(Clone, Debug)]
pub struct PosModel {
    text: String,
    enc: Encoding,
    split: LineSplit,
    /// byte offset of the first byte of every line
    starts: Vec<usize>,
    /// byte offset of the end of the line *content* (before the terminator; == next start for none)
    ends: Vec<usize>,
}

impl PosModel {
    pub fn new(text: &str, enc: Encoding, split: LineSplit) -> Self {
        let b = text.as_bytes();
        let mut starts = vec![0usize];
        let mut ends = Vec::new();
        let mut i = 0;
        while i < b.len() {
            match b[i] {
                b'\n' => {
                    ends.push(i);
                    starts.push(i + 1);
                    i += 1;
                }
                b'\r' if split == LineSplit::Lsp => {
                    ends.push(i);
                    if i + 1 < b.len() && b[i + 1] == b'\n' {
                        i += 2;
                    } else {
                        i += 1;
                    }
                    starts.push(i);
                }
                _ => i += 1,
            }
        }
        ends.push(b.len());
        debug_assert_eq!(starts.len(), ends.len());
        PosModel { text: text.to_string(), enc, split, starts, ends }
    }

    /// UTF-16 columns, lines split at `\n`, `\r\n`, `\r`: what the protocol prescribes when nothing is negotiated.
    pub fn lsp(text: &str) -> Self {
        Self::new(text, Encoding::Utf16, LineSplit::Lsp)
    }

    /// One model per entry of [`VARIANTS`], for checks that accept any self-consistent convention.
    pub fn all_variants(text: &str) -> Vec<PosModel> {
        VARIANTS.iter().map(|(e, s)| PosModel::new(text, *e, *s)).collect()
    }

    pub fn text(&self) -> &str {
        &self.text
    }
    pub fn encoding(&self) -> Encoding {
        self.enc
    }
    pub fn line_split(&self) -> LineSplit {
        self.split
    }
    pub fn name(&self) -> String {
        format!("{}/{}", self.enc.name(), self.split.name())
    }

    /// Number of lines. A text always has at least one line; a trailing terminator opens a last empty line
    /// (`"a\n"` has 2 lines), as in every LSP client.
    pub fn line_count(&self) -> u32 {
        self.starts.len() as u32
    }

    /// Byte offset of the first byte of `line`.
    pub fn line_start(&self, line: u32) -> Option<usize> {
        self.starts.get(line as usize).copied()
    }

    /// Byte offset of the end of the content of `line` (the position of its terminator, or the end of the text).
    pub fn line_end(&self, line: u32) -> Option<usize> {
        self.ends.get(line as usize).copied()
    }

    /// Byte offset just after the terminator of `line` (= start of the next line, or the end of the text).
    pub fn line_end_with_terminator(&self, line: u32) -> Option<usize> {
        let l = line as usize;
        if l >= self.starts.len() {
            None
        } else if l + 1 < self.starts.len() {
            Some(self.starts[l + 1])
        } else {
            Some(self.text.len())
        }
    }

    /// Content of `line` without its terminator.
    pub fn line_text(&self, line: u32) -> Option<&str> {
        let l = line as usize;
        if l >= self.starts.len() {
            return None;
        }
        Some(&self.text[self.starts[l]..self.ends[l]])
    }

    /// Length of the content of `line` in units of the model's encoding (terminator excluded).
    pub fn line_len_units(&self, line: u32) -> Option<u32> {
        self.line_text(line).map(|s| self.enc.str_units(s))
    }

    /// Offset addressed by `(line, ch)` following the protocol: `None` when the line does not exist;
    /// `ch` past the end of the line is clamped to the end of the line content; a `ch` that falls
    /// inside a character (second half of a surrogate pair, continuation byte) is rounded *down* to the
    /// start of that character (the spec is silent; use [`PosModel::to_offset_admissible`] when judging
    /// an implementation).
    pub fn to_offset(&self, line: u32, ch: u32) -> Option<usize> {
        let l = line as usize;
        if l >= self.starts.len() {
            return None;
        }
        let (s, e) = (self.starts[l], self.ends[l]);
        let mut units = 0u32;
        for (i, c) in self.text[s..e].char_indices() {
            let w = self.enc.units(c);
            if units + w > ch {
                return Some(s + i);
            }
            units += w;
        }
        Some(e)
    }

    /// Like [`PosModel::to_offset`] but `None` unless `(line, ch)` addresses a character boundary
    /// of an existing line exactly (no clamping, no rounding).
    pub fn to_offset_exact(&self, line: u32, ch: u32) -> Option<usize> {
        let o = self.to_offset(line, ch)?;
        let l = line as usize;
        if self.enc.str_units(&self.text[self.starts[l]..o]) == ch { Some(o) } else { None }
    }

    /// Every offset an implementation may return for `(line, ch)` without contradicting the protocol text:
    /// * no such line → empty (the implementation must return nothing);
    /// * exact boundary → that offset only;
    /// * inside a character → its start or its end;
    /// * past the end of the line → the end of the line content; offsets inside the terminator and the
    ///   start of the next line are also listed when `lenient_terminator` is set (older reference clients
    ///   clamped to the start of the next line).
    pub fn to_offset_admissible(&self, line: u32, ch: u32, lenient_terminator: bool) -> Vec<usize> {
        let l = line as usize;
        if l >= self.starts.len() {
            return vec![];
        }
        if let Some(o) = self.to_offset_exact(line, ch) {
            return vec![o];
        }
        let len = self.line_len_units(line).unwrap_or(0);
        if ch > len {
            let mut v = vec![self.ends[l]];
            if lenient_terminator {
                let stop = self.line_end_with_terminator(line).unwrap_or(self.ends[l]);
                for o in self.ends[l] + 1..=stop {
                    v.push(o);
                }
            }
            return v;
        }
        // inside a character
        let lo = self.to_offset(line, ch).unwrap_or(self.ends[l]);
        let w = self.text[lo..].chars().next().map(|c| c.len_utf8()).unwrap_or(0);
        vec![lo, lo + w]
    }

    /// True when `(line, ch)` is an existing line and `ch` ≤ its length (a position a server may *emit*).
    pub fn is_valid_position(&self, line: u32, ch: u32) -> bool {
        match self.line_len_units(line) {
            Some(len) => ch <= len,
            None => false,
        }
    }

    /// Position of byte offset `offset`. Offsets past the end are clamped to the end of the text; an offset
    /// inside a character is rounded down to its start; an offset inside a terminator (between `\r` and `\n`
    /// of a CRLF under [`LineSplit::Lsp`]) is reported as the end of that line's content.
    pub fn to_position(&self, offset: usize) -> (u32, u32) {
        let mut o = offset.min(self.text.len());
        while !self.text.is_char_boundary(o) {
            o -= 1;
        }
        // last line whose start <= o
        let l = self.starts.partition_point(|&s| s <= o) - 1;
        let o = o.min(self.ends[l]); // inside the terminator -> end of the content
        (l as u32, self.enc.str_units(&self.text[self.starts[l]..o]))
    }

    /// True when `offset` is a char boundary that has an exact position (i.e. not inside a CRLF terminator).
    pub fn is_representable_offset(&self, offset: usize) -> bool {
        if offset > self.text.len() || !self.text.is_char_boundary(offset) {
            return false;
        }
        let l = self.starts.partition_point(|&s| s <= offset) - 1;
        offset <= self.ends[l]
    }

    /// The text selected by the LSP range `start..end` (clamping as the protocol says), `None` when a line
    /// does not exist or the range is inverted.
    pub fn slice(&self, start: (u32, u32), end: (u32, u32)) -> Option<&str> {
        let s = self.to_offset(start.0, start.1)?;
        let e = self.to_offset(end.0, end.1)?;
        if s > e {
            return None;
        }
        Some(&self.text[s..e])
    }

    /// Like [`PosModel::slice`] but `None` when either end is not an exact position of the text.
    pub fn slice_exact(&self, start: (u32, u32), end: (u32, u32)) -> Option<&str> {
        let s = self.to_offset_exact(start.0, start.1)?;
        let e = self.to_offset_exact(end.0, end.1)?;
        if s > e {
            return None;
        }
        Some(&self.text[s..e])
    }

    /// LSP range of the byte range `s..e`.
    pub fn range_of(&self, s: usize, e: usize) -> ((u32, u32), (u32, u32)) {
        (self.to_position(s), self.to_position(e))
    }
}

/// Which of the [`VARIANTS`] make the LSP range `start..end` select exactly `expected` in `text`
/// (empty result = the range is wrong under every convention).
pub fn conventions_selecting(text: &str, start: (u32, u32), end: (u32, u32), expected: &str) -> Vec<(Encoding, LineSplit)> {
    VARIANTS
        .iter()
        .copied()
        .filter(|(e, s)| PosModel::new(text, *e, *s).slice_exact(start, end) == Some(expected))
        .collect()
}

/// Does the text contain anything on which the conventions of [`VARIANTS`] can differ at all?
/// (astral characters for the encoding, `\r` for the line split)
pub fn discriminates(text: &str) -> (bool, bool) {
    (text.chars().any(|c| c.len_utf16() == 2), text.contains('\r'))
}

#[cfg(test)]
mod tests {
    use super::*;

    #[test]
    fn basics() {
        let m = PosModel::new("a😀b\r\nc", Encoding::Utf16, LineSplit::Lsp);
        assert_eq!(m.line_count(), 2);
        assert_eq!(m.line_len_units(0), Some(4));
        assert_eq!(m.to_offset(0, 3), Some(5));
        assert_eq!(m.to_offset(0, 2), Some(1)); // inside the pair: rounded down
        assert_eq!(m.to_offset_exact(0, 2), None);
        assert_eq!(m.to_offset_admissible(0, 2, false), vec![1, 5]);
        assert_eq!(m.to_offset(0, 99), Some(6));
        assert_eq!(m.to_offset_admissible(0, 99, true), vec![6, 7, 8]);
        assert_eq!(m.to_offset(2, 0), None);
        assert_eq!(m.to_position(8), (1, 0));
        assert_eq!(m.to_position(7), (0, 4)); // between \r and \n
        assert_eq!(m.to_position(9), (1, 1));
        assert_eq!(m.to_position(100), (1, 1));
        assert_eq!(m.slice((0, 1), (0, 3)), Some("😀"));
        let s = PosModel::new("a😀b\r\nc", Encoding::Scalar, LineSplit::LfOnly);
        assert_eq!(s.line_len_units(0), Some(4)); // a 😀 b \r
        assert_eq!(s.to_offset(0, 2), Some(5));
        assert_eq!(s.to_position(7), (0, 4));
        let e = PosModel::new("", Encoding::Utf16, LineSplit::Lsp);
        assert_eq!(e.line_count(), 1);
        assert_eq!(e.to_offset(0, 5), Some(0));
        assert_eq!(e.to_position(0), (0, 0));
        let t = PosModel::new("x\r", Encoding::Utf16, LineSplit::Lsp);
        assert_eq!(t.line_count(), 2);
        assert_eq!(t.to_position(2), (1, 0));
        let r = PosModel::new("a\rb\nc", Encoding::Utf16, LineSplit::Lsp);
        assert_eq!(r.line_count(), 3);
        assert_eq!(r.to_offset(1, 0), Some(2));
        for (enc, sp) in VARIANTS {
            let txt = "é\r\n😀x\ry\n\nz";
            let m = PosModel::new(txt, enc, sp);
            for o in 0..=txt.len() {
                if m.is_representable_offset(o) {
                    let (l, c) = m.to_position(o);
                    assert_eq!(m.to_offset_exact(l, c), Some(o), "{enc:?} {sp:?} {o}");
                }
            }
        }
    }
}
